#!/bin/bash
# usage: tryseed.sh <seeded-dir-name e.g. C06-3> [PROP ...]   — applies the seeded change to /repo, runs the quick checks, ALWAYS reverts
d=/verif/seeded/$1; shift
props=${@:-$(basename $d | cut -d- -f1)}
cd /repo || exit 2
if ! git diff --quiet; then echo "repo dirty, refusing"; exit 2; fi
git apply $d/patch.diff || exit 3
for p in $props; do
  out=$(cd /verif && ./check $p 2>&1 | grep -E '^(VIOLATION|OK|INCONCLUSIVE|KNOWN)' | head -4 | cut -c1-160)
  echo "  $p: $out"
done
git checkout -- . ; git clean -fdq crates
