#!/bin/bash
# usage: seedcheck_all.sh [PROP ...] — re-runs every kept seeded change against its own property's quick check (applies, checks, reverts)
cd /verif
only=" $* "
for d in seeded/C*-*/; do
  id=$(basename $d); prop=${id%%-*}
  if [ $# -gt 0 ] && [[ "$only" != *" $prop "* ]]; then continue; fi
  cd /repo; if ! git diff --quiet; then echo "repo dirty"; exit 2; fi
  if ! git apply /verif/$d/patch.diff 2>/dev/null; then echo "$id: PATCH DOES NOT APPLY"; continue; fi
  out=$(cd /verif && ./check $prop --tier quick 2>&1 | grep -E '^(VIOLATION|OK|INCONCLUSIVE)' | head -3 | tr '\n' ' ' | cut -c1-260)
  git checkout -- . ; git clean -fdq crates
  cd /verif
  { echo "# seeded change $id checked on $(date -u +%FT%TZ) against /repo $(git -C /repo rev-parse --short HEAD)"; echo "quick $prop: $out"; } > $d/result.txt
  echo "$id: $out"
done
