#!/bin/bash
# usage: seedround.sh <prefix e.g. /tmp/seed4-c> <n1> <n2> [confirm|check]
# files the two deliveries of every agent of a seeding round as seeded/<ID>-<n1>, -<n2>:
#   confirm: demo on clean tree / existing tests with patch / demo with patch, in the agent's own worktree (parallel)
#   check:   property's quick check against /repo with the patch applied (serial, reverts)
pre=$1; n1=$2; n2=$3; phase=${4:-confirm}
for d in ${pre}[0-9][0-9]/out; do [ -d $d/1 ] && [ ! -d $d/$n1 ] && cp -r $d/1 $d/$n1; [ -d $d/2 ] && [ ! -d $d/$n2 ] && cp -r $d/2 $d/$n2; done
if [ $phase = confirm ]; then
  ls -d ${pre}[0-9][0-9]/out | xargs -P 5 -I{} bash -c 'o={}; p=C$(echo $o | sed -E "s#.*c([0-9]+)/out#\1#"); for n in '"$n1 $n2"'; do d=$o/$n; [ -d $d ] || continue; [ -f /verif/seeded/$p-$n/confirm.txt ] || PHASE=confirm /verif/seedcheck.sh $p $d > /tmp/confirm-$p-$n.log 2>&1; done'
else
  for o in ${pre}[0-9][0-9]/out; do p=C$(echo $o | sed -E "s#.*c([0-9]+)/out#\1#"); for n in $n1 $n2; do [ -d $o/$n ] || continue; PHASE=check /verif/seedcheck.sh $p $o/$n 2>&1 | grep "^quick" | cut -c1-170 | sed "s/^/$p-$n /"; done; done
fi
