#!/bin/bash
# usage: mkbuilder.sh <name>  — private worktree + harness copy for a builder under /tmp/build-<name>
set -e
W=/tmp/build-$1
rm -rf $W; mkdir -p $W/findings
git -C /repo worktree prune
git -C /repo worktree add -q --detach $W/repo HEAD
mkdir -p $W/harness
rsync -a --exclude target /verif/harness/ $W/harness/
sed -i "s#/repo/crates#$W/repo/crates#g" $W/harness/Cargo.toml
sed -i "s#/verif/.target#$W/target#g" $W/harness/.cargo/config.toml
echo $W
