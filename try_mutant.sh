#!/bin/bash
# usage: try_mutant.sh <PROP[,PROP..]> <file-relative-to-/repo> <sed-expression>
# applies a one-off mutation to /repo, runs the quick checks, and ALWAYS reverts.
props=$1; file=$2; expr=$3
cd /repo || exit 2
if ! git diff --quiet; then echo "repo dirty, refusing"; exit 2; fi
sed -i -E "$expr" "$file"
if git diff --quiet; then echo "MUTANT DID NOT CHANGE ANYTHING"; exit 3; fi
git diff --stat | tail -1
for p in ${props//,/ }; do
  out=$(cd /verif && ./check $p 2>&1 | grep -E '^(VIOLATION|OK|INCONCLUSIVE|KNOWN)' | head -3)
  echo "  $p: $out"
done
git checkout -- .
