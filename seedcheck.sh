#!/bin/bash
# usage: seedcheck.sh <PROP e.g. C19> <out-dir of the seeding agent e.g. /tmp/seed-c19/out/1> [extra PROPs to run too]
# Confirms the patch applies to /repo, runs the quick check(s) against it, reverts, and files everything
# under /verif/seeded/<PROP>-<n>/ (patch.diff, demo, meta.json, result.txt).
prop=$1; src=$2; shift 2; extra="$@"
n=$(basename $src)
dst=/verif/seeded/$prop-$n
if [ "${PHASE:-both}" = confirm ]; then cd $(dirname $(dirname $src))/repo && git checkout -q -- . && git clean -fdq crates; else cd /repo; fi || exit 2
if ! git diff --quiet; then echo "repo dirty"; exit 2; fi
if ! git apply --check $src/patch.diff 2>/dev/null; then echo "PATCH DOES NOT APPLY: $src"; exit 3; fi
mkdir -p $dst; cp -r $src/* $dst/
# --- confirm the seeding agent's claims in its scratch worktree -------------------------------------------
wt=$(dirname $(dirname $src))/repo
if [ -d $wt ] && [ "${PHASE:-both}" != check ]; then
  crate=$(python3 -c "
import json,re
m=json.load(open('$src/meta.json'))
t=' '.join(str(m.get(k,'')) for k in ('demo_command','notes','files_touched'))
r=re.search(r'crates/([a-z-]+)/tests',t) or re.search(r'-p ezk-([a-z-]+)',t) or re.search(r'crates/([a-z-]+)/src',t)
print(r.group(1) if r else '')")
  feat=""; if grep -q "ezk-verif" $src/meta.json $src/README.txt 2>/dev/null; then case "$crate" in sip-core|sip-ua|stun) feat="--features ezk-verif";; esac; fi
  rundemo() {
    mkdir -p crates/$crate/tests && cp $src/demo.rs crates/$crate/tests/seed_demo.rs
    if [ -f $src/demo_cargo_additions.txt ] && grep -qE '^[a-zA-Z0-9_-]+ *= *["{]' $src/demo_cargo_additions.txt; then
      # merge dev-dependencies (the crate has no [dev-dependencies] section of its own)
      if grep -q '^\[dev-dependencies\]' crates/$crate/Cargo.toml; then
        grep -E '^[a-zA-Z0-9_-]+ *= *["{]' $src/demo_cargo_additions.txt >> crates/$crate/Cargo.toml
      else
        { echo; echo '[dev-dependencies]'; grep -E '^[a-zA-Z0-9_-]+ *= *["{]' $src/demo_cargo_additions.txt; } >> crates/$crate/Cargo.toml
      fi
    fi
    cargo test -p ezk-$crate --test seed_demo --offline $feat
  }
  (
    cd $wt && git checkout -q -- . && git clean -fdq crates
    if [ -n "$crate" ] && [ -f $src/demo.rs ]; then
      rundemo >/tmp/seedcheck-$prop-$n-demo-clean.log 2>&1; echo "demo on clean tree: exit $? (expected 0)"
      git checkout -q -- . ; git clean -fdq crates
    else
      echo "demo: cannot determine crate / no demo.rs"
    fi
    git apply $src/patch.diff
    cargo test --workspace --offline >/tmp/seedcheck-$prop-$n-tests.log 2>&1; echo "existing tests with patch: exit $? (expected 0)"
    if [ -n "$crate" ] && [ -f $src/demo.rs ]; then
      rundemo >/tmp/seedcheck-$prop-$n-demo-patched.log 2>&1; echo "demo with patch: exit $? (expected non-zero: 101 = test failure)"
    fi
    git checkout -q -- . ; git clean -fdq crates
  ) | tee $dst/confirm.txt
fi
[ "${PHASE:-both}" = confirm ] && exit 0
cd /repo
git apply $src/patch.diff
{
  echo "# seeded change $prop-$n checked on $(date -u +%FT%TZ) against /repo $(git rev-parse --short HEAD)"
  for p in $prop $extra; do
    out=$(cd /verif && ./check $p --tier quick 2>&1 | grep -E '^(VIOLATION|OK|INCONCLUSIVE)' | head -4 | tr '\n' ' ')
    echo "quick $p: $out"
  done
} | tee $dst/result.txt
git checkout -- . ; git clean -fdq crates
