#![no_main]
//! C20: no input panics the STUN parser, attribute decoding or the SIP/STUN demultiplexer.
use libfuzzer_sys::fuzz_target;
use stun_types::attributes::*;
use stun_types::parse::ParsedMessage;

fuzz_target!(|data: &[u8]| {
    let _ = stun_types::is_stun_message(data);
    let _ = sip_core::transport::parse_complete(Default::default(), data);
    if let Ok(mut m) = ParsedMessage::parse(data.to_vec()) {
        let _ = m.get_attr::<MappedAddress>();
        let _ = m.get_attr::<XorMappedAddress>();
        let _ = m.get_attr::<AlternateServer>();
        let _ = m.get_attr::<Username>();
        let _ = m.get_attr::<Realm>();
        let _ = m.get_attr::<Nonce>();
        let _ = m.get_attr::<Software>();
        let _ = m.get_attr::<ErrorCode>();
        let _ = m.get_attr::<UnknownAttributes>();
        let _ = m.get_attr::<Fingerprint>();
        let _ = m.get_attr::<PasswordAlgorithms>();
        let _ = m.get_attr::<PasswordAlgorithm>();
        let _ = m.get_attr::<UserHash>();
    }
});
