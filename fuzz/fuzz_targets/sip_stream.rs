#![no_main]
//! C02 + C03: the stream decoder never panics; and when the unsegmented stream decodes without error,
//! every segmentation of it decodes to the same messages (first input bytes choose the cuts).
use bytes::BytesMut;
use libfuzzer_sys::fuzz_target;
use sip_core::transport::streaming::verif::StreamingDecoder;
use sip_types::print::AppendCtx;
use tokio_util::codec::Decoder;

type Msg = (String, Vec<(String, String)>, Vec<u8>);

/// drives the decoder the way tokio_util's FramedRead does
fn run(stream: &[u8], cuts: &[usize]) -> (Vec<Msg>, bool) {
    let mut dec = StreamingDecoder::new(Default::default());
    let mut buf = BytesMut::new();
    let mut out = vec![];
    let mut prev = 0;
    let mut bounds: Vec<usize> = cuts.iter().copied().filter(|c| *c > 0 && *c < stream.len()).collect();
    bounds.sort();
    bounds.dedup();
    bounds.push(stream.len());
    for b in bounds {
        buf.extend_from_slice(&stream[prev..b]);
        prev = b;
        loop {
            match dec.decode(&mut buf) {
                Ok(Some(m)) => out.push((
                    m.line.default_print_ctx().to_string(),
                    m.headers.iter().map(|(n, v)| (n.as_print_str().to_string(), v.to_string())).collect(),
                    m.body.to_vec(),
                )),
                Ok(None) => break,
                Err(_) => return (out, true),
            }
        }
    }
    // end of stream: bytes left over are an error for FramedRead
    let err = !buf.is_empty();
    (out, err)
}

fuzz_target!(|data: &[u8]| {
    if data.len() < 4 {
        return;
    }
    let (sel, stream) = data.split_at(3);
    let (whole, err) = run(stream, &[]);
    if err || stream.is_empty() {
        return;
    }
    let n = stream.len();
    let cuts: Vec<usize> = match sel[0] % 3 {
        0 => (1..n).collect(),                                   // dribble
        1 => vec![1 + (sel[1] as usize * n / 256).min(n - 1)],   // one cut
        _ => vec![1 + (sel[1] as usize * n / 256).min(n - 1), 1 + (sel[2] as usize * n / 256).min(n - 1)],
    };
    let (parts, err2) = run(stream, &cuts);
    assert!(!err2, "segmented decode failed where the unsegmented one succeeded (cuts {:?})", cuts);
    assert_eq!(whole, parts, "segmentation changed the decoded messages (cuts {:?})", cuts);
});
