#![no_main]
//! C19: parsing any text as SDP returns; printing what was parsed returns; the printed text parses again.
use bytesstr::BytesStr;
use libfuzzer_sys::fuzz_target;
use sdp_types::SessionDescription;

fuzz_target!(|data: &[u8]| {
    let Ok(text) = std::str::from_utf8(data) else { return };
    let src = BytesStr::from(text);
    if let Ok(desc) = SessionDescription::parse(&src) {
        let printed = desc.to_string();
        let again = BytesStr::from(printed.as_str());
        // (a value obtained from lenient parsing may lie outside the documented grammars, so only
        // "does not panic" is demanded of the second round)
        let _ = SessionDescription::parse(&again).map(|d| d.to_string());
    }
});
