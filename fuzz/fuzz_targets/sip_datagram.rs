#![no_main]
//! C02: the datagram parser and every typed header decoder return, never panic.
use libfuzzer_sys::fuzz_target;
use sip_core::transport::{parse_complete, CompleteItem};
use sip_types::header::typed::*;
use sip_types::{Headers, Name};

macro_rules! all {
    ($v:expr, $( $t:ty => $n:expr ),* ) => {{
        $(
            let mut h = Headers::new();
            h.insert($n, $v);
            let _ = h.get::<$t>($n);
            let _ = h.get::<Vec<$t>>($n);
        )*
    }};
}

fuzz_target!(|data: &[u8]| {
    if let Ok(CompleteItem::Sip { headers, .. }) = parse_complete(Default::default(), data) {
        let values: Vec<String> = headers.iter().map(|(_, v)| v.to_string()).collect();
        for v in values.iter().take(12) {
            all!(v.as_str(),
                Via => Name::VIA, FromTo => Name::FROM, Contact => Name::CONTACT, Routing => Name::ROUTE, CSeq => Name::CSEQ,
                RAck => Name::RACK, RSeq => Name::RSEQ, CallID => Name::CALL_ID, MaxForwards => Name::MAX_FORWARDS,
                Expires => Name::EXPIRES, MinSe => Name::MIN_SE, SessionExpires => Name::SESSION_EXPIRES,
                ContentLength => Name::CONTENT_LENGTH, ContentType => Name::CONTENT_TYPE, Accept => Name::ACCEPT,
                Allow => Name::ALLOW, Supported => Name::SUPPORTED, Replaces => Name::REPLACES, RetryAfter => Name::RETRY_AFTER,
                SubscriptionState => Name::SUBSCRIPTION_STATE, AuthChallenge => Name::WWW_AUTHENTICATE, AuthResponse => Name::AUTHORIZATION
            );
        }
    }
});
