#!/usr/bin/env python3
"""Regenerates /verif/MANIFEST.json from the table below. Run after adding a property check."""
import json, subprocess

TITLES = {}
for l in open('/verif/properties.jsonl'):
    p = json.loads(l)
    TITLES[p['id']] = p['title']

# id -> (technique, level text, level note, design ref, engine)
CHECKS = {
    'C01': ("proptest over typed SIP values (methods, URIs in every print context, name-addr, 30 typed header kinds, whole messages through the real send_outgoing_* path) + exhaustive enumeration of all 65 536 status codes; oracle = field-wise comparison with the generated value, RFC 3261 Table 1 expectation rules, print/parse/print fixpoint, independent re-read of the printed text (ref_sip), look-ups in the re-parsed message with application-defined names (Name::custom: equality from both sides, contains, remove vs a case-insensitive model)",
            "exploration: full u16 code domain exhaustive; all other value kinds sampled with weights on %, reserved and multi-byte characters, Table-1 relevant parameter names, method tokens derived from well-known names",
            "trusts ref_sip (independent RFC 3261 splitter / percent-decoder), the mock transport; generators stay inside the documented grammars (qdtext display names, raw token components)",
            "DESIGN.md 3/C01", "E-codec"),
    'C02': ("proptest over hostile inputs (24-entry mutation catalogue on valid messages, byte-level mutations, random bytes / ASCII / token soup) delivered as datagram, as segmented stream, inside an established dialog and inside a pending INVITE, plus hostile response headers towards Initiator; oracle = process-wide panic capture over every parser / typed decoder / the whole receive path with the UA layers, and bounded liveness: a valid OPTIONS after the input must be answered on the datagram transport and on a fresh connection",
            "exploration: sampled hostile inputs with per-catalogue-entry coverage counts; decides no panic / overflow / out-of-bounds anywhere on the case's thread (overflow checks on), and that a single bad packet does not silence a transport; hangs are reported by the wall-clock watchdog as inconclusive",
            "trusts the panic hook + current-thread runtime (every task of a case runs on the case's thread), tokio's paused clock, mock transports; TLS transports and real sockets are outside",
            "DESIGN.md 3/C02", "E-world"),
    'C03': ("exhaustive enumeration of 1-cut/2-cut segmentations over a 27-message corpus + proptest over generated message sequences and k-cut/dribble segmentations, fed through the real FramedRead<StreamingDecoder>; oracle = differential against the datagram parser (named by the statement) cross-checked with the generator's record",
            "exploration: every 1-cut of every corpus message and of 2-message pipelines with keep-alive patterns, every 2-cut in thorough (1.18 M segmentations), random sequences with decoy headers, all Content-Length spellings, bodies up to 65535 B, heads up to 4096 B",
            "trusts tokio_util FramedRead, the datagram parser as reference (body and header count cross-checked against the generator), hook H1",
            "DESIGN.md 3/C03", "E-codec"),
    'C04': ("proptest over timed message histories on a small identifier alphabet under a paused tokio clock; oracle = symbolic RFC 3261 17.1.3/17.2.3 matching + transaction-lifetime reference model",
            "exploration: sampled histories (3..12 events) of peer requests / retransmissions / ACK / CANCEL, application answers, client sends and responses with equal-or-different branch and CSeq method, RFC 3261 and cookie-less branches, role-confusion probes, arrivals +-4 ms around each end of life; decides absorbed / shown to layers / delivered to which client transaction",
            "trusts tokio's paused clock, hook H2, the reference model (identifier equality + ref_tsx lifetimes); ambiguous instants (within 3 ms of an end of life, INVITE timeout window) stop the comparison",
            "DESIGN.md 3/C04", "E-world"),
    'C05': ("proptest + exhaustive grid enumeration of scripted response arrivals under a paused tokio clock; oracle = RFC 3261 timer reference model",
            "exploration: every first-response instant that brackets a timer edge is enumerated for both transaction kinds and reliabilities, response tails are sampled; decides send instants, byte identity, timeout instant, T4 absorber",
            "trusts tokio's paused clock, hook H2 (tokio Instant in transactions), the 40-line ref_tsx schedule model and the mock transport",
            "DESIGN.md 3/C05", "E-world"),
    'C06': ("proptest + exhaustive grid enumeration of request-retransmission / ACK arrival instants under a paused tokio clock; oracle = RFC 3261 timer G/H/J reference model over the wire log",
            "exploration: all single (thorough: pairs of) retransmission instants x ACK instants on the +-1 ms edge grid are enumerated for both kinds, reliabilities and status classes; longer patterns sampled; decides immediacy, exactly-once, byte-identical re-sends, stop at ACK, timeout window, what the layers see",
            "trusts tokio's paused clock, hook H2, ref_tsx, the mock transport and the recording layer",
            "DESIGN.md 3/C06", "E-world"),
    'C07': ("proptest over INVITE shapes x scripted response histories under a paused tokio clock; oracle = RFC 3261 17.1.1.3 ACK construction rules checked on the wire with an independent parser + a reference client state machine",
            "exploration: sampled request shapes (Route, display names, IPv6, Via override) and response histories (forks, retransmitted finals around 32 s and 64*T1); decides ACK presence per response, ACK header equality, destination, and the receive() sequence",
            "trusts tokio's paused clock, hook H2, the WireMsg reader, the mock transport",
            "DESIGN.md 3/C07", "E-world"),
    'C08': ("proptest over layer stacks (per-method policies, DialogLayer with usages, InviteLayer) and concurrent request mixes under a paused tokio clock; oracle = reference walk of the stack predicting the single final status per (branch, CSeq) from the wire log",
            "exploration: sampled stacks of 1..4 policy layers with DialogLayer at any position, 1..4 requests (out-of-dialog, in-dialog, unknown dialog, ACK, stray response, retransmission) overlapping in time; decides exactly-one final response, predicted code (first taker / 404 / 481), registration-order consultation, INVITE rejections retransmitted until ACK, silence towards ACKs and responses",
            "trusts tokio's paused clock, hook H2, WireMsg, the policy layers of the harness",
            "DESIGN.md 3/C08", "E-world"),
    'C09': ("exhaustive enumeration of status codes 100..699 and of a routing grid (transport x sent-by kind x port x source relation x maddr x rport x received x Via count) + proptest over request shapes; oracle = independent RFC 3261 18.2.2 / RFC 3581 decision table and reason-phrase table (ref_route), response read back with independent Via / From / To readers",
            "exploration: status-code and routing-grid sub-spaces exhaustive, request shapes (1..5 Via values, parameters, display names, IPv4/IPv6/host names, datagram and inbound/outbound connections) sampled",
            "trusts ref_route, WireMsg, mock transports; shapes of the two open findings are excluded by construction and counted",
            "DESIGN.md 3/C09", "E-world"),
    'C10': ("exhaustive enumeration of arrival permutations (n<=4, thorough n<=5/6) x roles x start CSeq values incl. u32::MAX, of guard-drop positions, of back-to-back bursts and of wide backlogs (63..200, thorough ..255 requests held behind one missing number, three arrival orders) + proptest over arrival sequences with duplicates, near-miss keys, ACKs, guard drops; oracle = independent reorder-buffer reference model (ref_reorder)",
            "exploration, exhaustive over the stated permutation sub-spaces for UAS- and UAC-created dialogs; random sequences sampled; decides exactly-once, increasing CSeq order, release in the step the gap is filled, pass-through of non-matching requests and of the ACK, silence after guard drop, empty backlog, no overflow at u32::MAX",
            "trusts ref_reorder, tokio's paused clock, hook H3 (backlog size); single-threaded cooperative schedules only; the open finding (overlapping arrivals interleaved) is keyed by a narrow signature",
            "DESIGN.md 3/C10", "E-world"),
    'C11': ("exhaustive enumeration of status codes 100..699 for dialog responses + proptest over dialog-creating INVITE/2xx pairs (0..4 Record-Route, tags, Contacts, display names) for both roles and sequences of created requests, partly from 4 OS threads; oracle = RFC 3261 section 12 reference model built from the wire texts only (ref_dialog)",
            "exploration: all status codes exhaustive for the UAS response rules; dialog shapes and request sequences sampled; decides Call-ID, From/To URI+tag swap, Request-URI = remote target, Max-Forwards, Route = route set (reversed on the UAC), strictly increasing CSeq above the INVITE's, ACK reusing the INVITE's number (via the Session refresh flow), To-tag/Contact/Record-Route of responses",
            "trusts ref_dialog, WireMsg; tags containing % are excluded by construction (two open findings); the CSeq counter is the only thing exercised with real threads",
            "DESIGN.md 3/C11", "E-world"),
    'C12': ("exhaustive enumeration of ACK / PRACK arrival grids (+-1 ms around every retransmission instant, matching and non-matching CSeq/RAck) + proptest over races of application ops and network ops at shared instants with tokio select seeds, under a paused clock; oracle = RFC 3261 13.3.1.4 / RFC 3262 schedules and an admissible-winner model over the wire log",
            "exploration: accept_retransmit and reliable_provisional grids exhaustive; races sampled (1..3 app ops x 1..4 network ops over 9 instants, both orders at shared instants); decides exactly one final response, the winner among same-instant decisive events, CANCEL/BYE answered with their own Via/CSeq, 2xx retransmission T1 doubling to T2 until the matching ACK / 64*T1, reliable 1xx doubling until the matching PRACK",
            "trusts tokio's paused clock, hook H2, WireMsg, ref_tsx; give-up windows [64*T1, 64*T1+T2] and the total duration of reliable-1xx retransmission are not asserted",
            "DESIGN.md 3/C12", "E-world"),
    'C13': ("exhaustive enumeration of all response histories up to length 4 (thorough 5) over a reduced alphabet + proptest over richer histories, driving the real Initiator/Early under a paused tokio clock; oracle = reference classifier over the set of To-tags seen so far, recipients identified by unique X-Seq markers",
            "exploration: every history of <=4 responses over {100,180,200,486} x {no tag,t0,t1} (11 110 cases); random histories of 1..10 responses with 3 tags, optional Contact/Record-Route/Supported/RSeq/Session-Expires; decides recipient and variant per response, exactly-once delivery, session contents from that 2xx, termination of early dialogs, completion 64*T1 after the first 2xx",
            "trusts tokio's paused clock, hook H2, the mock transport; the application model polls every Early and drops it once it yields a session or Terminated",
            "DESIGN.md 3/C13", "E-world"),
    'C14': ("exhaustive enumeration of the endpoint configuration space (29 952 configurations) + proptest over request sequences against one endpoint; oracle = independent eligibility decision table (ref_select)",
            "exploration, exhaustive over the finite configuration product (datagram subsets x factory configs incl. registration order and connect failure x pre-existing connections x sip/sips x IPv4/IPv6 literal x port x pinning); sequences sampled so that earlier requests create the pre-existing connections",
            "trusts the mock transports/factories, ref_select, tokio paused clock; HashMap order handled by membership in the admissible set",
            "DESIGN.md 3/C14", "E-world"),
    'C15': ("exhaustive enumeration of the drop-last-handle / inbound-message race (both orders, 32 s edge, 64..256 tokio select seeds) + proptest over handle clone/drop, message, peer-close, garbage and select histories on mock connections under a paused clock; oracle = connection lifecycle reference model",
            "exploration: race sub-space exhaustive over its product x seeds; histories sampled with gaps on the 32 s edge and same-instant pairs; decides registered-while-referenced, exactly-once delivery while alive, revival by traffic, close 32 s after last use, immediate unregistration on peer close / framing error, no reuse of dead or inbound connections",
            "trusts tokio's paused clock and seeded select order, the duplex-pipe mocks (EOF = close), hook H3 (managed transport count)",
            "DESIGN.md 3/C15", "E-world"),
    'C16': ("exhaustive enumeration of flood kind x size x companion scenario + proptest over workloads of 3..12 overlapping scenarios with early drops (task abort) on one endpoint under a paused clock; oracle = table sizes read through the hooks: all zero at quiescence, and at every sample below a per-live-scenario cap",
            "exploration: floods sub-space exhaustive; workloads sampled (client / server transactions, UAS and UAC calls, floods of 100..2000 unmatched messages, connections, STUN; never-answering peers; every handle dropped at a random instant); decides that no transaction / dialog / usage / backlog / pending-cancel / STUN / connection entry survives once activity stops and that tables do not grow with the number of unmatched messages",
            "trusts hooks H3 for the table sizes, tokio's paused clock, the scenario drivers of the harness; the bound is a generous cap, not exact accounting",
            "DESIGN.md 3/C16", "E-world"),
    'C17': ("exhaustive enumeration of the value grid (role x refresher parameter x Session-Expires / Min-SE / Expires / Min-Expires edge values x short refresh histories) + proptest over random u32 values and histories, real Initiator/Acceptor/Session/Registration under a paused clock with a scripted peer; oracle = timeline monitor (refresh strictly before last-refresh + SE; non-refresher BYE in [SE, SE+64 s]; REGISTER refresh before grant + L)",
            "exploration: grids enumerated completely, random histories sampled; decides no panic for any u32 value, refresh-before-expiry on both roles, interval restart on every refresh sent/received, BYE only after the full interval, registration refresh timing, Call-ID reuse and CSeq +1",
            "trusts tokio's paused clock (intervals above 67 000 000 s are only checked for establishment + a 120 s window because tokio's timer wheel cannot represent them), hook H2, WireMsg",
            "DESIGN.md 3/C17", "E-world"),
    'C18': ("proptest over the cross product of Digest challenge parameters and challenge sequences, driving the public UacAuthSession API; oracle = independent RFC 7616/2617/8760 verifier (ref_digest) recomputing the response from the stored credentials and the printed header",
            "exploration: algorithm x qop-set x userhash x opaque x stale x UTF-8 realm/nonce/user/password x method x URI x body, 1..5 reuses with nc tracking, multi-realm / mixed WWW+Proxy / repeated-nonce sequences",
            "trusts md5/sha2 primitive crates and the 300-line ref_digest (unit-tested against the RFC 2617/7616 vectors)",
            "DESIGN.md 3/C18", "E-codec"),
    'C19': ("proptest over SessionDescription values (serde mirror types built through the public API) and over hostile / mutated SDP text; oracle = field-wise comparison with the generated value, print/parse/print fixpoint, independent RFC 8866/8839/4568 reference printer and line-placement scanner, metamorphic whole-token relation",
            "exploration: sampled descriptions (0..4 media sections, candidates, crypto lines with every suite/key/param kind, ICE options, directions, numeric edges), arbitrary/ASCII/line-shaped/hostile-number/mutated texts for no-panic, token-extension metamorphic cases for media type / protocol / suite",
            "trusts the reference printer and scanner (refmodel/sdp.rs); generator stays inside the documented grammars (listed in gen/sdp.rs)",
            "DESIGN.md 3/C19", "E-codec"),
    'C20': ("proptest over STUN messages/attributes with constructed zero-tail shapes, exhaustive single-bit flips, exhaustive 2^7 loss patterns under a paused clock; oracle = independent RFC 8489/8656 encoder+decoder+verifier (ref_stun, checked against RFC 5769 vectors)",
            "exploration: builder output byte-compared with the reference encoder, reference-encoded messages decoded by ezk, integrity/fingerprint cross-verification and every single-bit corruption of protected messages, parser no-panic on arbitrary/mutated bytes, SIP/STUN demultiplexing, client retry schedule for all loss patterns and table cleanup on return/error/drop",
            "trusts hmac/sha1/sha2/md5 primitive crates, ref_stun, tokio paused clock, hook H3 (pending count)",
            "DESIGN.md 3/C20", "E-codec"),
}

PENDING_REASON = "check not yet built in this snapshot of /verif (planned, see DESIGN.md section 3)"

# dimensions added while the seeded changes of DESIGN.md 9.2 were turned into generated dimensions (appended to the level text)
EXTRA = {
    'C01': "host names of digits / labels around 63 octets, lists printed through ExtendValues with a method context, Unicode blanks at the edges of header values, display names and reason phrases",
    'C02': "27+ mutation kinds incl. grammar-built SIP URI forms in every placement, long non-ASCII malformed values, messages claiming the branch of a live transaction; delivery inside dialogs over datagram and connection under 7 application policies with the peer ACKing or not; driven UAC sessions (uac_session_life); a deterministic spin guard (task polls per virtual instant) for 'never loops forever'; inputs sent again around every timer edge over a transport whose send takes time",
    'C03': "Content-Length value spellings (zero padding to 34 digits, folds), absent Content-Length, UTF-8 heads with cuts inside a character, heads of ~1000 lines, pipelines of several maximum-size messages, three drivers (FramedRead::new, read-ahead, the Decoder contract directly), heads at exactly the limit behind keep-alive runs, and real connections (accept / receive task) whose application drops or keeps requests between segments",
    'C04': "requests no layer takes, request-line method != CSeq method, advertised Via overrides, responses decorated with received/rport, arrival by another source / transport, responses arriving while an application write is pending, floods and mid-life copies, response writes that fail",
    'C05': "pacing sub-checks (pending sends, delayed first receive() also after 64*T1, think times), Via overrides, response bursts up to 129 between two polls, a second transport handle",
    'C06': "transient send faults, source selectors for later messages, Via shapes (rport / maddr / NAT), cookie-less branches, in-dialog requests, background load up to 600 (2048 thorough) other requests",
    'C07': "echoed header changes, ACK send faults, caller pace (first receive() up to 70 s, think times), response bursts, a second transport handle",
    'C08': "cookie-less branches with reactively built ACKs, 1-3 Via values, ACK copies, session backlog behind a busy application, late / abandoned PRACKs, send-fault plans and send latency in the acceptor world, peer retransmissions with refused re-sends, up to 200 requests behind a CSeq gap",
    'C09': "several sockets owned by the endpoint, everything sent after the first transmission (retransmissions, timer G, TU retransmit), connections that take writes in pieces, responses with bodies",
    'C10': "guard drops inside Usage::receive, failed default answers, re-INVITEs never ACKed, holds of up to 1 h",
    'C11': "rejected INVITE attempts before the dialog, forks, failed sends of requests ezk creates itself, 1xx-vs-2xx Contact / Record-Route relations, related Record-Route neighbours, PRACKs in an early dialog, sip/sips combinations of target and Contact, chosen first sequence numbers (2^8 .. 2^31 edges)",
    'C12': "reliable transports, other source ports, send-fault plans, send latency with a drifting-schedule oracle, use of the established session after a late CANCEL, several reliable provisionals in a row, RFC 2543 peers, session-timer headers on the INVITE",
    'C13': "application polling schedules for the Initiator and for Early objects, six To-tag spelling families, reliable transport, going on after an error, several INVITEs through one Initiator, responses arriving while the INVITE send is pending",
    'C14': "URI text read by five readers in every spelling, follow-up transmissions (retransmissions, ACKs), route sets and decoy URIs, send faults with pin histories, transport= / maddr= uri-parameters under ignored/honoured readings, wildcard / loopback / IPv4-mapped bound addresses",
    'C15': "pick-up and release sharing an instant with traffic, registry probes, re-selection in the instant of the last release, fragments in the decoder buffer, an application layer busy with a request",
    'C16': "connection address families and uses, peer lifetime headers, abandoned-INVITE floods, objects dropped by panicking application tasks, application-run dialogs with backlog, one helper OS thread contending for the dialog layer lock, peer tag spellings and forks on later messages of a call",
    'C17': "registrar 200 shapes (own / foreign bindings), un-REGISTER and rejected rounds, late ACKs of ezk's 2xx to a received refresh",
    'C18': "server-side nonce memory with repeated failures, credential store changes between challenges, targets with embedded URI headers, requests really sent by an Endpoint and read back from the wire",
    'C19': "Unicode white space and invisible characters in tokens, near-misses and other-form spellings of every well-known token, literal-looking host names, repeated list elements",
    'C20': "response classes / contents / id shapes, several pending requests, responses arriving while send_to is pending, responses from other addresses, datagrams with bytes behind the message, the end-to-end Endpoint::discover_public_address path",
}

def main():
    hooks = subprocess.run(['git', '-C', '/repo', 'log', '--format=%H %s'], capture_output=True, text=True).stdout.splitlines()
    hook_commits = [l.split()[0] for l in hooks if ' verif hook ' in l]
    checks = []
    for pid in sorted(CHECKS):
        tech, text, note, ref, engine = CHECKS[pid]
        checks.append({
            "property_id": pid,
            "quick_cmd": f"./check {pid} --tier quick",
            "thorough_cmd": f"./check {pid} --tier thorough",
            "evidence_file": f"/verif/evidence/{pid}.json",
            "replay_cmd_template": f"./check {pid} --replay {{path}}",
            "engine": engine,
            "level_claimed": {"category": "exploration", "text": text + " Further generated dimensions (DESIGN.md 9.2): " + EXTRA[pid] + ".", "design_ref": ref},
            "level_note": note,
            "technique": tech,
        })
    na = [{"property_id": pid, "reason": PENDING_REASON} for pid in sorted(TITLES) if pid not in CHECKS]
    manifest = {
        "version": 1,
        "setup_cmd": "cd /verif/harness && CARGO_NET_OFFLINE=true cargo build",
        "hooks": {
            "guard": "cargo feature `ezk-verif` (crates ezk-sip-core, ezk-sip-ua, ezk-stun)",
            "enable": "the harness crate /verif/harness depends on /repo/crates/* by path with features = [\"ezk-verif\"]; ./check rebuilds it on every invocation",
            "baseline_off_cmd": "cd /repo && cargo test --workspace --no-fail-fast --offline",
            "source_commits": hook_commits,
            "add_only": True,
        },
        "engines": [
            {"name": "E-codec", "path": "/verif/harness/src/engine", "kind_free_text": "sharded proptest runner + exhaustive enumerations over typed values / byte strings with independent reference codecs"},
            {"name": "E-world", "path": "/verif/harness/src/world", "kind_free_text": "deterministic simulation: current-thread tokio runtime, paused clock, seeded select! order, mock transports, scripted peer; histories generated by proptest or enumerated"},
        ],
        "checks": checks,
        "not_applicable": na,
        "notes": "All checks: ./check <ID> [--tier quick|thorough] [--replay FILE]; VERIF_SEED selects the proptest seed; exit 0 held / 1 VIOLATION / 2 inconclusive. known_findings.txt lists open and fixed findings.",
    }
    for e in manifest["engines"]:
        e["serves_properties"] = [c["property_id"] for c in checks if c["engine"] == e["name"]]
    json.dump(manifest, open('/verif/MANIFEST.json', 'w'), indent=1)
    print("wrote MANIFEST.json with", len(checks), "checks,", len(na), "not_applicable")

if __name__ == '__main__':
    main()
