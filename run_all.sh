#!/bin/bash
# usage: run_all.sh [tier] [seed]  — runs every registered check, prints one line each
tier=${1:-quick}; seed=${2:-1}
cd /verif
for id in $(python3 -c "import json;print(' '.join(c['property_id'] for c in json.load(open('MANIFEST.json'))['checks']))"); do
  s=$(date +%s.%N)
  out=$(VERIF_SEED=$seed ./check $id --tier $tier 2>/dev/null | grep -E '^(OK|VIOLATION|INCONCLUSIVE)' | head -2 | tr '\n' ' ')
  e=$(date +%s.%N)
  printf "%s  %5.1fs  %s\n" $id $(echo "$e - $s" | bc) "$out"
done
