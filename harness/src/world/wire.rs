//! Independent, deliberately small reader for SIP messages found on the mock wire.
//! Written from RFC 3261 §7; shares no code with ezk's parser.

use serde::{Deserialize, Serialize};

#[derive(Clone, Debug, PartialEq, Eq, Serialize, Deserialize)]
pub struct WireMsg {
    pub start: String,
    /// (name as written, value with folding collapsed and trimmed)
    pub headers: Vec<(String, String)>,
    pub body: Vec<u8>,
    /// bytes after the head (before applying Content-Length)
    pub raw_body_len: usize,
}

fn canon(name: &str) -> String {
    let n = name.trim().to_ascii_lowercase();
    match n.as_str() {
        "i" => "call-id".into(),
        "m" => "contact".into(),
        "e" => "content-encoding".into(),
        "l" => "content-length".into(),
        "c" => "content-type".into(),
        "f" => "from".into(),
        "s" => "subject".into(),
        "k" => "supported".into(),
        "t" => "to".into(),
        "v" => "via".into(),
        "o" => "event".into(),
        "u" => "allow-events".into(),
        "r" => "refer-to".into(),
        "b" => "referred-by".into(),
        "x" => "session-expires".into(),
        _ => n,
    }
}

impl WireMsg {
    pub fn parse(bytes: &[u8]) -> Option<WireMsg> {
        // find end of head
        let mut i = 0;
        let mut lines: Vec<String> = vec![];
        let mut cur: Vec<u8> = vec![];
        let head_end;
        loop {
            if i >= bytes.len() {
                return None;
            }
            // read one physical line
            let start = i;
            while i < bytes.len() && bytes[i] != b'\n' {
                i += 1;
            }
            if i >= bytes.len() {
                return None;
            }
            let mut line = &bytes[start..i];
            i += 1; // skip \n
            if line.ends_with(b"\r") {
                line = &line[..line.len() - 1];
            }
            if line.is_empty() {
                if !cur.is_empty() {
                    lines.push(String::from_utf8_lossy(&cur).into_owned());
                }
                head_end = i;
                break;
            }
            if (line[0] == b' ' || line[0] == b'\t') && !cur.is_empty() {
                cur.push(b' ');
                cur.extend_from_slice(trim_bytes(line));
            } else {
                if !cur.is_empty() {
                    lines.push(String::from_utf8_lossy(&cur).into_owned());
                }
                cur = line.to_vec();
            }
        }
        if lines.is_empty() {
            return None;
        }
        let start = lines.remove(0);
        let mut headers = vec![];
        for l in lines {
            let idx = l.find(':')?;
            headers.push((l[..idx].trim().to_string(), l[idx + 1..].trim().to_string()));
        }
        let rest = &bytes[head_end..];
        let mut m = WireMsg {
            start,
            headers,
            body: rest.to_vec(),
            raw_body_len: rest.len(),
        };
        if let Some(cl) = m.header("content-length") {
            if let Ok(n) = cl.trim().parse::<usize>() {
                if n <= rest.len() {
                    m.body = rest[..n].to_vec();
                }
            }
        }
        Some(m)
    }

    pub fn is_request(&self) -> bool {
        !self.start.starts_with("SIP/2.0")
    }

    pub fn method(&self) -> Option<&str> {
        if self.is_request() {
            self.start.split(' ').next()
        } else {
            None
        }
    }

    pub fn request_uri(&self) -> Option<&str> {
        if self.is_request() {
            self.start.split(' ').nth(1)
        } else {
            None
        }
    }

    pub fn status(&self) -> Option<u16> {
        if self.is_request() {
            None
        } else {
            self.start.split(' ').nth(1)?.parse().ok()
        }
    }

    pub fn reason(&self) -> Option<&str> {
        if self.is_request() {
            return None;
        }
        let mut it = self.start.splitn(3, ' ');
        it.next();
        it.next();
        it.next()
    }

    /// all values under a (canonical, case-insensitive, compact-aware) header name, in order,
    /// each physical header line as one value (comma lists not split)
    pub fn headers_named(&self, name: &str) -> Vec<&str> {
        let want = canon(name);
        self.headers
            .iter()
            .filter(|(n, _)| canon(n) == want)
            .map(|(_, v)| v.as_str())
            .collect()
    }

    pub fn header(&self, name: &str) -> Option<&str> {
        self.headers_named(name).into_iter().next()
    }

    /// values of a comma-separated list header, split at top-level commas (outside quotes and <>)
    pub fn list_values(&self, name: &str) -> Vec<String> {
        let mut out = vec![];
        for v in self.headers_named(name) {
            out.extend(split_top_commas(v));
        }
        out
    }

    pub fn top_via(&self) -> Option<String> {
        self.list_values("via").into_iter().next()
    }

    pub fn via_branch(&self) -> Option<String> {
        param_of(&self.top_via()?, "branch")
    }

    pub fn cseq(&self) -> Option<(u32, String)> {
        let v = self.header("cseq")?;
        let mut it = v.split_whitespace();
        let n = it.next()?.parse().ok()?;
        let m = it.next()?.to_string();
        Some((n, m))
    }

    pub fn call_id(&self) -> Option<&str> {
        self.header("call-id")
    }

    pub fn to_tag(&self) -> Option<String> {
        param_of(self.header("to")?, "tag")
    }

    pub fn from_tag(&self) -> Option<String> {
        param_of(self.header("from")?, "tag")
    }

    pub fn content_length_headers(&self) -> Vec<&str> {
        self.headers_named("content-length")
    }
}

fn trim_bytes(b: &[u8]) -> &[u8] {
    let mut s = 0;
    let mut e = b.len();
    while s < e && (b[s] == b' ' || b[s] == b'\t') {
        s += 1;
    }
    while e > s && (b[e - 1] == b' ' || b[e - 1] == b'\t') {
        e -= 1;
    }
    &b[s..e]
}

pub fn split_top_commas(v: &str) -> Vec<String> {
    let mut out = vec![];
    let mut cur = String::new();
    let mut in_q = false;
    let mut angle = 0;
    let mut esc = false;
    for c in v.chars() {
        if in_q {
            cur.push(c);
            if esc {
                esc = false;
            } else if c == '\\' {
                esc = true;
            } else if c == '"' {
                in_q = false;
            }
            continue;
        }
        match c {
            '"' => {
                in_q = true;
                cur.push(c)
            }
            '<' => {
                angle += 1;
                cur.push(c)
            }
            '>' => {
                if angle > 0 {
                    angle -= 1
                }
                cur.push(c)
            }
            ',' if angle == 0 => {
                out.push(cur.trim().to_string());
                cur.clear();
            }
            _ => cur.push(c),
        }
    }
    if !cur.trim().is_empty() {
        out.push(cur.trim().to_string());
    }
    out
}

/// value of header parameter `;name=value` that follows the addr-spec / first token
/// (looks only after the closing '>' if there is one)
pub fn param_of(value: &str, name: &str) -> Option<String> {
    let tail = match value.rfind('>') {
        Some(i) => &value[i + 1..],
        None => value,
    };
    for part in tail.split(';').skip(1) {
        let part = part.trim();
        let (k, v) = match part.find('=') {
            Some(i) => (&part[..i], Some(&part[i + 1..])),
            None => (part, None),
        };
        if k.trim().eq_ignore_ascii_case(name) {
            return Some(v.unwrap_or("").trim().to_string());
        }
    }
    None
}

/// true if parameter is present (with or without value)
pub fn has_param(value: &str, name: &str) -> bool {
    param_of(value, name).is_some()
}
