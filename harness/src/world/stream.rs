//! Mock connection-oriented transports built on `tokio::io::duplex`, plugged in through ezk's
//! public `StreamingTransport` / `StreamingFactory` / `StreamingListenerBuilder` traits, so the real
//! `receive_task`, `FramedRead<StreamingDecoder>`, `add_managed_*` and `UnclaimedGuard` run.

use super::{Clock, Sent, WireLog, WireMsg};
use bytes::Bytes;
use parking_lot::Mutex;
use sip_core::transport::streaming::{
    StreamingFactory, StreamingListener, StreamingListenerBuilder, StreamingTransport,
};
use sip_types::uri::UriInfo;
use std::io;
use std::net::SocketAddr;
use std::pin::Pin;
use std::sync::atomic::{AtomicBool, AtomicU32, Ordering};
use std::sync::Arc;
use std::task::{Context, Poll};
use tokio::io::{AsyncRead, AsyncWrite, AsyncWriteExt, DuplexStream, ReadBuf, WriteHalf};
use tokio::net::ToSocketAddrs;
use tokio::sync::mpsc;

/// ezk's end of a mock connection
pub struct MockStream<const SECURE: bool> {
    inner: DuplexStream,
    local: SocketAddr,
    peer: SocketAddr,
    /// number of upcoming `poll_write` calls that fail (shared with `PeerConn::write_faults`)
    write_faults: Arc<AtomicU32>,
    /// the connection takes at most that many bytes per `poll_write` call (0 = no limit); shared with `PeerConn::write_chunk`
    write_chunk: Arc<AtomicU32>,
    /// while `write_chunk` is set: every other `poll_write` call returns `Pending` (and wakes itself); shared with `PeerConn::write_stall`
    write_stall: Arc<AtomicBool>,
    /// the previous `poll_write` call was answered with `Pending` by `write_stall`
    stalled: bool,
}

impl<const SECURE: bool> AsyncRead for MockStream<SECURE> {
    fn poll_read(
        mut self: Pin<&mut Self>,
        cx: &mut Context<'_>,
        buf: &mut ReadBuf<'_>,
    ) -> Poll<io::Result<()>> {
        Pin::new(&mut self.inner).poll_read(cx, buf)
    }
}

impl<const SECURE: bool> AsyncWrite for MockStream<SECURE> {
    fn poll_write(
        mut self: Pin<&mut Self>,
        cx: &mut Context<'_>,
        buf: &[u8],
    ) -> Poll<io::Result<usize>> {
        if self
            .write_faults
            .fetch_update(Ordering::SeqCst, Ordering::SeqCst, |n| n.checked_sub(1))
            .is_ok()
        {
            // transient: nothing is written, the connection stays open and usable
            return Poll::Ready(Err(io::Error::new(io::ErrorKind::Other, "mock transient write failure")));
        }
        // a connection whose send buffer has little room: a short count is what `AsyncWrite::poll_write`
        // documents ("may write less than buf.len()"), `Pending` + wake-up what a full buffer does
        let chunk = self.write_chunk.load(Ordering::SeqCst) as usize;
        if chunk > 0 && !buf.is_empty() {
            if self.write_stall.load(Ordering::SeqCst) && !self.stalled {
                self.stalled = true;
                cx.waker().wake_by_ref();
                return Poll::Pending;
            }
            self.stalled = false;
            let n = buf.len().min(chunk);
            return Pin::new(&mut self.inner).poll_write(cx, &buf[..n]);
        }
        Pin::new(&mut self.inner).poll_write(cx, buf)
    }
    fn poll_flush(mut self: Pin<&mut Self>, cx: &mut Context<'_>) -> Poll<io::Result<()>> {
        Pin::new(&mut self.inner).poll_flush(cx)
    }
    fn poll_shutdown(mut self: Pin<&mut Self>, cx: &mut Context<'_>) -> Poll<io::Result<()>> {
        Pin::new(&mut self.inner).poll_shutdown(cx)
    }
}

impl StreamingTransport for MockStream<false> {
    const NAME: &'static str = "TCP";
    const SECURE: bool = false;
    fn local_addr(&self) -> io::Result<SocketAddr> {
        Ok(self.local)
    }
    fn peer_addr(&self) -> io::Result<SocketAddr> {
        Ok(self.peer)
    }
}

impl StreamingTransport for MockStream<true> {
    const NAME: &'static str = "TLS";
    const SECURE: bool = true;
    fn matches_transport_param(name: &str) -> bool {
        name.eq_ignore_ascii_case("tls") || name.eq_ignore_ascii_case("tcp")
    }
    fn local_addr(&self) -> io::Result<SocketAddr> {
        Ok(self.local)
    }
    fn peer_addr(&self) -> io::Result<SocketAddr> {
        Ok(self.peer)
    }
}

static NEXT_CONN: AtomicU32 = AtomicU32::new(1);

/// The peer's end of a mock connection.
pub struct PeerConn {
    pub id: u32,
    pub secure: bool,
    /// address of ezk's end
    pub ezk_addr: SocketAddr,
    /// address of the peer's end
    pub peer_addr: SocketAddr,
    writer: Option<WriteHalf<DuplexStream>>,
    /// everything ezk wrote, in order
    pub received: Arc<Mutex<Vec<u8>>>,
    /// set when ezk closed its end (EOF seen by the peer)
    pub eof: Arc<AtomicBool>,
    pub eof_at: Arc<Mutex<Option<u64>>>,
    /// send-fault plan of this connection: that many upcoming writes of ezk on it fail with a transient
    /// io::Error (nothing reaches the peer, the connection stays open); 0 = none
    pub write_faults: Arc<AtomicU32>,
    /// room in the send buffer of ezk's end: each write call of ezk on this connection is accepted for at most
    /// that many bytes (a short count, the connection stays open and takes the rest with the next call); 0 = no limit
    pub write_chunk: Arc<AtomicU32>,
    /// with `write_chunk` > 0: every accepted write call is preceded by one that finds the buffer full
    /// (`Poll::Pending`, woken at once)
    pub write_stall: Arc<AtomicBool>,
}

impl PeerConn {
    /// write bytes towards ezk (one TCP segment as far as the decoder is concerned, when followed by a settle)
    pub async fn write(&mut self, bytes: &[u8]) -> bool {
        match &mut self.writer {
            Some(w) => w.write_all(bytes).await.is_ok() && w.flush().await.is_ok(),
            None => false,
        }
    }
    /// close the peer's sending side: ezk reads EOF
    pub async fn close(&mut self) {
        if let Some(mut w) = self.writer.take() {
            let _ = w.shutdown().await;
        }
    }
    pub fn is_eof(&self) -> bool {
        self.eof.load(Ordering::SeqCst)
    }
    pub fn received_len(&self) -> usize {
        self.received.lock().len()
    }
}

fn make_pair<const SECURE: bool>(
    clock: Clock,
    log: &WireLog,
    ezk_addr: SocketAddr,
    peer_addr: SocketAddr,
) -> (MockStream<SECURE>, PeerConn) {
    let (a, b) = tokio::io::duplex(1 << 20);
    let id = 0x1_0000 + NEXT_CONN.fetch_add(1, Ordering::Relaxed);
    let (mut rd, wr) = tokio::io::split(b);
    let received: Arc<Mutex<Vec<u8>>> = Default::default();
    let eof = Arc::new(AtomicBool::new(false));
    let eof_at: Arc<Mutex<Option<u64>>> = Default::default();
    let write_faults: Arc<AtomicU32> = Default::default();
    let write_chunk: Arc<AtomicU32> = Default::default();
    let write_stall: Arc<AtomicBool> = Default::default();
    {
        let received = received.clone();
        let eof = eof.clone();
        let eof_at = eof_at.clone();
        let log = log.clone();
        tokio::spawn(async move {
            use tokio::io::AsyncReadExt;
            let mut buf = vec![0u8; 1 << 16];
            let mut pending: Vec<u8> = vec![];
            loop {
                match rd.read(&mut buf).await {
                    Ok(0) | Err(_) => {
                        eof.store(true, Ordering::SeqCst);
                        *eof_at.lock() = Some(clock.now_ms());
                        break;
                    }
                    Ok(n) => {
                        received.lock().extend_from_slice(&buf[..n]);
                        pending.extend_from_slice(&buf[..n]);
                        // frame complete SIP messages for the wire log
                        loop {
                            let Some(m) = WireMsg::parse(&pending) else { break };
                            let head_len = pending.len() - m.raw_body_len;
                            let total = head_len + m.body.len();
                            if m.header("content-length").is_none() || total > pending.len() {
                                break;
                            }
                            // the announced body has not arrived completely yet (`WireMsg::body` is then all there is)
                            if let Some(Ok(n)) = m.header("content-length").map(|v| v.trim().parse::<usize>()) {
                                if n > m.raw_body_len {
                                    break;
                                }
                            }
                            let msg: Vec<u8> = pending.drain(..total).collect();
                            log.sent.lock().push(Sent {
                                t_ms: clock.now_ms(),
                                tp: id,
                                dest: peer_addr,
                                bytes: Bytes::from(msg),
                            });
                        }
                    }
                }
            }
        });
    }
    (
        MockStream {
            inner: a,
            local: ezk_addr,
            peer: peer_addr,
            write_faults: write_faults.clone(),
            write_chunk: write_chunk.clone(),
            write_stall: write_stall.clone(),
            stalled: false,
        },
        PeerConn {
            id,
            secure: SECURE,
            ezk_addr,
            peer_addr,
            writer: Some(wr),
            received,
            eof,
            eof_at,
            write_faults,
            write_chunk,
            write_stall,
        },
    )
}

/// Shared view of a mock factory: what it was asked to do and the peer ends of what it created.
#[derive(Clone)]
pub struct FactoryProbe {
    pub connects: Arc<Mutex<Vec<(u64, SocketAddr)>>>,
    pub fail: Arc<AtomicBool>,
    pub conns: Arc<Mutex<Vec<PeerConn>>>,
    /// `PeerConn::write_chunk` / `write_stall` every connection created from now on starts with (0 / false = no limit)
    pub write_chunk: Arc<AtomicU32>,
    pub write_stall: Arc<AtomicBool>,
}

pub struct MockFactory<const SECURE: bool> {
    clock: Clock,
    log: WireLog,
    probe: FactoryProbe,
    next_port: AtomicU32,
}

pub fn mock_factory<const SECURE: bool>(clock: Clock, log: &WireLog) -> (MockFactory<SECURE>, FactoryProbe) {
    let probe = FactoryProbe {
        connects: Default::default(),
        fail: Arc::new(AtomicBool::new(false)),
        conns: Default::default(),
        write_chunk: Default::default(),
        write_stall: Default::default(),
    };
    (
        MockFactory {
            clock,
            log: log.clone(),
            probe: probe.clone(),
            next_port: AtomicU32::new(if SECURE { 41000 } else { 40000 }),
        },
        probe,
    )
}

async fn first_addr<A: ToSocketAddrs>(addr: A) -> io::Result<SocketAddr> {
    tokio::net::lookup_host(addr)
        .await?
        .next()
        .ok_or_else(|| io::Error::new(io::ErrorKind::Other, "no address"))
}

#[async_trait::async_trait]
impl StreamingFactory for MockFactory<false> {
    type Transport = MockStream<false>;
    async fn connect<A: ToSocketAddrs + Send>(&self, _: &UriInfo, addr: A) -> io::Result<Self::Transport> {
        self.do_connect(first_addr(addr).await?)
    }
}

#[async_trait::async_trait]
impl StreamingFactory for MockFactory<true> {
    type Transport = MockStream<true>;
    async fn connect<A: ToSocketAddrs + Send>(&self, _: &UriInfo, addr: A) -> io::Result<Self::Transport> {
        self.do_connect(first_addr(addr).await?)
    }
}

impl<const SECURE: bool> MockFactory<SECURE> {
    fn do_connect(&self, remote: SocketAddr) -> io::Result<MockStream<SECURE>> {
        self.probe.connects.lock().push((self.clock.now_ms(), remote));
        if self.probe.fail.load(Ordering::SeqCst) {
            return Err(io::Error::new(io::ErrorKind::ConnectionRefused, "mock connect failure"));
        }
        let port = self.next_port.fetch_add(1, Ordering::Relaxed) as u16;
        let local: SocketAddr = if remote.is_ipv4() {
            format!("10.0.0.1:{port}").parse().unwrap()
        } else {
            format!("[fd00::1]:{port}").parse().unwrap()
        };
        let (ezk_end, peer_end) = make_pair::<SECURE>(self.clock, &self.log, local, remote);
        peer_end.write_chunk.store(self.probe.write_chunk.load(Ordering::SeqCst), Ordering::SeqCst);
        peer_end.write_stall.store(self.probe.write_stall.load(Ordering::SeqCst), Ordering::SeqCst);
        self.probe.conns.lock().push(peer_end);
        Ok(ezk_end)
    }
}

/// Listener whose inbound connections are produced on demand by the test.
pub struct MockListenerBuilder<const SECURE: bool> {
    rx: mpsc::UnboundedReceiver<(MockStream<SECURE>, SocketAddr)>,
    bound: SocketAddr,
}

pub struct MockListener<const SECURE: bool> {
    rx: mpsc::UnboundedReceiver<(MockStream<SECURE>, SocketAddr)>,
}

/// Handle used by the test to open inbound connections towards ezk.
pub struct Dialer<const SECURE: bool> {
    clock: Clock,
    log: WireLog,
    tx: mpsc::UnboundedSender<(MockStream<SECURE>, SocketAddr)>,
    bound: SocketAddr,
}

pub fn mock_listener<const SECURE: bool>(
    clock: Clock,
    log: &WireLog,
    bound: &str,
) -> (MockListenerBuilder<SECURE>, Dialer<SECURE>) {
    let (tx, rx) = mpsc::unbounded_channel();
    let bound: SocketAddr = bound.parse().unwrap();
    (
        MockListenerBuilder { rx, bound },
        Dialer {
            clock,
            log: log.clone(),
            tx,
            bound,
        },
    )
}

impl<const SECURE: bool> Dialer<SECURE> {
    /// open an inbound connection from `peer_addr`; the accept task sees it at its next poll
    pub fn dial(&self, peer_addr: &str) -> PeerConn {
        let peer_addr: SocketAddr = peer_addr.parse().unwrap();
        let (ezk_end, peer_end) = make_pair::<SECURE>(self.clock, &self.log, self.bound, peer_addr);
        let _ = self.tx.send((ezk_end, peer_addr));
        peer_end
    }

    /// like `dial`, but the accepted stream reports `local_addr` as its own end (a listener bound to a
    /// wildcard / dual-stack address reports a different local address per connection, e.g. `[::ffff:10.0.0.1]:5060`)
    pub fn dial_on(&self, local_addr: &str, peer_addr: &str) -> PeerConn {
        let local_addr: SocketAddr = local_addr.parse().unwrap();
        let peer_addr: SocketAddr = peer_addr.parse().unwrap();
        let (ezk_end, peer_end) = make_pair::<SECURE>(self.clock, &self.log, local_addr, peer_addr);
        let _ = self.tx.send((ezk_end, peer_addr));
        peer_end
    }
}

#[async_trait::async_trait]
impl StreamingListenerBuilder for MockListenerBuilder<false> {
    type Transport = MockStream<false>;
    type StreamingListener = MockListener<false>;
    async fn bind<A: ToSocketAddrs + Send>(self, _addr: A) -> io::Result<(Self::StreamingListener, SocketAddr)> {
        Ok((MockListener { rx: self.rx }, self.bound))
    }
}

#[async_trait::async_trait]
impl StreamingListenerBuilder for MockListenerBuilder<true> {
    type Transport = MockStream<true>;
    type StreamingListener = MockListener<true>;
    async fn bind<A: ToSocketAddrs + Send>(self, _addr: A) -> io::Result<(Self::StreamingListener, SocketAddr)> {
        Ok((MockListener { rx: self.rx }, self.bound))
    }
}

#[async_trait::async_trait]
impl StreamingListener for MockListener<false> {
    type Transport = MockStream<false>;
    async fn accept(&mut self) -> io::Result<(Self::Transport, SocketAddr)> {
        match self.rx.recv().await {
            Some(x) => Ok(x),
            None => std::future::pending().await,
        }
    }
}

#[async_trait::async_trait]
impl StreamingListener for MockListener<true> {
    type Transport = MockStream<true>;
    async fn accept(&mut self) -> io::Result<(Self::Transport, SocketAddr)> {
        match self.rx.recv().await {
            Some(x) => Ok(x),
            None => std::future::pending().await,
        }
    }
}

#[cfg(test)]
mod smoke {
    use super::*;
    use crate::world::*;
    use sip_core::transport::TargetTransportInfo;
    use std::sync::Arc;

    #[test]
    fn outbound_and_inbound() {
        run_world(1, |clock| async move {
            let log = WireLog::new(clock);
            let (factory, probe) = mock_factory::<false>(clock, &log);
            let (lb, dialer) = mock_listener::<false>(clock, &log, "10.0.0.1:5060");
            let mut b = offline_builder();
            b.add_transport_factory(Arc::new(factory));
            lb.spawn(&mut b, "10.0.0.1:5060").await.unwrap();
            let endpoint = b.build();
            settle().await;

            // outbound
            let req = crate::props::c05::base_request(false);
            let mut target = TargetTransportInfo::default();
            let mut tsx = endpoint.send_request(req, &mut target).await.expect("send");
            settle().await;
            assert_eq!(probe.connects.lock().len(), 1);
            assert_eq!(endpoint.verif_counts().1, 1);
            let wire = log.parsed();
            assert_eq!(wire.len(), 1, "{}", log.render());
            let reqmsg = wire[0].1.clone().unwrap();
            let resp = response_text(&reqmsg, 200, Some("x"), &[]);
            assert!(probe.conns.lock()[0].write(&resp).await);
            settle().await;
            let r = tsx.receive().await.expect("response");
            assert_eq!(r.line.code.into_u16(), 200);

            // inbound
            let mut c = dialer.dial("192.0.2.50:33333");
            settle().await;
            assert_eq!(endpoint.verif_counts().1, 2);
            let opt = request_text("OPTIONS", "sip:x@10.0.0.1", &["SIP/2.0/TCP 192.0.2.50:33333;branch=z9hG4bKsmoke".into()],
                "<sip:a@b>;tag=1", "<sip:x@10.0.0.1>", "smoke", 1, "OPTIONS", &[], b"");
            assert!(c.write(&opt).await);
            settle().await;
            let got = String::from_utf8_lossy(&c.received.lock()).to_string();
            assert!(got.starts_with("SIP/2.0 481"), "{got}");
            // silent inbound connection is closed after 32 s
            drop(target); drop(tsx); drop(r);
            clock.advance(70_000).await;
            settle().await;
            assert!(c.is_eof());
            assert_eq!(endpoint.verif_counts().1, 0, "managed transports left");
        });
    }
}
