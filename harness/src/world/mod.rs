//! Deterministic simulation world: one current-thread tokio runtime per case, paused clock,
//! seeded `select!` order, mock transports with a timestamped wire log, scripted peer helpers.

pub mod stream;
pub mod wire;

use bytes::Bytes;
use parking_lot::Mutex;
use sip_core::transport::{
    parse_complete, CompleteItem, Direction, ReceivedMessage, TpHandle, Transport,
};
use sip_core::{Endpoint, EndpointBuilder, IncomingRequest, Layer, MayTake};
use sip_types::Code;
use std::collections::BTreeMap;
use std::fmt;
use std::future::Future;
use std::io;
use std::net::SocketAddr;
use std::sync::atomic::{AtomicU64, Ordering};
use std::sync::Arc;
use std::time::Duration;
use tokio::time::Instant;
pub use wire::WireMsg;

pub const T1: u64 = 500;
pub const T2: u64 = 4000;
pub const T4: u64 = 5000;

/// Run `f` on a fresh current-thread runtime with paused clock and the given select!-order seed.
pub fn run_world<F, Fut, R>(rng_seed: u64, f: F) -> R
where
    F: FnOnce(Clock) -> Fut,
    Fut: Future<Output = R>,
{
    let rt = tokio::runtime::Builder::new_current_thread()
        .enable_time()
        .start_paused(true)
        .rng_seed(tokio::runtime::RngSeed::from_bytes(&rng_seed.to_le_bytes()))
        .build()
        .expect("runtime");
    let r = rt.block_on(async {
        let clock = Clock {
            start: Instant::now(),
        };
        f(clock).await
    });
    // dropping the runtime drops every task still alive (their Drop impls run here)
    drop(rt);
    r
}

#[derive(Clone, Copy, Debug)]
pub struct Clock {
    pub start: Instant,
}

impl Clock {
    pub fn now_ms(&self) -> u64 {
        Instant::now().duration_since(self.start).as_millis() as u64
    }
    /// sleep until virtual time `t` ms (no-op when already past)
    pub async fn until(&self, t_ms: u64) {
        let target = self.start + Duration::from_millis(t_ms);
        if Instant::now() < target {
            tokio::time::sleep_until(target).await;
        }
    }
    pub async fn advance(&self, d_ms: u64) {
        tokio::time::sleep(Duration::from_millis(d_ms)).await;
    }
}

/// Let every other ready task run until nothing more happens, without advancing the clock.
pub async fn settle() {
    for _ in 0..40 {
        tokio::task::yield_now().await;
    }
}

// ------------------------------------------------------------------------------------------
// wire log + mock datagram transport

#[derive(Clone, Debug)]
pub struct Sent {
    pub t_ms: u64,
    pub tp: u32,
    pub dest: SocketAddr,
    pub bytes: Bytes,
}

#[derive(Clone)]
pub struct WireLog {
    pub clock: Clock,
    pub sent: Arc<Mutex<Vec<Sent>>>,
    /// send-fault plan shared by every mock datagram transport writing to this log
    pub faults: Arc<Mutex<Faults>>,
}

/// Transient transport faults: the `n`-th call of `Transport::send` (counted over all mock datagram transports
/// of the world, starting at 0) fails with an io::Error and puts nothing on the wire.
#[derive(Default, Debug)]
pub struct Faults {
    pub calls: usize,
    pub fail_calls: std::collections::BTreeSet<usize>,
    /// (virtual time, call ordinal, destination) of every failed send
    pub failed: Vec<(u64, usize, SocketAddr)>,
}

impl WireLog {
    pub fn new(clock: Clock) -> Self {
        Self {
            clock,
            sent: Default::default(),
            faults: Default::default(),
        }
    }
    /// make the given `send` calls (ordinals over the whole world, 0-based) fail
    pub fn fail_calls(&self, calls: impl IntoIterator<Item = usize>) {
        self.faults.lock().fail_calls.extend(calls);
    }
    pub fn failed_sends(&self) -> Vec<(u64, usize, SocketAddr)> {
        self.faults.lock().failed.clone()
    }
    pub fn snapshot(&self) -> Vec<Sent> {
        self.sent.lock().clone()
    }
    pub fn len(&self) -> usize {
        self.sent.lock().len()
    }
    pub fn parsed(&self) -> Vec<(Sent, Option<WireMsg>)> {
        self.snapshot()
            .into_iter()
            .map(|s| {
                let m = WireMsg::parse(&s.bytes);
                (s, m)
            })
            .collect()
    }
    /// compact human-readable rendering for evidence samples / failure messages
    pub fn render(&self) -> String {
        let mut out = String::new();
        for (s, m) in self.parsed() {
            let line = m.map(|m| m.start).unwrap_or_else(|| "<unparsable>".into());
            out.push_str(&format!("{}ms tp{}->{} {} | ", s.t_ms, s.tp, s.dest, line));
        }
        out
    }
}

static NEXT_TP: AtomicU64 = AtomicU64::new(1);

pub struct MockDatagram {
    pub id: u32,
    pub name: &'static str,
    pub secure: bool,
    pub reliable: bool,
    pub bound: SocketAddr,
    pub log: WireLog,
    /// when set, `send` fails with this error kind
    pub fail_send: Arc<Mutex<bool>>,
    /// `send` takes this long (virtual ms): other tasks run while a message is "being written"
    pub send_delay_ms: u64,
}

impl fmt::Debug for MockDatagram {
    fn fmt(&self, f: &mut fmt::Formatter<'_>) -> fmt::Result {
        write!(f, "MockDatagram#{}({} {})", self.id, self.name, self.bound)
    }
}
impl fmt::Display for MockDatagram {
    fn fmt(&self, f: &mut fmt::Formatter<'_>) -> fmt::Result {
        write!(f, "mock:{}:{}", self.name, self.bound)
    }
}

#[async_trait::async_trait]
impl Transport for MockDatagram {
    fn name(&self) -> &'static str {
        self.name
    }
    fn secure(&self) -> bool {
        self.secure
    }
    fn reliable(&self) -> bool {
        self.reliable
    }
    fn bound(&self) -> SocketAddr {
        self.bound
    }
    fn sent_by(&self) -> SocketAddr {
        self.bound
    }
    fn direction(&self) -> Direction {
        Direction::None
    }
    async fn send(&self, message: &[u8], target: SocketAddr) -> io::Result<()> {
        if *self.fail_send.lock() {
            return Err(io::Error::new(io::ErrorKind::Other, "mock send failure"));
        }
        {
            let mut f = self.log.faults.lock();
            let n = f.calls;
            f.calls += 1;
            if f.fail_calls.contains(&n) {
                let t = self.log.clock.now_ms();
                f.failed.push((t, n, target));
                return Err(io::Error::new(io::ErrorKind::ConnectionRefused, "mock transient send failure"));
            }
        }
        self.log.sent.lock().push(Sent {
            t_ms: self.log.clock.now_ms(),
            tp: self.id,
            dest: target,
            bytes: Bytes::copy_from_slice(message),
        });
        if self.send_delay_ms > 0 {
            tokio::time::sleep(Duration::from_millis(self.send_delay_ms)).await;
        }
        Ok(())
    }
}

/// like `mock_datagram`, but every `send` suspends for `delay_ms` of virtual time after the bytes went out
pub fn mock_datagram_slow(
    log: &WireLog,
    name: &'static str,
    secure: bool,
    reliable: bool,
    bound: &str,
    delay_ms: u64,
) -> (TpHandle, u32) {
    let id = (NEXT_TP.fetch_add(1, Ordering::Relaxed) % 0xfffe) as u32 + 1;
    let tp = MockDatagram {
        id,
        name,
        secure,
        reliable,
        bound: bound.parse().expect("bound addr"),
        log: log.clone(),
        fail_send: Default::default(),
        send_delay_ms: delay_ms,
    };
    (TpHandle::new(tp), id)
}

pub fn mock_datagram(
    log: &WireLog,
    name: &'static str,
    secure: bool,
    reliable: bool,
    bound: &str,
) -> (TpHandle, u32) {
    // datagram ids stay below 0x10000 (connection ids start there)
    let id = (NEXT_TP.fetch_add(1, Ordering::Relaxed) % 0xfffe) as u32 + 1;
    let tp = MockDatagram {
        id,
        name,
        secure,
        reliable,
        bound: bound.parse().expect("bound addr"),
        log: log.clone(),
        fail_send: Default::default(),
        send_delay_ms: 0,
    };
    (TpHandle::new(tp), id)
}

/// Endpoint builder with a resolver that never touches the network.
pub fn offline_builder() -> EndpointBuilder {
    let mut b = Endpoint::builder();
    b.set_dns_resolver(trust_dns_resolver::TokioAsyncResolver::tokio(
        trust_dns_resolver::config::ResolverConfig::new(),
        Default::default(),
    ));
    b
}

/// What happened to an injected datagram at the transport glue
#[derive(Debug, PartialEq, Eq, Clone, Copy)]
pub enum Injected {
    Sip,
    Stun,
    KeepAlive,
    Rejected,
}

/// Deliver `bytes` as one datagram exactly the way `udp.rs::handle_msg` does.
/// A panic inside `parse_complete` propagates (that is what kills the real UDP task).
pub fn inject(endpoint: &Endpoint, tp: &TpHandle, source: SocketAddr, bytes: &[u8]) -> Injected {
    match parse_complete(endpoint.parser(), bytes) {
        Ok(CompleteItem::KeepAliveRequest) | Ok(CompleteItem::KeepAliveResponse) => {
            Injected::KeepAlive
        }
        Ok(CompleteItem::Stun(message)) => {
            endpoint.receive_stun(message, source, tp.clone());
            Injected::Stun
        }
        Ok(CompleteItem::Sip {
            line,
            headers,
            body,
            buffer,
        }) => {
            endpoint.receive(ReceivedMessage::new(
                source,
                buffer,
                tp.clone(),
                line,
                headers,
                body,
            ));
            Injected::Sip
        }
        Err(_) => Injected::Rejected,
    }
}

// ------------------------------------------------------------------------------------------
// recording / policy layer

#[derive(Clone, Copy, Debug, PartialEq, Eq, Hash, serde::Serialize, serde::Deserialize)]
pub enum Policy {
    /// does not look at the request
    Ignore,
    /// looks (derefs) but does not take
    Inspect,
    /// takes the request and answers with `code` after `delay_ms`
    Answer { code: u16, delay_ms: u64 },
    /// takes the request and drops it without answering
    TakeDrop,
}

#[derive(Clone, Debug)]
pub struct Seen {
    pub seq: u64,
    pub t_ms: u64,
    pub layer: usize,
    pub method: String,
    pub branch: String,
    pub cseq: u32,
    pub call_id: String,
    pub marker: Option<String>,
}

#[derive(Clone)]
pub struct Recorder {
    pub clock: Clock,
    pub seen: Arc<Mutex<Vec<Seen>>>,
    pub seq: Arc<AtomicU64>,
}

impl Recorder {
    pub fn new(clock: Clock) -> Self {
        Self {
            clock,
            seen: Default::default(),
            seq: Arc::new(AtomicU64::new(0)),
        }
    }
    pub fn note(&self, layer: usize, req: &IncomingRequest) {
        let marker: Option<String> = req
            .headers
            .iter()
            .find(|(n, _)| n.as_print_str().eq_ignore_ascii_case("x-seq"))
            .map(|(_, v)| v.to_string());
        self.seen.lock().push(Seen {
            seq: self.seq.fetch_add(1, Ordering::Relaxed),
            t_ms: self.clock.now_ms(),
            layer,
            method: req.line.method.to_string(),
            branch: req.tsx_key.branch().to_string(),
            cseq: req.base_headers.cseq.cseq,
            call_id: req.base_headers.call_id.0.to_string(),
            marker,
        });
    }
    pub fn snapshot(&self) -> Vec<Seen> {
        self.seen.lock().clone()
    }
}

/// A layer whose behaviour per method is given by a policy table.
pub struct PolicyLayer {
    pub index: usize,
    pub rec: Recorder,
    /// method name -> policy; "*" = default
    pub table: BTreeMap<String, Policy>,
    /// behave like a UAS: responses above 100 to a request without To-tag get one (`uas<index>`)
    pub tag_responses: bool,
}

impl PolicyLayer {
    pub fn policy_for(&self, method: &str) -> Policy {
        self.table
            .get(method)
            .or_else(|| self.table.get("*"))
            .copied()
            .unwrap_or(Policy::Ignore)
    }
}

#[async_trait::async_trait]
impl Layer for PolicyLayer {
    fn name(&self) -> &'static str {
        "policy"
    }

    async fn receive(&self, endpoint: &Endpoint, request: MayTake<'_, IncomingRequest>) {
        let method = request.line.method.to_string();
        match self.policy_for(&method) {
            Policy::Ignore => {}
            Policy::Inspect => {
                self.rec.note(self.index, &request);
            }
            Policy::TakeDrop => {
                self.rec.note(self.index, &request);
                let req = request.take();
                drop(req);
            }
            Policy::Answer { code, delay_ms } => {
                self.rec.note(self.index, &request);
                let mut req = request.take();
                if method == "ACK" {
                    return;
                }
                let endpoint = endpoint.clone();
                let (tag, index) = (self.tag_responses, self.index);
                let fut = async move {
                    if delay_ms > 0 {
                        tokio::time::sleep(Duration::from_millis(delay_ms)).await;
                    }
                    let mut response = endpoint.create_response(&req, Code::from(code), None);
                    if tag && code > 100 && req.base_headers.to.tag.is_none() {
                        let _ = response.msg.headers.edit(sip_types::Name::TO, |to: &mut sip_types::header::typed::FromTo| {
                            to.tag = Some(format!("uas{index}").into());
                        });
                    }
                    if method == "INVITE" {
                        let tsx = endpoint.create_server_inv_tsx(&mut req);
                        if (200..300).contains(&code) {
                            let _ = tsx.respond_success(response).await;
                        } else {
                            let _ = tsx.respond_failure(response).await;
                        }
                    } else {
                        let tsx = endpoint.create_server_tsx(&mut req);
                        let _ = tsx.respond(response).await;
                    }
                };
                if delay_ms == 0 {
                    fut.await;
                } else {
                    tokio::spawn(fut);
                }
            }
        }
    }
}

// ------------------------------------------------------------------------------------------
// message templates (peer side)

/// Minimal request text. `extra` are complete header lines without CRLF.
pub fn request_text(
    method: &str,
    uri: &str,
    via: &[String],
    from: &str,
    to: &str,
    call_id: &str,
    cseq: u32,
    cseq_method: &str,
    extra: &[String],
    body: &[u8],
) -> Vec<u8> {
    let mut s = format!("{method} {uri} SIP/2.0\r\n");
    for v in via {
        s.push_str(&format!("Via: {v}\r\n"));
    }
    s.push_str(&format!("From: {from}\r\n"));
    s.push_str(&format!("To: {to}\r\n"));
    s.push_str(&format!("Call-ID: {call_id}\r\n"));
    s.push_str(&format!("CSeq: {cseq} {cseq_method}\r\n"));
    s.push_str("Max-Forwards: 70\r\n");
    for e in extra {
        s.push_str(e);
        s.push_str("\r\n");
    }
    s.push_str(&format!("Content-Length: {}\r\n\r\n", body.len()));
    let mut b = s.into_bytes();
    b.extend_from_slice(body);
    b
}

/// Response text mirroring a request that ezk sent (`req` from the wire log).
pub fn response_text(
    req: &WireMsg,
    code: u16,
    to_tag: Option<&str>,
    extra: &[String],
) -> Vec<u8> {
    let mut s = format!("SIP/2.0 {code} X\r\n");
    for v in req.headers_named("via") {
        s.push_str(&format!("Via: {v}\r\n"));
    }
    s.push_str(&format!("From: {}\r\n", req.header("from").unwrap_or("")));
    let to = req.header("to").unwrap_or("");
    match to_tag {
        Some(t) if wire::param_of(to, "tag").is_none() => {
            s.push_str(&format!("To: {to};tag={t}\r\n"))
        }
        _ => s.push_str(&format!("To: {to}\r\n")),
    }
    s.push_str(&format!("Call-ID: {}\r\n", req.header("call-id").unwrap_or("")));
    s.push_str(&format!("CSeq: {}\r\n", req.header("cseq").unwrap_or("")));
    for e in extra {
        s.push_str(e);
        s.push_str("\r\n");
    }
    s.push_str("Content-Length: 0\r\n\r\n");
    s.into_bytes()
}
