//! ezk verification harness: `ezk-verif check <ID> [--tier quick|thorough] [--replay FILE] [--sub NAME]`

pub mod engine;
pub mod gen;
pub mod props;
pub mod refmodel;
pub mod world;

use engine::Tier;

fn main() {
    let args: Vec<String> = std::env::args().collect();
    if args.len() < 3 || args[1] != "check" {
        eprintln!("usage: ezk-verif check <ID> [--tier quick|thorough] [--replay FILE] [--sub NAME]");
        std::process::exit(2);
    }
    let id = args[2].to_uppercase();
    let mut tier = match std::env::var("VERIF_TIER").ok().as_deref() {
        Some("thorough") => Tier::Thorough,
        _ => Tier::Quick,
    };
    let mut replay = None;
    let mut sub = None;
    let mut i = 3;
    while i < args.len() {
        match args[i].as_str() {
            "--tier" => {
                i += 1;
                tier = match args.get(i).map(|s| s.as_str()) {
                    Some("thorough") => Tier::Thorough,
                    _ => Tier::Quick,
                };
            }
            "--replay" => {
                i += 1;
                replay = args.get(i).cloned();
            }
            "--sub" => {
                i += 1;
                sub = args.get(i).cloned();
            }
            other => {
                eprintln!("unknown argument {other}");
                std::process::exit(2);
            }
        }
        i += 1;
    }
    let seed: u64 = std::env::var("VERIF_SEED")
        .ok()
        .and_then(|s| s.trim().parse::<i64>().ok())
        .map(|v| v as u64)
        .unwrap_or(1);

    engine::panic_hook::install(std::env::var("VERIF_VERBOSE").is_ok());
    rayon::ThreadPoolBuilder::new()
        .num_threads(if std::env::var("VERIF_JOURNAL").is_ok() { 1 } else { engine::SHARDS })
        .stack_size(16 << 20)
        .build_global()
        .ok();

    let Some(prop) = props::lookup(&id) else {
        eprintln!("unknown property {id}");
        std::process::exit(2);
    };
    let code = match replay {
        Some(path) => engine::replay_property(&prop, &path),
        None => engine::run_property(&prop, tier, seed, sub.as_deref()),
    };
    std::process::exit(code);
}
