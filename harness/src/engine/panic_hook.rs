//! Process-wide panic hook that records panics per thread (all async cases run on a
//! current-thread runtime, so panics in spawned tasks land on the case's own thread).

use std::cell::RefCell;
use std::sync::atomic::{AtomicBool, Ordering};

#[derive(Clone, Debug)]
pub struct PanicRecord {
    pub message: String,
    /// `file:line` with the /repo/ prefix stripped
    pub location: String,
}

thread_local! {
    static PANICS: RefCell<Vec<PanicRecord>> = const { RefCell::new(Vec::new()) };
}

static VERBOSE: AtomicBool = AtomicBool::new(false);

pub fn install(verbose: bool) {
    VERBOSE.store(verbose, Ordering::Relaxed);
    std::panic::set_hook(Box::new(|info| {
        let message = if let Some(s) = info.payload().downcast_ref::<&str>() {
            (*s).to_string()
        } else if let Some(s) = info.payload().downcast_ref::<String>() {
            s.clone()
        } else {
            "<non-string panic payload>".to_string()
        };
        let location = info
            .location()
            .map(|l| {
                let f = l.file();
                let f = f.strip_prefix("/repo/").unwrap_or(f);
                // std sources: /rustc/<toolchain hash>/library/... -> library/...
                let f = match f.strip_prefix("/rustc/") {
                    Some(rest) => rest.splitn(2, '/').nth(1).unwrap_or(rest),
                    None => f,
                };
                let f = match f.find("/registry/src/") {
                    Some(i) => f[i + 14..].splitn(2, '/').nth(1).unwrap_or(f),
                    None => f,
                };
                format!("{}:{}", f, l.line())
            })
            .unwrap_or_else(|| "unknown".into());
        if VERBOSE.load(Ordering::Relaxed) {
            eprintln!("panic recorded: {message} at {location}");
        }
        let mut message = message;
        if message.len() > 300 {
            let mut end = 300;
            while !message.is_char_boundary(end) {
                end -= 1;
            }
            message.truncate(end);
        }
        PANICS.with(|p| p.borrow_mut().push(PanicRecord { message, location }));
    }));
}

pub fn clear() {
    PANICS.with(|p| p.borrow_mut().clear());
}

pub fn take() -> Vec<PanicRecord> {
    PANICS.with(|p| std::mem::take(&mut *p.borrow_mut()))
}

pub fn count() -> usize {
    PANICS.with(|p| p.borrow().len())
}
