//! Generic machinery: sharded proptest runs, enumerations, evidence, known findings, replay.

pub mod panic_hook;

use proptest::strategy::{BoxedStrategy, Strategy, ValueTree};
use proptest::test_runner::{Config, RngSeed, TestCaseError, TestError, TestRunner};
use rayon::prelude::*;
use serde::de::DeserializeOwned;
use serde::Serialize;
use serde_json::{json, Value};
use std::cell::RefCell;
use std::collections::hash_map::DefaultHasher;
use std::collections::{BTreeMap, HashSet};
use std::fmt::Debug;
use std::hash::{Hash, Hasher};
use std::panic::{catch_unwind, AssertUnwindSafe};
use std::sync::atomic::{AtomicBool, AtomicU64, Ordering};
use std::sync::Mutex;
use std::time::Instant;

pub const SHARDS: usize = 16;

#[derive(Clone, Copy, Debug, PartialEq, Eq)]
pub enum Tier {
    Quick,
    Thorough,
}

impl Tier {
    pub fn pick<T>(self, quick: T, thorough: T) -> T {
        match self {
            Tier::Quick => quick,
            Tier::Thorough => thorough,
        }
    }
    pub fn as_str(self) -> &'static str {
        match self {
            Tier::Quick => "quick",
            Tier::Thorough => "thorough",
        }
    }
}

#[derive(Clone, Debug, Serialize)]
pub struct Failure {
    /// `<sub-oracle>/<locus>` — stable key used by known_findings
    pub sig: String,
    pub msg: String,
}

/// What one executed case reports back.
#[derive(Default, Debug)]
pub struct CaseOut {
    pub failures: Vec<Failure>,
    pub classes: Vec<&'static str>,
    pub nontrivial: Option<u64>,
    /// optional extra sample payload (e.g. observed wire log) for evidence
    pub note: Option<String>,
}

impl CaseOut {
    pub fn fail(&mut self, sig: impl Into<String>, msg: impl Into<String>) {
        let sig = sig.into();
        if self.failures.iter().any(|f| f.sig == sig) {
            return;
        }
        self.failures.push(Failure {
            sig,
            msg: msg.into(),
        });
    }
    pub fn class(&mut self, c: &'static str) {
        if !self.classes.contains(&c) {
            self.classes.push(c);
        }
    }
    /// mark the case non-trivial; `key` identifies it for distinct counting
    pub fn nontrivial<K: Hash>(&mut self, key: &K) {
        self.nontrivial = Some(hash_of(key));
    }
    pub fn ok(&self) -> bool {
        self.failures.is_empty()
    }
}

pub fn hash_of<K: Hash + ?Sized>(k: &K) -> u64 {
    let mut h = DefaultHasher::new();
    k.hash(&mut h);
    h.finish()
}

pub fn mix(parts: &[u64]) -> u64 {
    hash_of(parts)
}

/// `i*(len)>>16`-style monotone index mapping for u16 selectors (shrinks toward 0)
pub fn pick_idx(sel: u16, len: usize) -> usize {
    if len == 0 {
        return 0;
    }
    ((sel as usize) * len) >> 16
}

pub enum Gen<V> {
    /// random generation via proptest: (strategy, cases per shard quick, cases per shard thorough)
    Prop(fn() -> BoxedStrategy<V>, u32, u32),
    /// complete enumeration of a finite sub-domain
    Enum(Box<dyn Fn(Tier) -> Vec<V> + Send + Sync>),
}

pub struct Sub<V> {
    pub name: &'static str,
    pub gen: Gen<V>,
    pub check: fn(&V, &mut CaseOut),
}

pub struct RunCtx {
    pub prop: &'static str,
    pub tier: Tier,
    pub seed: u64,
    pub known: Vec<KnownFinding>,
}

#[derive(Clone, Debug)]
pub struct KnownFinding {
    pub prop: String,
    pub sig: String,
    pub what: String,
}

#[derive(Default)]
pub struct SubReport {
    pub name: String,
    pub evaluations: u64,
    pub distinct: HashSet<u64>,
    pub classes: BTreeMap<String, u64>,
    pub samples: Vec<Value>,
    pub known_hits: BTreeMap<String, (u64, String)>,
    pub violation: Option<Violation>,
    pub exhaustive: bool,
}

#[derive(Debug, Clone)]
pub struct Violation {
    pub sub: String,
    pub case: Value,
    pub failures: Vec<Failure>,
}

pub trait SubRunner: Send + Sync {
    fn name(&self) -> &'static str;
    fn run(&self, ctx: &RunCtx) -> SubReport;
    fn replay(&self, case: Value) -> Result<CaseOut, String>;
}

/// crash isolation: with VERIF_JOURNAL=<file> every case is written to that file before it runs (and the run is
/// sequential), so that a case which kills the whole process (abort, stack overflow, heap corruption) can be named
fn journal<V: Serialize>(prop: &str, sub: &str, v: &V) {
    static PATH: std::sync::OnceLock<Option<String>> = std::sync::OnceLock::new();
    let path = PATH.get_or_init(|| std::env::var("VERIF_JOURNAL").ok());
    if let Some(p) = path {
        let body = json!({"property": prop, "sub": sub, "case": serde_json::to_value(v).unwrap_or(Value::Null)});
        let _ = std::fs::write(p, body.to_string());
    }
}

/// run `check` with panic capture; every panic on this thread (including inside tasks of a
/// current-thread runtime driven by the check) becomes a failure
pub fn guarded<V>(check: fn(&V, &mut CaseOut), v: &V) -> CaseOut {
    panic_hook::clear();
    let mut out = CaseOut::default();
    let r = catch_unwind(AssertUnwindSafe(|| check(v, &mut out)));
    let panics = panic_hook::take();
    for p in &panics {
        out.fail(format!("panic/{}", p.location), format!("panic: {} at {}", p.message, p.location));
    }
    if r.is_err() && panics.is_empty() {
        out.fail("panic/unknown", "panic without hook record");
    }
    out
}

#[derive(Default)]
struct ShardStats {
    evaluations: u64,
    distinct: HashSet<u64>,
    classes: BTreeMap<String, u64>,
    samples: Vec<Value>,
    biggest: Option<(usize, Value)>,
    known_hits: BTreeMap<String, (u64, String)>,
}

impl ShardStats {
    fn record<V: Serialize>(&mut self, v: &V, out: &CaseOut, known: &[KnownFinding]) {
        self.evaluations += 1;
        for c in &out.classes {
            *self.classes.entry((*c).to_string()).or_default() += 1;
        }
        if let Some(k) = out.nontrivial {
            let new = self.distinct.insert(k);
            if new && self.samples.len() < 2 {
                let mut s = serde_json::to_value(v).unwrap_or(Value::Null);
                if let Some(n) = &out.note {
                    s = json!({"case": s, "observed": n});
                }
                self.samples.push(s);
            }
            if new {
                let sv = serde_json::to_value(v).unwrap_or(Value::Null);
                let size = sv.to_string().len();
                if size < 6000 && self.biggest.as_ref().map_or(true, |(b, _)| size > *b) {
                    self.biggest = Some((size, sv));
                }
            }
        }
        for f in &out.failures {
            if is_known(known, &f.sig) {
                let e = self
                    .known_hits
                    .entry(f.sig.clone())
                    .or_insert((0, f.msg.clone()));
                e.0 += 1;
            }
        }
    }
}

pub fn is_known(known: &[KnownFinding], sig: &str) -> bool {
    known.iter().any(|k| k.sig == sig)
}

fn unknown_failures(known: &[KnownFinding], out: &CaseOut) -> Vec<Failure> {
    out.failures
        .iter()
        .filter(|f| !is_known(known, &f.sig))
        .cloned()
        .collect()
}

// --- watchdog ------------------------------------------------------------------------------

type Describe = Box<dyn Fn() -> String + Send>;
static WATCH_SLOTS: Mutex<Vec<(u64, Option<Describe>)>> = Mutex::new(Vec::new());
static WATCH_ON: AtomicBool = AtomicBool::new(false);
static WATCH_LIMIT_S: AtomicU64 = AtomicU64::new(120);
static START: Mutex<Option<Instant>> = Mutex::new(None);

fn now_ms() -> u64 {
    let mut g = START.lock().unwrap();
    let s = g.get_or_insert_with(Instant::now);
    s.elapsed().as_millis() as u64 + 1
}

thread_local! { static SLOT: RefCell<Option<usize>> = const { RefCell::new(None) }; }

fn watch_begin(desc: Describe) {
    if !WATCH_ON.load(Ordering::Relaxed) {
        return;
    }
    let idx = SLOT.with(|s| {
        let mut s = s.borrow_mut();
        if let Some(i) = *s {
            i
        } else {
            let mut g = WATCH_SLOTS.lock().unwrap();
            g.push((0, None));
            let i = g.len() - 1;
            *s = Some(i);
            i
        }
    });
    let mut g = WATCH_SLOTS.lock().unwrap();
    g[idx] = (now_ms(), Some(desc));
}

fn watch_end() {
    if !WATCH_ON.load(Ordering::Relaxed) {
        return;
    }
    SLOT.with(|s| {
        if let Some(i) = *s.borrow() {
            WATCH_SLOTS.lock().unwrap()[i].0 = 0;
        }
    });
}

/// start the wall-clock watchdog: a case running longer than `limit_s` makes the whole run
/// inconclusive (exit 2) — never a violation
pub fn start_watchdog(prop: &'static str, limit_s: u64) {
    WATCH_LIMIT_S.store(limit_s, Ordering::Relaxed);
    WATCH_ON.store(true, Ordering::Relaxed);
    std::thread::spawn(move || loop {
        std::thread::sleep(std::time::Duration::from_millis(500));
        let now = now_ms();
        let g = WATCH_SLOTS.lock().unwrap();
        for (t0, desc) in g.iter() {
            if *t0 != 0 && now.saturating_sub(*t0) > WATCH_LIMIT_S.load(Ordering::Relaxed) * 1000 {
                let path = format!("/verif/replays/{}-watchdog.json", prop);
                let _ = std::fs::write(&path, desc.as_ref().map(|d| d()).unwrap_or_default());
                println!(
                    "INCONCLUSIVE property={} a single case exceeded the {} s wall-clock watchdog; case written to {}",
                    prop,
                    WATCH_LIMIT_S.load(Ordering::Relaxed),
                    path
                );
                std::process::exit(2);
            }
        }
    });
}

// --- sub runner ------------------------------------------------------------------------------

impl<V> SubRunner for Sub<V>
where
    V: Serialize + DeserializeOwned + Debug + Clone + Send + Sync + 'static,
{
    fn name(&self) -> &'static str {
        self.name
    }

    fn replay(&self, case: Value) -> Result<CaseOut, String> {
        let v: V = serde_json::from_value(case).map_err(|e| format!("cannot decode case: {e}"))?;
        Ok(guarded(self.check, &v))
    }

    fn run(&self, ctx: &RunCtx) -> SubReport {
        match &self.gen {
            Gen::Prop(strategy, q, t) => self.run_prop(ctx, *strategy, ctx.tier.pick(*q, *t)),
            Gen::Enum(f) => self.run_enum(ctx, f(ctx.tier)),
        }
    }
}

impl<V> Sub<V>
where
    V: Serialize + DeserializeOwned + Debug + Clone + Send + Sync + 'static,
{
    fn run_enum(&self, ctx: &RunCtx, cases: Vec<V>) -> SubReport {
        let check = self.check;
        let chunk = (cases.len() / (SHARDS * 4)).max(1);
        let results: Vec<(ShardStats, Option<(usize, Violation)>)> = cases
            .par_chunks(chunk)
            .enumerate()
            .map(|(ci, chunk_cases)| {
                let mut stats = ShardStats::default();
                let mut viol = None;
                for (i, v) in chunk_cases.iter().enumerate() {
                    let vc = v.clone();
                    watch_begin(Box::new(move || serde_json::to_string(&vc).unwrap_or_default()));
                    journal(ctx.prop, self.name, v);
                    let out = guarded(check, v);
                    watch_end();
                    stats.record(v, &out, &ctx.known);
                    let unk = unknown_failures(&ctx.known, &out);
                    if !unk.is_empty() {
                        viol = Some((
                            ci * chunk + i,
                            Violation {
                                sub: self.name.to_string(),
                                case: serde_json::to_value(v).unwrap_or(Value::Null),
                                failures: unk,
                            },
                        ));
                        break;
                    }
                }
                (stats, viol)
            })
            .collect();
        let mut rep = merge(self.name, results.iter().map(|r| &r.0));
        rep.exhaustive = true;
        rep.violation = results
            .into_iter()
            .filter_map(|r| r.1)
            .min_by_key(|(i, _)| *i)
            .map(|(_, v)| v);
        if rep.violation.is_some() {
            rep.exhaustive = false;
        }
        rep
    }

    fn run_prop(&self, ctx: &RunCtx, strategy_fn: fn() -> BoxedStrategy<V>, cases: u32) -> SubReport {
        let check = self.check;
        let results: Vec<(ShardStats, Option<Violation>)> = (0..SHARDS)
            .into_par_iter()
            .map(|shard| {
                let seed = mix(&[ctx.seed, hash_of(ctx.prop), hash_of(self.name), shard as u64]);
                let config = Config {
                    cases,
                    rng_seed: RngSeed::Fixed(seed),
                    failure_persistence: None,
                    max_shrink_iters: 4000,
                    max_global_rejects: 100_000,
                    ..Config::default()
                };
                let mut runner = TestRunner::new(config);
                let strategy = strategy_fn();
                let stats = RefCell::new(ShardStats::default());
                let failed = std::cell::Cell::new(false);
                let known = &ctx.known;
                let res = runner.run(&strategy, |v| {
                    let vc = v.clone();
                    watch_begin(Box::new(move || serde_json::to_string(&vc).unwrap_or_default()));
                    journal(ctx.prop, self.name, &v);
                    let out = guarded(check, &v);
                    watch_end();
                    if !failed.get() {
                        stats.borrow_mut().record(&v, &out, known);
                    }
                    let unk = unknown_failures(known, &out);
                    if unk.is_empty() {
                        Ok(())
                    } else {
                        failed.set(true);
                        Err(TestCaseError::fail(unk[0].sig.clone()))
                    }
                });
                let viol = match res {
                    Ok(()) => None,
                    Err(TestError::Fail(_, v)) => {
                        let out = guarded(check, &v);
                        let mut unk = unknown_failures(known, &out);
                        if unk.is_empty() {
                            unk.push(Failure {
                                sig: "engine/unstable".into(),
                                msg: "shrunk case no longer fails when re-run (non-deterministic oracle?)".into(),
                            });
                        }
                        Some(Violation {
                            sub: self.name.to_string(),
                            case: serde_json::to_value(&v).unwrap_or(Value::Null),
                            failures: unk,
                        })
                    }
                    Err(TestError::Abort(r)) => Some(Violation {
                        sub: self.name.to_string(),
                        case: Value::Null,
                        failures: vec![Failure {
                            sig: "engine/abort".into(),
                            msg: format!("proptest aborted: {r}"),
                        }],
                    }),
                };
                (stats.into_inner(), viol)
            })
            .collect();
        let mut rep = merge(self.name, results.iter().map(|r| &r.0));
        rep.violation = results.into_iter().find_map(|r| r.1);
        rep
    }
}

fn merge<'a>(name: &str, it: impl Iterator<Item = &'a ShardStats>) -> SubReport {
    let mut rep = SubReport {
        name: name.to_string(),
        ..Default::default()
    };
    let mut biggest: Option<(usize, Value)> = None;
    for s in it {
        rep.evaluations += s.evaluations;
        rep.distinct.extend(s.distinct.iter().copied());
        for (k, v) in &s.classes {
            *rep.classes.entry(k.clone()).or_default() += v;
        }
        if rep.samples.len() < 3 {
            rep.samples.extend(s.samples.iter().take(1).cloned());
        }
        if let Some((sz, v)) = &s.biggest {
            if biggest.as_ref().map_or(true, |(b, _)| sz > b) {
                biggest = Some((*sz, v.clone()));
            }
        }
        for (k, (n, m)) in &s.known_hits {
            let e = rep.known_hits.entry(k.clone()).or_insert((0, m.clone()));
            e.0 += n;
        }
    }
    if let Some((_, v)) = biggest {
        rep.samples.push(v);
    }
    rep
}

/// draw one value from a strategy deterministically (used to build corpora)
pub fn sample_strategy<V: Debug>(s: &BoxedStrategy<V>, seed: u64, n: usize) -> Vec<V> {
    let mut runner = TestRunner::new(Config {
        rng_seed: RngSeed::Fixed(seed),
        failure_persistence: None,
        ..Config::default()
    });
    (0..n)
        .filter_map(|_| s.new_tree(&mut runner).ok().map(|t| t.current()))
        .collect()
}

// --- known findings file ---------------------------------------------------------------------

pub const KNOWN_FINDINGS: &str = "/verif/known_findings.txt";

/// Lines: `open: property=<ID> sig=<signature> <what fails>` and
/// `fixed: property=<ID> <commit> <what failed>` (fixed entries suppress nothing)
pub fn load_known(prop: &str) -> Vec<KnownFinding> {
    let Ok(text) = std::fs::read_to_string(KNOWN_FINDINGS) else {
        return vec![];
    };
    let mut out = vec![];
    for line in text.lines() {
        let line = line.trim();
        let Some(rest) = line.strip_prefix("open:") else {
            continue;
        };
        let mut it = rest.trim().splitn(3, ' ');
        let p = it.next().unwrap_or("");
        let s = it.next().unwrap_or("");
        let what = it.next().unwrap_or("").to_string();
        let (Some(p), Some(s)) = (p.strip_prefix("property="), s.strip_prefix("sig=")) else {
            continue;
        };
        if p == prop {
            out.push(KnownFinding {
                prop: p.to_string(),
                sig: s.to_string(),
                what,
            });
        }
    }
    out
}

// --- property driver ---------------------------------------------------------------------------

/// a coverage-guided libFuzzer stage (thorough tier only)
pub struct FuzzStage {
    pub target: &'static str,
    pub runs: u64,
    pub max_len: u32,
    /// writes the seed corpus (generator-made valid inputs) into the directory
    pub seed_corpus: fn(&std::path::Path),
}

pub struct Property {
    pub fuzz: Vec<FuzzStage>,
    pub id: &'static str,
    pub rule: &'static str,
    pub assumptions: Vec<&'static str>,
    pub explanation: &'static str,
    pub subs: Vec<Box<dyn SubRunner>>,
}

pub fn sanitize(s: &str) -> String {
    s.chars()
        .map(|c| if c.is_ascii_alphanumeric() || c == '-' || c == '.' { c } else { '_' })
        .take(80)
        .collect()
}

/// Runs a property; returns process exit code.
pub fn run_property(prop: &Property, tier: Tier, seed: u64, only_sub: Option<&str>) -> i32 {
    let t0 = Instant::now();
    let ctx = RunCtx {
        prop: prop.id,
        tier,
        seed,
        known: load_known(prop.id),
    };
    start_watchdog(prop.id, tier.pick(300, 1200));

    let mut violations: Vec<Violation> = vec![];
    let mut known_hits: BTreeMap<String, (u64, String)> = BTreeMap::new();

    // 1. regression tier: saved inputs
    let mut regress_n = 0u64;
    if let Ok(rd) = std::fs::read_dir("/verif/regress") {
        let mut files: Vec<_> = rd.filter_map(|e| e.ok()).map(|e| e.path()).collect();
        files.sort();
        for f in files {
            let name = f.file_name().unwrap().to_string_lossy().to_string();
            if !name.starts_with(&format!("{}-", prop.id)) || !name.ends_with(".json") {
                continue;
            }
            let Ok(text) = std::fs::read_to_string(&f) else { continue };
            let Ok(v) = serde_json::from_str::<Value>(&text) else { continue };
            let sub = v["sub"].as_str().unwrap_or("");
            let Some(runner) = prop.subs.iter().find(|s| s.name() == sub) else { continue };
            regress_n += 1;
            match runner.replay(v["case"].clone()) {
                Ok(out) => {
                    for f in &out.failures {
                        if is_known(&ctx.known, &f.sig) {
                            known_hits.entry(f.sig.clone()).or_insert((0, f.msg.clone())).0 += 1;
                        }
                    }
                    let unk = unknown_failures(&ctx.known, &out);
                    if !unk.is_empty() {
                        violations.push(Violation {
                            sub: sub.to_string(),
                            case: v["case"].clone(),
                            failures: unk,
                        });
                    }
                }
                Err(e) => eprintln!("warning: regress file {name}: {e}"),
            }
        }
    }

    // 2. the sub checks
    let mut reports = vec![];
    for sub in &prop.subs {
        if let Some(o) = only_sub {
            if sub.name() != o {
                continue;
            }
        }
        let st = Instant::now();
        let rep = sub.run(&ctx);
        eprintln!(
            "[{}] sub {:<28} evaluations={:<8} distinct_nontrivial={:<7} {:.1}s{}",
            prop.id,
            rep.name,
            rep.evaluations,
            rep.distinct.len(),
            st.elapsed().as_secs_f64(),
            if rep.violation.is_some() { "  VIOLATION" } else { "" }
        );
        if let Some(v) = &rep.violation {
            violations.push(v.clone());
        }
        for (k, (n, m)) in &rep.known_hits {
            known_hits.entry(k.clone()).or_insert((0, m.clone())).0 += n;
        }
        reports.push(rep);
    }

    // 2b. coverage-guided stages (thorough only): libFuzzer targets with the oracle inside the target
    let mut fuzz_reports: Vec<Value> = vec![];
    if tier == Tier::Thorough && only_sub.is_none() {
        for st in &prop.fuzz {
            let (rep, viol) = run_fuzz_stage(prop.id, st, seed);
            if let Some(v) = viol {
                violations.push(v);
            }
            fuzz_reports.push(rep);
        }
    }

    // 3. evidence
    let evaluations: u64 = reports.iter().map(|r| r.evaluations).sum::<u64>() + regress_n;
    let mut distinct: HashSet<u64> = HashSet::new();
    for r in &reports {
        let h = hash_of(&r.name);
        distinct.extend(r.distinct.iter().map(|d| d ^ h));
    }
    let mut samples = vec![];
    for r in &reports {
        for s in r.samples.iter().take(3) {
            samples.push(json!({"sub": r.name, "case": s}));
        }
    }
    let per_sub: Vec<Value> = reports
        .iter()
        .map(|r| {
            json!({
                "sub": r.name,
                "evaluations": r.evaluations,
                "distinct_nontrivial": r.distinct.len(),
                "exhaustive": r.exhaustive,
                "classes": r.classes,
            })
        })
        .collect();
    let all_exhaustive = !reports.is_empty() && reports.iter().all(|r| r.exhaustive);
    let evidence = json!({
        "property_id": prop.id,
        "tier": tier.as_str(),
        "seed": seed,
        "level": "exploration",
        "coverage": {
            "evaluations": evaluations,
            "distinct_nontrivial": distinct.len(),
            "rule": prop.rule,
            "samples": samples,
            "exhaustive": all_exhaustive,
            "explanation": prop.explanation,
            "sub_checks": per_sub,
            "fuzz_stages": fuzz_reports,
            "regress_inputs_replayed": regress_n,
            "known_findings_hit": known_hits.iter().map(|(k,(n,m))| json!({"sig":k,"cases":n,"example":m})).collect::<Vec<_>>(),
        },
        "assumptions": prop.assumptions,
        "wall_s": t0.elapsed().as_secs_f64(),
        "violations": violations.len(),
    });
    let _ = std::fs::create_dir_all("/verif/evidence");
    if only_sub.is_none() {
        std::fs::write(
            format!("/verif/evidence/{}.json", prop.id),
            serde_json::to_string_pretty(&evidence).unwrap(),
        )
        .expect("write evidence");
    }

    // 4. verdict
    for k in &ctx.known {
        let hits = known_hits.get(&k.sig).map(|h| h.0).unwrap_or(0);
        println!(
            "KNOWN-FINDING: property={} {} [sig={} cases_hit={}]",
            prop.id, k.what, k.sig, hits
        );
    }
    if violations.is_empty() {
        println!(
            "OK property={} tier={} seed={} evaluations={} distinct_nontrivial={} wall_s={:.1}",
            prop.id,
            tier.as_str(),
            seed,
            evaluations,
            distinct.len(),
            t0.elapsed().as_secs_f64()
        );
        0
    } else {
        let _ = std::fs::create_dir_all("/verif/replays");
        let mut seen = HashSet::new();
        for v in &violations {
            let sig = &v.failures[0].sig;
            if !seen.insert(sig.clone()) {
                continue;
            }
            if let Some(p) = v.case.get("artifact").and_then(|a| a.as_str()) {
                for f in &v.failures {
                    eprintln!("  [{}] {}: {}", v.sub, f.sig, f.msg);
                }
                println!("VIOLATION property={} replay={}", prop.id, p);
                continue;
            }
            let path = format!("/verif/replays/{}-{}.json", prop.id, sanitize(sig));
            let body = json!({
                "property": prop.id,
                "sub": v.sub,
                "case": v.case,
                "failures": v.failures,
            });
            let _ = std::fs::write(&path, serde_json::to_string_pretty(&body).unwrap());
            for f in &v.failures {
                eprintln!("  [{}] {}: {}", v.sub, f.sig, f.msg);
            }
            println!("VIOLATION property={} replay={}", prop.id, path);
        }
        1
    }
}

/// Replay one saved case; exit code 0 (holds) / 1 (violation)
pub fn replay_property(prop: &Property, path: &str) -> i32 {
    let text = match std::fs::read_to_string(path) {
        Ok(t) => t,
        Err(e) => {
            eprintln!("cannot read {path}: {e}");
            return 2;
        }
    };
    let v: Value = match serde_json::from_str(&text) {
        Ok(v) => v,
        Err(e) => {
            eprintln!("cannot parse {path}: {e}");
            return 2;
        }
    };
    let sub = v["sub"].as_str().unwrap_or("");
    let Some(runner) = prop.subs.iter().find(|s| s.name() == sub) else {
        eprintln!("unknown sub check {sub:?}");
        return 2;
    };
    let known = load_known(prop.id);
    match runner.replay(v["case"].clone()) {
        Ok(out) => {
            for f in &out.failures {
                let k = if is_known(&known, &f.sig) { " (known finding)" } else { "" };
                println!("  {}: {}{}", f.sig, f.msg, k);
            }
            if let Some(n) = &out.note {
                println!("  observed: {n}");
            }
            let unk = unknown_failures(&known, &out);
            if unk.is_empty() {
                println!("OK property={} replay={} holds", prop.id, path);
                0
            } else {
                println!("VIOLATION property={} replay={}", prop.id, path);
                1
            }
        }
        Err(e) => {
            eprintln!("{e}");
            2
        }
    }
}

fn run_fuzz_stage(prop: &str, st: &FuzzStage, seed: u64) -> (Value, Option<Violation>) {
    use std::process::Command;
    let t0 = Instant::now();
    let corpus = std::path::PathBuf::from(format!("/verif/.target/fuzz-corpus/{}-{}", prop, st.target));
    let _ = std::fs::remove_dir_all(&corpus);
    let _ = std::fs::create_dir_all(&corpus);
    (st.seed_corpus)(&corpus);
    let seeds = std::fs::read_dir(&corpus).map(|d| d.count()).unwrap_or(0);
    let artifacts = format!("/verif/replays/fuzz-{}-{}/", prop, st.target);
    let _ = std::fs::create_dir_all(&artifacts);
    let build = Command::new("cargo")
        .args(["+nightly", "fuzz", "build", "--fuzz-dir", "/verif/fuzz", st.target])
        .current_dir("/verif/harness")
        .env("CARGO_NET_OFFLINE", "true")
        .output();
    let built = matches!(&build, Ok(o) if o.status.success());
    if !built {
        eprintln!("[{prop}] fuzz stage {}: build failed, stage skipped (inconclusive, not a violation)", st.target);
        return (json!({"target": st.target, "status": "build-failed"}), None);
    }
    let out = Command::new("cargo")
        .args(["+nightly", "fuzz", "run", "--fuzz-dir", "/verif/fuzz", st.target, corpus.to_str().unwrap(), "--"])
        .arg(format!("-runs={}", st.runs))
        .arg(format!("-seed={}", (seed % 0xffff_ffff).max(1)))
        .arg(format!("-max_len={}", st.max_len))
        .arg("-len_control=0")
        .arg("-print_final_stats=1")
        .arg("-timeout=20")
        .arg(format!("-artifact_prefix={artifacts}"))
        .current_dir("/verif/harness")
        .env("CARGO_NET_OFFLINE", "true")
        .output();
    let Ok(out) = out else {
        return (json!({"target": st.target, "status": "could-not-run"}), None);
    };
    let text = format!("{}{}", String::from_utf8_lossy(&out.stdout), String::from_utf8_lossy(&out.stderr));
    let stat = |k: &str| -> u64 {
        text.lines().find(|l| l.contains(k)).and_then(|l| l.split_whitespace().last()).and_then(|v| v.parse().ok()).unwrap_or(0)
    };
    let executed = stat("stat::number_of_executed_units");
    let cov = text.lines().rev().find(|l| l.contains(" cov: ")).map(|l| l.trim().to_string()).unwrap_or_default();
    eprintln!(
        "[{prop}] fuzz  {:<28} executed={executed:<9} seeds={seeds} {:.1}s exit={:?} | {}",
        st.target,
        t0.elapsed().as_secs_f64(),
        out.status.code(),
        cov.chars().take(90).collect::<String>()
    );
    let mut viol = None;
    if !out.status.success() {
        let artifact = text
            .lines()
            .find_map(|l| l.split("Test unit written to ").nth(1).map(|p| p.trim().to_string()));
        let reason = text.lines().find(|l| l.contains("panicked at") || l.contains("ERROR: libFuzzer")).unwrap_or("").trim().to_string();
        if let Some(a) = artifact {
            let kind = if reason.contains("timeout") || a.contains("timeout-") { "timeout" } else if a.contains("oom-") { "oom" } else { "crash" };
            if kind == "crash" {
                viol = Some(Violation {
                    sub: format!("fuzz:{}", st.target),
                    case: json!({"artifact": a}),
                    failures: vec![Failure { sig: format!("fuzz.{}/{}", st.target, kind), msg: reason.clone() }],
                });
            } else {
                eprintln!("[{prop}] fuzz stage {}: {kind} reported by libFuzzer ({a}): inconclusive, not a violation", st.target);
            }
        }
    }
    (
        json!({"target": st.target, "status": if out.status.success() { "ok" } else { "failed" }, "executed_units": executed, "seed_corpus_files": seeds, "runs_requested": st.runs, "last_status_line": cov, "wall_s": t0.elapsed().as_secs_f64()}),
        viol,
    )
}

pub fn prop_sub<V>(
    name: &'static str,
    strategy: fn() -> BoxedStrategy<V>,
    quick: u32,
    thorough: u32,
    check: fn(&V, &mut CaseOut),
) -> Box<dyn SubRunner>
where
    V: Serialize + DeserializeOwned + Debug + Clone + Send + Sync + 'static,
{
    Box::new(Sub {
        name,
        gen: Gen::Prop(strategy, quick, thorough),
        check,
    })
}

pub fn enum_sub<V>(
    name: &'static str,
    cases: impl Fn(Tier) -> Vec<V> + Send + Sync + 'static,
    check: fn(&V, &mut CaseOut),
) -> Box<dyn SubRunner>
where
    V: Serialize + DeserializeOwned + Debug + Clone + Send + Sync + 'static,
{
    Box::new(Sub {
        name,
        gen: Gen::Enum(Box::new(cases)),
        check,
    })
}
