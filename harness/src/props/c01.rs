//! C01 — SIP values survive print -> parse unchanged (URIs, headers, start lines)
//!
//! Case types are serde-able mirror structs; they are converted to ezk values through the public
//! API only. The oracle compares the re-parsed ezk value field-wise against the *generated* mirror
//! and reads the printed text a second time with `refmodel::ref_sip` (written from RFC 3261).
//!
//! Generator restrictions (sound first; each one is a restriction of the generator, never a
//! catch-all in the oracle):
//!  * display names, quoted auth values: qdtext only (no `"`/`\`, no controls except HTAB); display
//!    names and reason phrases are non-empty and invariant under Unicode `trim()`
//!  * password: RFC 3261 `password` grammar (unreserved / "%" HEX HEX / & = + $ ,) — a '%' only as a
//!    well-formed escape, because the printer emits the password raw and the parser keeps it raw
//!  * host names: alnum/hyphen labels, never starting with something the IPv4 parser would grab
//!  * tags, Call-IDs, option tags, transports, auth param names, reason values: inside their RFC grammar
//!  * header-level `params` never contain the names a header stores in dedicated fields
//!    (`tag`; `expires`/`reason`/`retry-after`); `Other(..)` variants never carry a well-known name
//!  * parameter names are non-empty
//!  * message header values (sub `message`) are TEXT-UTF8-TRIM: no CR/LF and no SIP LWS (SP / HTAB) at either
//!    end. Only SIP LWS is trimmed by the generator: UTF8-NONASCII characters that Unicode counts as white space
//!    (NBSP, NEL, U+2000.., U+2028/9, U+3000 ...) are ordinary text and are generated at the very start / end
//!    of a value (and as a whole value) on purpose.
//!
//! Typed headers (sub `header`) are printed on three paths: (1) through `Headers::insert_type`
//! (`PrintCtx::default()`), as one `Vec` or item by item; (2) each item directly with `print_ctx` for a
//! message with a method; (3) the whole list through the public `ExtendValues` API (`Vec<H>::create_values(ctx)`,
//! or `create_values(ctx)` for the first item and `extend_values(ctx, ..)` / a pushed line of its own for each
//! later item, chosen by `layout`) with the print context of a message with a method, so that the method
//! dependent Table 1 column (REGISTER Contact vs dialog Contact) is demanded of EVERY item of a list whatever
//! its position. On each path: re-parse item by item, field-wise diff against the generated mirror under
//! Table 1, second reading of the text with ref_sip, fixpoint. Not asserted: how items are spread over header
//! lines, and the result of `extend_values` of single-valued headers.
#![allow(clippy::type_complexity)]

use crate::engine::*;
use crate::refmodel::ref_sip as rs;
use bytes::Bytes;
use bytesstr::BytesStr;
use proptest::collection::vec;
use proptest::prelude::*;
use proptest::sample::select;
use serde::{Deserialize, Serialize};
use sip_types::header::headers::{Headers, OneOrMore};
use sip_types::header::typed::*;
use sip_types::header::{ExtendValues, HeaderParse};
use sip_types::host::{Host, HostPort};
use sip_types::msg::{MessageLine, RequestLine, StatusLine};
use sip_types::parse::{ParseCtx, Parser};
use sip_types::print::{AppendCtx, PrintCtx, UriContext};
use sip_types::uri::params::{Param, Params, ParamsSpec, CPS, HPS};
use sip_types::uri::sip::{SipUri, UserPart, UserPw};
use sip_types::uri::NameAddr;
use sip_types::{Code, CodeKind, Method, Name};
use std::collections::BTreeMap;
use std::net::{Ipv4Addr, Ipv6Addr};

// =============================================================================================
// mirror types

#[derive(Clone, Debug, Serialize, Deserialize, PartialEq, Eq, Hash)]
pub enum HostC {
    V4([u8; 4]),
    V6([u16; 8]),
    Name(String),
}

#[derive(Clone, Debug, Serialize, Deserialize, PartialEq, Eq, Hash)]
pub struct HostPortC {
    pub host: HostC,
    pub port: Option<u16>,
}

#[derive(Clone, Debug, Serialize, Deserialize, PartialEq, Eq, Hash)]
pub struct ParamC {
    pub name: String,
    pub value: Option<String>,
}

#[derive(Clone, Debug, Serialize, Deserialize, PartialEq, Eq, Hash)]
pub enum UserC {
    Empty,
    User(String),
    UserPw { user: String, password: String },
}

#[derive(Clone, Debug, Serialize, Deserialize, PartialEq, Eq, Hash)]
pub struct UriC {
    pub sips: bool,
    pub user: UserC,
    pub host_port: HostPortC,
    pub params: Vec<ParamC>,
    pub headers: Vec<ParamC>,
}

#[derive(Clone, Copy, Debug, Serialize, Deserialize, PartialEq, Eq, Hash)]
pub enum UriCtxC {
    ReqUri,
    FromTo,
    Contact,
    Routing,
}

#[derive(Clone, Debug, Serialize, Deserialize, PartialEq, Eq, Hash)]
pub enum MethodCtxC {
    None,
    Register,
    Invite,
    /// a method that is neither REGISTER nor INVITE (drawn from a fixed list)
    Other(String),
}

#[derive(Clone, Debug, Serialize, Deserialize, PartialEq, Eq, Hash)]
pub struct CtxC {
    pub uri: Option<UriCtxC>,
    pub method: MethodCtxC,
}

#[derive(Clone, Debug, Serialize, Deserialize, PartialEq, Eq, Hash)]
pub struct NameAddrC {
    pub name: Option<String>,
    pub uri: UriC,
}

// =============================================================================================
// sizes

#[derive(Clone, Copy)]
struct Sz {
    /// max atoms of a generated string
    s: usize,
    /// max number of parameters
    p: usize,
}
const SMALL: Sz = Sz { s: 10, p: 4 };
const LARGE: Sz = Sz { s: 128, p: 8 };

fn len_range(max: usize) -> BoxedStrategy<usize> {
    if max <= 16 {
        (1..=max).boxed()
    } else if max <= 48 {
        prop_oneof![6 => 1usize..=12, 2 => 13usize..=max].boxed()
    } else {
        prop_oneof![6 => 1usize..=12, 2 => 13usize..=48, 1 => 49usize..=max].boxed()
    }
}

// =============================================================================================
// string generators

fn s(v: &str) -> String {
    v.to_string()
}

fn sel(v: &[&'static str]) -> BoxedStrategy<String> {
    select(v.to_vec()).prop_map(|x| x.to_string()).boxed()
}

fn multibyte_char() -> BoxedStrategy<char> {
    prop_oneof![
        proptest::char::range('\u{80}', '\u{7ff}'),
        proptest::char::range('\u{800}', '\u{ffff}'),
        proptest::char::range('\u{10000}', '\u{10ffff}'),
    ]
    .boxed()
}

/// atoms of "any UTF-8 string", weighted towards the characters that matter for escaping
fn atom_esc() -> BoxedStrategy<String> {
    prop_oneof![
        6 => "[a-zA-Z0-9]",
        2 => Just(s("%")),
        1 => sel(&["%41", "%2F", "%zz", "%4", "%25", "%00", "%c3%a4", "%40"]),
        4 => sel(&["@", ":", ";", "?", "/", "&", "=", "+", "$", ","]),
        1 => Just(s(" ")),
        2 => sel(&["\"", "<", ">", "[", "]", "{", "}", "|", "\\", "^", "`", "#", "(", ")", "!", "~", "*", "'", "-", "_", "."]),
        1 => prop_oneof![(0u8..0x20).prop_map(|b| (b as char).to_string()), Just(s("\x7f"))],
        3 => multibyte_char().prop_map(|c| c.to_string()),
    ]
    .boxed()
}

/// any non-empty UTF-8 string (escaped components: user, parameter names and values)
fn esc_string(max: usize) -> BoxedStrategy<String> {
    len_range(max)
        .prop_flat_map(|n| vec(atom_esc(), n..=n))
        .prop_map(|v| v.concat())
        .boxed()
}


fn token_atom() -> BoxedStrategy<String> {
    prop_oneof![
        8 => "[a-zA-Z0-9]",
        2 => sel(&["-", ".", "!", "*", "_", "+", "`", "'", "~"]),
        1 => sel(&["%", "%41", "%2b"]),
    ]
    .boxed()
}

/// RFC 3261 token, non-empty
fn token(max: usize) -> BoxedStrategy<String> {
    len_range(max)
        .prop_flat_map(|n| vec(token_atom(), n..=n))
        .prop_map(|v| v.concat())
        .boxed()
}

/// token without '%' and other punctuation — for places where the statement does not promise anything
/// beyond the plain grammar and a plain identifier is the realistic value
fn plain_token(max: usize) -> BoxedStrategy<String> {
    proptest::string::string_regex(&format!("[a-zA-Z][a-zA-Z0-9-]{{0,{}}}", max.max(1) - 1))
        .unwrap()
        .boxed()
}

/// qdtext = LWS / %x21 / %x23-5B / %x5D-7E / UTF8-NONASCII  (possibly empty)
fn qdtext(max: usize) -> BoxedStrategy<String> {
    let atom = prop_oneof![
        8 => "[a-zA-Z0-9]",
        3 => sel(&[" ", "\t", "!", "#", "$", "%", "&", "'", "(", ")", "*", "+", ",", "-", ".", "/", ":", ";", "<", "=", ">", "?", "@", "[", "]", "^", "_", "`", "{", "|", "}", "~"]),
        2 => multibyte_char().prop_map(|c| c.to_string()),
    ];
    prop_oneof![
        1 => Just(String::new()),
        12 => len_range(max).prop_flat_map(move |n| vec(atom.clone(), n..=n)).prop_map(|v| v.concat()),
    ]
    .boxed()
}

/// display name / reason phrase: qdtext-like, non-empty, invariant under Unicode trim
fn trimmed_text(max: usize) -> BoxedStrategy<String> {
    qdtext(max)
        .prop_map(|t| {
            let t = t.trim().to_string();
            if t.is_empty() {
                s("x")
            } else {
                t
            }
        })
        .boxed()
}

/// RFC 3261 password = *( unreserved / escaped / "&" / "=" / "+" / "$" / "," )
fn password(max: usize) -> BoxedStrategy<String> {
    let atom = prop_oneof![
        6 => "[a-zA-Z0-9]",
        2 => sel(&["-", "_", ".", "!", "~", "*", "'", "(", ")", "&", "=", "+", "$", ","]),
        1 => sel(&["%41", "%2f", "%00", "%C3%A4"]),
    ];
    prop_oneof![
        1 => Just(String::new()),
        8 => len_range(max).prop_flat_map(move |n| vec(atom.clone(), n..=n)).prop_map(|v| v.concat()),
    ]
    .boxed()
}

/// callid = word [ "@" word ]
fn call_id() -> BoxedStrategy<String> {
    let word_atom = prop_oneof![
        8 => "[a-zA-Z0-9]",
        2 => sel(&["-", ".", "!", "%", "*", "_", "+", "`", "'", "~", "(", ")", "<", ">", ":", "\\", "\"", "/", "[", "]", "?", "{", "}"]),
    ];
    let word = vec(word_atom, 1..=12).prop_map(|v| v.concat());
    prop_oneof![
        word.clone(),
        (word.clone(), word).prop_map(|(a, b)| format!("{a}@{b}")),
    ]
    .boxed()
}

// =============================================================================================
// value generators: hosts, params, uris

fn ipv4() -> BoxedStrategy<[u8; 4]> {
    let o = || prop_oneof![1 => Just(0u8), 1 => Just(255u8), 1 => 0u8..10, 4 => any::<u8>()];
    (o(), o(), o(), o()).prop_map(|(a, b, c, d)| [a, b, c, d]).boxed()
}

fn ipv6() -> BoxedStrategy<[u16; 8]> {
    let seg = || prop_oneof![3 => Just(0u16), 1 => Just(0xffffu16), 1 => 0u16..16, 3 => any::<u16>()];
    prop_oneof![
        6 => vec(seg(), 8).prop_map(|v| [v[0], v[1], v[2], v[3], v[4], v[5], v[6], v[7]]),
        // v4-mapped / v4-compatible
        2 => (ipv4(), any::<bool>()).prop_map(|(a, mapped)| {
            [0, 0, 0, 0, 0, if mapped { 0xffff } else { 0 }, u16::from_be_bytes([a[0], a[1]]), u16::from_be_bytes([a[2], a[3]])]
        }),
        1 => Just([0u16; 8]),
        1 => Just([0, 0, 0, 0, 0, 0, 0, 1]),
        1 => any::<[u16; 8]>(),
    ]
    .boxed()
}

/// true if the IPv4 alternative of a host parser grabs this name or a prefix of it: the first three labels are
/// digit runs and the fourth starts with one, and those four numbers form a *valid* IPv4 literal (each at most
/// 255, no leading zeros - `010.1.2.3` is not an address, it is a host name and must come back as one)
fn looks_like_ipv4_prefix(name: &str) -> bool {
    let labels: Vec<&str> = name.split('.').collect();
    if labels.len() < 4 || !labels[..3].iter().all(|l| !l.is_empty() && l.chars().all(|c| c.is_ascii_digit())) {
        return false;
    }
    let run: String = labels[3].chars().take_while(|c| c.is_ascii_digit()).collect();
    if run.is_empty() {
        return false;
    }
    // every prefix of the digit run the address parser could stop at
    (1..=run.len()).any(|n| format!("{}.{}.{}.{}", labels[0], labels[1], labels[2], &run[..n]).parse::<std::net::Ipv4Addr>().is_ok())
}

fn host_name() -> BoxedStrategy<String> {
    let label = prop_oneof![
        10 => "[a-zA-Z0-9]([a-zA-Z0-9-]{0,8}[a-zA-Z0-9])?",
        4 => "[0-9]{1,3}",
        2 => "[a-z]{1,3}",
        // labels around the DNS limit of 63 octets (RFC 3261 does not bound a label at all)
        1 => "[a-zA-Z][a-zA-Z0-9-]{59,63}[a-zA-Z0-9]",
    ];
    // names made of numbers only: dotted quads that are NOT addresses (leading zeros, a part above 255, too
    // many digits), which the address alternative must leave to the host-name alternative
    let numeric = prop_oneof![
        3 => "0{1,2}[0-9]{1,2}",
        3 => "[0-9]{1,3}",
        1 => "(25[6-9]|2[6-9][0-9]|[3-9][0-9]{2})",
        1 => "[0-9]{4}",
    ];
    prop_oneof![
        6 => vec(label, 1..=5).prop_map(|l| l.join(".")),
        2 => vec(numeric, 4..=5).prop_map(|l| l.join(".")),
    ]
    .prop_flat_map(|name| (Just(name), any::<bool>()))
        .prop_map(|(mut name, dot)| {
            if looks_like_ipv4_prefix(&name) {
                // by construction, not by filter: names the IPv4 parser would grab are outside the domain
                name.insert(0, 'h');
            }
            if dot {
                name.push('.');
            }
            name
        })
        .boxed()
}

fn host() -> BoxedStrategy<HostC> {
    prop_oneof![
        2 => ipv4().prop_map(HostC::V4),
        2 => ipv6().prop_map(HostC::V6),
        4 => host_name().prop_map(HostC::Name),
    ]
    .boxed()
}

fn port() -> BoxedStrategy<Option<u16>> {
    prop_oneof![
        3 => Just(None),
        1 => sel_u16(&[0, 1, 5060, 5061, 65535]).prop_map(Some),
        3 => any::<u16>().prop_map(Some),
    ]
    .boxed()
}

fn sel_u16(v: &[u16]) -> BoxedStrategy<u16> {
    select(v.to_vec()).boxed()
}

fn host_port() -> BoxedStrategy<HostPortC> {
    (host(), port()).prop_map(|(host, port)| HostPortC { host, port }).boxed()
}

const TABLE1_NAMES: &[&str] = &["maddr", "ttl", "transport", "lr", "user", "method"];

/// parameter value: absent or NON-EMPTY (pvalue = 1*paramchar, gen-value = token / host / quoted-string:
/// the grammar has no empty value and the printer writes `name=` for one)
fn param_value(sz: Sz) -> BoxedStrategy<Option<String>> {
    prop_oneof![
        3 => Just(None),
        6 => esc_string(sz.s).prop_map(Some),
        2 => sel(&["1.2.3.4", "5", "tcp", "phone", "INVITE"]).prop_map(Some),
    ]
    .boxed()
}

/// value of a `?name=value` URI header: hvalue may be empty
fn hvalue(sz: Sz) -> BoxedStrategy<Option<String>> {
    prop_oneof![8 => param_value(sz), 1 => Just(Some(String::new()))].boxed()
}

/// uri-parameter / header-level parameter: any UTF-8 name (non-empty) and value
fn any_param(sz: Sz, table1: bool) -> BoxedStrategy<ParamC> {
    let name = if table1 {
        prop_oneof![
            5 => esc_string(sz.s),
            4 => sel(TABLE1_NAMES),
            1 => sel(&["Maddr", "TTL", "Transport", "LR", "Method"]),
        ]
        .boxed()
    } else {
        prop_oneof![5 => esc_string(sz.s), 2 => sel(&["branch", "received", "rport", "q", "expires", "x"])].boxed()
    };
    (name, param_value(sz)).prop_map(|(name, value)| ParamC { name, value }).boxed()
}

fn uri_params(sz: Sz) -> BoxedStrategy<Vec<ParamC>> {
    prop_oneof![2 => Just(vec![]), 5 => vec(any_param(sz, true), 0..=sz.p)].boxed()
}

fn uri_headers(sz: Sz) -> BoxedStrategy<Vec<ParamC>> {
    let hp = (
        prop_oneof![4 => esc_string(sz.s), 1 => sel(&["Subject", "Replaces", "body", "Route"])],
        hvalue(sz),
    )
        .prop_map(|(name, value)| ParamC { name, value });
    prop_oneof![3 => Just(vec![]), 4 => vec(hp, 0..=(sz.p.max(1) - 1).max(1))].boxed()
}

/// header-level params (Via, From/To, Contact, Route, Retry-After, Subscription-State), never
/// containing one of `excluded` (names the header keeps in dedicated fields)
fn hdr_params(sz: Sz, excluded: &'static [&'static str]) -> BoxedStrategy<Vec<ParamC>> {
    prop_oneof![2 => Just(vec![]), 4 => vec(any_param(sz, false), 0..=sz.p)]
        .prop_map(move |mut v| {
            for p in v.iter_mut() {
                if excluded.iter().any(|e| *e == p.name) {
                    p.name.push_str("-x");
                }
            }
            v
        })
        .boxed()
}

fn user_part(sz: Sz) -> BoxedStrategy<UserC> {
    prop_oneof![
        2 => Just(UserC::Empty),
        5 => esc_string(sz.s).prop_map(UserC::User),
        2 => (esc_string(sz.s), password(sz.s)).prop_map(|(user, password)| UserC::UserPw { user, password }),
    ]
    .boxed()
}

fn uri(sz: Sz) -> BoxedStrategy<UriC> {
    (any::<bool>(), user_part(sz), host_port(), uri_params(sz), uri_headers(sz))
        .prop_map(|(sips, user, host_port, params, headers)| UriC { sips, user, host_port, params, headers })
        .boxed()
}

fn display_name(sz: Sz) -> BoxedStrategy<Option<String>> {
    // the printer always quotes a display name, and the content of a quoted string is kept as written: blanks
    // (ASCII or Unicode) at its edges belong to the name (fix 16f20b0; before it they were trimmed away)
    let edge = || prop_oneof![6 => Just(String::new()), 1 => sel(&[" ", "\t", "  ", "\u{3000}", "\u{a0}", "\u{2003}", " \u{85}"]).prop_map(|e| e.to_string())];
    prop_oneof![
        2 => Just(None),
        3 => (edge(), trimmed_text(sz.s), edge()).prop_map(|(a, t, b)| Some(format!("{a}{t}{b}"))),
    ]
    .boxed()
}

fn name_addr(sz: Sz) -> BoxedStrategy<NameAddrC> {
    (display_name(sz), uri(sz)).prop_map(|(name, uri)| NameAddrC { name, uri }).boxed()
}

fn method_ctx() -> BoxedStrategy<MethodCtxC> {
    prop_oneof![
        3 => Just(MethodCtxC::None),
        3 => Just(MethodCtxC::Register),
        2 => Just(MethodCtxC::Invite),
        2 => sel(&["OPTIONS", "BYE", "SUBSCRIBE", "FOO", "X-1"]).prop_map(MethodCtxC::Other),
    ]
    .boxed()
}

fn print_ctx() -> BoxedStrategy<CtxC> {
    let u = prop_oneof![
        Just(None),
        Just(Some(UriCtxC::ReqUri)),
        Just(Some(UriCtxC::FromTo)),
        Just(Some(UriCtxC::Contact)),
        Just(Some(UriCtxC::Routing)),
    ];
    (u, method_ctx()).prop_map(|(uri, method)| CtxC { uri, method }).boxed()
}

// =============================================================================================
// mirror -> ezk (public API only) and back

fn bs(v: &str) -> BytesStr {
    BytesStr::from(v)
}

fn to_host(h: &HostC) -> Host {
    match h {
        HostC::V4(o) => Host::IP4(Ipv4Addr::new(o[0], o[1], o[2], o[3])),
        HostC::V6(g) => Host::IP6(Ipv6Addr::new(g[0], g[1], g[2], g[3], g[4], g[5], g[6], g[7])),
        HostC::Name(n) => Host::Name(bs(n)),
    }
}

fn to_hp(h: &HostPortC) -> HostPort {
    HostPort { host: to_host(&h.host), port: h.port }
}

fn hp_back(h: &HostPort) -> HostPortC {
    HostPortC {
        host: match &h.host {
            Host::IP4(a) => HostC::V4(a.octets()),
            Host::IP6(a) => HostC::V6(a.segments()),
            Host::Name(n) => HostC::Name(n.to_string()),
        },
        port: h.port,
    }
}

fn to_params<S: ParamsSpec>(ps: &[ParamC]) -> Params<S> {
    let mut out = Params::<S>::new();
    for p in ps {
        out.push(Param { name: bs(&p.name), value: p.value.as_deref().map(bs) });
    }
    out
}

const LEFTOVER: &str = "\u{0}<params the API still holds after all expected names were taken>";

/// `Params` has no public iterator: read the parameters back with `get` + `take`, in the order of
/// the names of the generated value; whatever is left afterwards is reported as one pseudo entry.
/// (The order on the wire is checked separately on the printed text with ref_sip.)
fn params_back<S: ParamsSpec>(p: &Params<S>, orig: &[ParamC]) -> Vec<ParamC> {
    let mut p = p.clone();
    // names are looked up ASCII-case-insensitively, so `get("ttl")` may hand out `TTL` first:
    // take everything (each lookup removes one entry), then put the entries into the order of
    // the generated names by EXACT name
    let mut taken = vec![];
    for o in orig {
        let found = p.get(o.name.as_str()).map(|x| ParamC { name: x.name.to_string(), value: x.value.as_ref().map(|v| v.to_string()) });
        if let Some(f) = found {
            taken.push(f);
            let _ = p.take(o.name.as_str());
        }
    }
    let mut out = vec![];
    for o in orig {
        if let Some(i) = taken.iter().position(|t| t.name == o.name) {
            out.push(taken.remove(i));
        }
    }
    out.extend(taken);
    if !p.is_empty() {
        out.push(ParamC { name: LEFTOVER.to_string(), value: Some(format!("{p:?}")) });
    }
    out
}

fn to_uri(u: &UriC) -> SipUri {
    SipUri {
        sips: u.sips,
        user_part: match &u.user {
            UserC::Empty => UserPart::Empty,
            UserC::User(n) => UserPart::User(bs(n)),
            UserC::UserPw { user, password } => UserPart::UserPw(Box::new(UserPw { user: bs(user), password: bs(password) })),
        },
        host_port: to_hp(&u.host_port),
        uri_params: to_params::<CPS>(&u.params),
        header_params: to_params::<HPS>(&u.headers),
    }
}

fn uri_back(u: &SipUri, orig: &UriC) -> UriC {
    UriC {
        sips: u.sips,
        user: match &u.user_part {
            UserPart::Empty => UserC::Empty,
            UserPart::User(n) => UserC::User(n.to_string()),
            UserPart::UserPw(b) => UserC::UserPw { user: b.user.to_string(), password: b.password.to_string() },
        },
        host_port: hp_back(&u.host_port),
        params: params_back(&u.uri_params, &orig.params),
        headers: params_back(&u.header_params, &orig.headers),
    }
}

fn to_name_addr(n: &NameAddrC) -> NameAddr {
    NameAddr { name: n.name.as_deref().map(bs), uri: Box::new(to_uri(&n.uri)) }
}

fn name_addr_back(n: &NameAddr, orig: &NameAddrC) -> Option<NameAddrC> {
    let u: &SipUri = n.uri.downcast_ref::<SipUri>()?;
    Some(NameAddrC { name: n.name.as_ref().map(|x| x.to_string()), uri: uri_back(u, &orig.uri) })
}

fn method_of(m: &MethodCtxC) -> Option<Method> {
    match m {
        MethodCtxC::None => None,
        MethodCtxC::Register => Some(Method::REGISTER),
        MethodCtxC::Invite => Some(Method::INVITE),
        MethodCtxC::Other(t) => Some(Method::from(t.as_str())),
    }
}

fn with_ctx<R>(c: &CtxC, f: impl FnOnce(PrintCtx<'_>) -> R) -> R {
    let m = method_of(&c.method);
    f(PrintCtx {
        method: m.as_ref(),
        uri: c.uri.map(|u| match u {
            UriCtxC::ReqUri => UriContext::ReqUri,
            UriCtxC::FromTo => UriContext::FromTo,
            UriCtxC::Contact => UriContext::Contact,
            UriCtxC::Routing => UriContext::Routing,
        }),
    })
}

// =============================================================================================
// RFC 3261 Table 1 (section 19.1.1), written from the RFC

#[derive(Clone, Copy, Debug, PartialEq, Eq)]
enum Rule {
    /// the component must survive
    Keep,
    /// Table 1 forbids it in this context: it must be absent from the text
    Drop,
    /// not asserted: accepted omitted or preserved
    Either,
}

#[derive(Clone, Copy, Debug, PartialEq, Eq)]
enum Ctx {
    /// no header context ("external" column): everything is kept
    External,
    ReqUri,
    FromTo,
    /// Contact of a REGISTER ("reg./redir. Contact")
    ContactReg,
    /// Contact of a request with another method ("dialog Contact")
    ContactDialog,
    /// Contact printed without a method (a response: could be a redirect or a dialog Contact) — both columns accepted
    ContactAny,
    /// Route / Record-Route
    Routing,
    /// request line as printed by Endpoint::send_outgoing_request; the statement only says the start
    /// line is kept, so headers are accepted kept or (Table 1) omitted
    MsgReqLine,
}

impl Ctx {
    fn of(c: &CtxC) -> Ctx {
        match (c.uri, &c.method) {
            (None, _) => Ctx::External,
            (Some(UriCtxC::ReqUri), _) => Ctx::ReqUri,
            (Some(UriCtxC::FromTo), _) => Ctx::FromTo,
            (Some(UriCtxC::Contact), MethodCtxC::Register) => Ctx::ContactReg,
            (Some(UriCtxC::Contact), MethodCtxC::None) => Ctx::ContactAny,
            (Some(UriCtxC::Contact), _) => Ctx::ContactDialog,
            (Some(UriCtxC::Routing), _) => Ctx::Routing,
        }
    }
    fn port(self) -> Rule {
        if self == Ctx::FromTo {
            Rule::Drop
        } else {
            Rule::Keep
        }
    }
    fn headers(self) -> Rule {
        match self {
            Ctx::External | Ctx::ContactReg => Rule::Keep,
            Ctx::ReqUri | Ctx::FromTo | Ctx::ContactDialog | Ctx::Routing => Rule::Drop,
            Ctx::ContactAny | Ctx::MsgReqLine => Rule::Either,
        }
    }
    fn param(self, name: &str) -> Rule {
        if self == Ctx::External {
            return Rule::Keep;
        }
        let lower = name.to_ascii_lowercase();
        let exact = lower == name;
        let base = match (self, lower.as_str()) {
            // "method" is '-' in every header column, but its omission is not asserted
            (_, "method") => Rule::Either,
            (Ctx::FromTo, "maddr" | "ttl" | "transport" | "lr") => Rule::Drop,
            (Ctx::ContactReg, "lr") => Rule::Drop,
            (Ctx::ContactDialog | Ctx::Routing, "ttl") => Rule::Drop,
            (Ctx::ContactAny, "ttl" | "lr") => Rule::Either,
            _ => Rule::Keep,
        };
        // parameter names written in another case: not asserted either way
        if !exact && base == Rule::Drop {
            Rule::Either
        } else {
            base
        }
    }
    fn forces_omission(self, u: &UriC) -> bool {
        (self.port() == Rule::Drop && u.host_port.port.is_some())
            || (self.headers() == Rule::Drop && !u.headers.is_empty())
            || u.params.iter().any(|p| self.param(&p.name) == Rule::Drop)
    }
}

/// walk the generated parameter list against an observed list under the rules
fn match_params(orig: &[ParamC], got: &[ParamC], rule: impl Fn(&str) -> Rule) -> Result<(), String> {
    let mut gi = 0;
    for p in orig {
        match rule(&p.name) {
            Rule::Keep => {
                if got.get(gi) == Some(p) {
                    gi += 1;
                } else {
                    return Err(format!("expected {:?} at position {}, found {:?}", p, gi, got.get(gi)));
                }
            }
            Rule::Drop => {}
            Rule::Either => {
                if got.get(gi) == Some(p) {
                    gi += 1;
                }
            }
        }
    }
    if gi != got.len() {
        return Err(format!("unexpected entry {:?} at position {}", got[gi], gi));
    }
    Ok(())
}

type Diffs = Vec<(String, String)>;

fn push(d: &mut Diffs, field: &str, msg: String) {
    d.push((field.to_string(), msg));
}

/// field-wise comparison of the re-parsed URI with the generated one under Table 1
fn diff_uri(orig: &UriC, got: &UriC, ctx: Ctx, pre: &str) -> Diffs {
    let mut d = vec![];
    if orig.sips != got.sips {
        push(&mut d, &format!("{pre}scheme"), format!("sips {} -> {}", orig.sips, got.sips));
    }
    if orig.user != got.user {
        let field = match (&orig.user, &got.user) {
            (UserC::UserPw { user: a, .. }, UserC::UserPw { user: b, .. }) if a == b => "password",
            _ => "user",
        };
        push(&mut d, &format!("{pre}{field}"), format!("{:?} -> {:?}", orig.user, got.user));
    }
    if orig.host_port.host != got.host_port.host {
        push(&mut d, &format!("{pre}host"), format!("{:?} -> {:?}", orig.host_port.host, got.host_port.host));
    }
    let port_ok = match ctx.port() {
        Rule::Keep => got.host_port.port == orig.host_port.port,
        Rule::Drop => got.host_port.port.is_none(),
        Rule::Either => got.host_port.port.is_none() || got.host_port.port == orig.host_port.port,
    };
    if !port_ok {
        push(&mut d, &format!("{pre}port"), format!("{:?} -> {:?} in {:?}", orig.host_port.port, got.host_port.port, ctx));
    }
    if let Err(e) = match_params(&orig.params, &got.params, |n| ctx.param(n)) {
        push(&mut d, &format!("{pre}uri-params"), format!("{e} (generated {:?}, re-parsed {:?}, {:?})", orig.params, got.params, ctx));
    }
    let hrule = ctx.headers();
    let h_ok = match hrule {
        Rule::Keep => got.headers == orig.headers,
        Rule::Drop => got.headers.is_empty(),
        Rule::Either => got.headers.is_empty() || got.headers == orig.headers,
    };
    if !h_ok {
        push(&mut d, &format!("{pre}uri-headers"), format!("generated {:?}, re-parsed {:?}, {:?}", orig.headers, got.headers, ctx));
    }
    d
}

fn user_raw_ok(c: char) -> bool {
    c.is_ascii_graphic() && !matches!(c, '"' | '<' | '>' | '%' | ':' | '@')
}
fn param_raw_ok(c: char) -> bool {
    c.is_ascii_graphic() && !matches!(c, '"' | '<' | '>' | '%' | ';' | '?' | '@' | '=' | ',')
}
fn header_raw_ok(c: char) -> bool {
    c.is_ascii_graphic() && !matches!(c, '"' | '<' | '>' | '%' | ';' | '@' | '&' | '=' | ',')
}

fn decode_pairs(raw: &[(String, Option<String>)], what: &str, ok: fn(char) -> bool, pre: &str, d: &mut Diffs) -> Option<Vec<ParamC>> {
    let mut out = vec![];
    let mut good = true;
    for (n, v) in raw {
        for (part, text) in [("name", Some(n)), ("value", v.as_ref())] {
            let Some(text) = text else { continue };
            let bad = rs::raw_chars_outside(text, ok);
            if !bad.is_empty() {
                push(d, &format!("{pre}escape.{what}-{part}-raw"), format!("printed {what} {part} {text:?} contains raw {bad:?}"));
            }
        }
        let name = rs::percent_decode(n);
        let value = v.as_ref().map(|v| rs::percent_decode(v));
        match (name, value) {
            (Ok(name), None) => out.push(ParamC { name, value: None }),
            (Ok(name), Some(Ok(value))) => out.push(ParamC { name, value: Some(value) }),
            _ => {
                good = false;
                push(d, &format!("{pre}escape.{what}-decode"), format!("printed {what} {n:?}={v:?} does not percent-decode"));
            }
        }
    }
    good.then_some(out)
}

/// read the printed URI a second time with ref_sip: forbidden components absent, everything else
/// present in order, escaped components decode to the generated strings, no raw reserved characters
fn check_uri_text(text: &str, orig: &UriC, ctx: Ctx, pre: &str) -> Diffs {
    let mut d = vec![];
    let r = match rs::split_uri(text) {
        Ok(r) => r,
        Err(e) => {
            push(&mut d, &format!("{pre}text.split"), format!("ref_sip cannot split {text:?}: {e}"));
            return d;
        }
    };
    if (r.scheme == "sips") != orig.sips {
        push(&mut d, &format!("{pre}text.scheme"), format!("{text:?}"));
    }
    // user / password
    let (ou, op) = match &orig.user {
        UserC::Empty => (None, None),
        UserC::User(u) => (Some(u), None),
        UserC::UserPw { user, password } => (Some(user), Some(password)),
    };
    match (&r.user, ou) {
        (None, None) => {}
        (Some(raw), Some(o)) => {
            let bad = rs::raw_chars_outside(raw, user_raw_ok);
            if !bad.is_empty() {
                push(&mut d, &format!("{pre}escape.user-raw"), format!("printed user {raw:?} contains raw {bad:?} (generated {o:?})"));
            }
            match rs::percent_decode(raw) {
                Ok(dec) if &dec == o => {}
                other => push(&mut d, &format!("{pre}escape.user-decode"), format!("printed user {raw:?} decodes to {other:?}, generated {o:?}")),
            }
        }
        (a, b) => push(&mut d, &format!("{pre}text.user"), format!("text has user {a:?}, generated {b:?}")),
    }
    if r.password.as_ref() != op {
        push(&mut d, &format!("{pre}text.password"), format!("text has password {:?}, generated {:?}", r.password, op));
    }
    // host / port
    let host_ok = match &orig.host_port.host {
        HostC::V4(o) => r.host == format!("{}.{}.{}.{}", o[0], o[1], o[2], o[3]),
        HostC::V6(g) => {
            r.host.starts_with('[')
                && r.host.ends_with(']')
                && r.host[1..r.host.len() - 1].parse::<Ipv6Addr>().map(|a| a.segments() == *g).unwrap_or(false)
        }
        HostC::Name(n) => &r.host == n,
    };
    if !host_ok {
        push(&mut d, &format!("{pre}text.host"), format!("text has host {:?}, generated {:?}", r.host, orig.host_port.host));
    }
    let want_port = orig.host_port.port.map(|p| p.to_string());
    let port_ok = match ctx.port() {
        Rule::Keep => r.port == want_port,
        Rule::Drop => r.port.is_none(),
        Rule::Either => r.port.is_none() || r.port == want_port,
    };
    if !port_ok {
        push(&mut d, &format!("{pre}text.port"), format!("text has port {:?}, generated {:?}, {:?}", r.port, want_port, ctx));
    }
    // params
    if let Some(ps) = decode_pairs(&r.params, "param", param_raw_ok, pre, &mut d) {
        if let Err(e) = match_params(&orig.params, &ps, |n| ctx.param(n)) {
            push(&mut d, &format!("{pre}text.uri-params"), format!("{e} (text {text:?}, generated {:?}, {:?})", orig.params, ctx));
        }
    }
    if let Some(hs) = decode_pairs(&r.headers, "header", header_raw_ok, pre, &mut d) {
        let ok = match ctx.headers() {
            Rule::Keep => hs == orig.headers,
            Rule::Drop => hs.is_empty(),
            Rule::Either => hs.is_empty() || hs == orig.headers,
        };
        if !ok {
            push(&mut d, &format!("{pre}text.uri-headers"), format!("text {text:?} has headers {hs:?}, generated {:?}, {:?}", orig.headers, ctx));
        }
    }
    d
}

fn report(out: &mut CaseOut, base: &str, d: Diffs) {
    for (field, msg) in d {
        out.fail(format!("{base}/{field}"), msg);
    }
}

fn short<T: std::fmt::Debug>(e: &T) -> String {
    let mut t = format!("{e:?}");
    if t.len() > 300 {
        let mut cut = 300;
        while !t.is_char_boundary(cut) {
            cut -= 1;
        }
        t.truncate(cut);
        t.push('…');
    }
    t
}

// --- interest / classes -----------------------------------------------------------------------

#[derive(Default, Clone, Copy)]
struct Flags {
    reserved: bool,
    pct: bool,
    multibyte: bool,
}

fn scan(text: &str, f: &mut Flags) {
    for c in text.chars() {
        if c == '%' {
            f.pct = true;
        } else if !c.is_ascii() {
            f.multibyte = true;
        } else if !rs::is_unreserved(c) {
            f.reserved = true;
        }
    }
}

fn scan_params(ps: &[ParamC], f: &mut Flags) {
    for p in ps {
        scan(&p.name, f);
        if let Some(v) = &p.value {
            scan(v, f);
        }
    }
}

fn classes_uri(u: &UriC, out: &mut CaseOut) -> bool {
    let mut fu = Flags::default();
    match &u.user {
        UserC::Empty => out.class("user:none"),
        UserC::User(x) => {
            out.class("user:user");
            scan(x, &mut fu)
        }
        UserC::UserPw { user, password } => {
            out.class("user:user+password");
            if password.contains('%') {
                out.class("password:escape");
            }
            scan(user, &mut fu)
        }
    }
    if fu.pct {
        out.class("user:literal-%");
    }
    if fu.reserved {
        out.class("user:reserved-char");
    }
    if fu.multibyte {
        out.class("user:multibyte");
    }
    let mut fp = Flags::default();
    scan_params(&u.params, &mut fp);
    if fp.pct {
        out.class("uri-param:literal-%");
    }
    if fp.reserved {
        out.class("uri-param:reserved-char");
    }
    if fp.multibyte {
        out.class("uri-param:multibyte");
    }
    let mut fh = Flags::default();
    scan_params(&u.headers, &mut fh);
    if fh.pct {
        out.class("uri-header:literal-%");
    }
    if fh.reserved {
        out.class("uri-header:reserved-char");
    }
    if fh.multibyte {
        out.class("uri-header:multibyte");
    }
    if !u.params.is_empty() {
        out.class("uri-param:some");
    }
    if !u.headers.is_empty() {
        out.class("uri-header:some");
    }
    if u.params.iter().any(|p| TABLE1_NAMES.contains(&p.name.as_str())) {
        out.class("uri-param:table1-name");
    }
    match &u.host_port.host {
        HostC::V4(_) => out.class("host:ipv4"),
        HostC::V6(_) => out.class("host:ipv6"),
        HostC::Name(_) => out.class("host:name"),
    }
    fu.pct || fu.reserved || fu.multibyte || fp.pct || fp.reserved || fp.multibyte || fh.pct || fh.reserved || fh.multibyte
}

fn key<T: Serialize>(v: &T) -> String {
    serde_json::to_string(v).unwrap_or_default()
}

// =============================================================================================
// parse helpers

fn parse_with<'a, T, E: std::fmt::Debug>(
    src: &'a BytesStr,
    f: impl FnOnce(ParseCtx<'a>, &'a str) -> Result<(&'a str, T), E>,
) -> Result<(&'a str, T), String> {
    let b: &Bytes = src.as_ref();
    let ctx = ParseCtx::new(b, Parser::default());
    f(ctx, src.as_str()).map_err(|e| short(&e))
}

// =============================================================================================
// sub-check: method

const METHOD_NAMES: [&str; 14] = [
    "INVITE", "ACK", "CANCEL", "BYE", "REGISTER", "MESSAGE", "UPDATE", "PRACK", "OPTIONS", "SUBSCRIBE", "NOTIFY", "PUBLISH", "INFO", "REFER",
];

fn method_consts() -> [Method; 14] {
    [
        Method::INVITE,
        Method::ACK,
        Method::CANCEL,
        Method::BYE,
        Method::REGISTER,
        Method::MESSAGE,
        Method::UPDATE,
        Method::PRACK,
        Method::OPTIONS,
        Method::SUBSCRIBE,
        Method::NOTIFY,
        Method::PUBLISH,
        Method::INFO,
        Method::REFER,
    ]
}

fn classify(m: &Method) -> Option<usize> {
    method_consts().iter().position(|c| c == m)
}

/// what a method built from token `t` must print as: the canonical name if `t` is a well-known
/// name (in any case — case-sensitivity is not asserted), else `t` itself
fn expected_method_text(t: &str) -> Vec<String> {
    match METHOD_NAMES.iter().find(|n| n.eq_ignore_ascii_case(t)) {
        Some(n) if *n == t => vec![n.to_string()],
        Some(n) => vec![n.to_string(), t.to_string()],
        None => vec![t.to_string()],
    }
}

fn has_wellknown_proper_prefix(t: &str) -> bool {
    METHOD_NAMES.iter().any(|n| t.len() > n.len() && t.is_char_boundary(n.len()) && t[..n.len()].eq_ignore_ascii_case(n))
}

fn flip_case(text: &str, mask: u32) -> String {
    text.chars()
        .enumerate()
        .map(|(i, c)| if mask >> (i % 32) & 1 == 1 { if c.is_ascii_lowercase() { c.to_ascii_uppercase() } else { c.to_ascii_lowercase() } } else { c })
        .collect()
}

fn method_token() -> BoxedStrategy<String> {
    let name = || select(METHOD_NAMES.to_vec());
    prop_oneof![
        2 => name().prop_map(|n| n.to_string()),
        2 => (name(), any::<u32>()).prop_map(|(n, m)| flip_case(n, m)),
        4 => (name(), token(4)).prop_map(|(n, t)| format!("{n}{t}")),
        1 => (name(), token(4), any::<u32>()).prop_map(|(n, t, m)| format!("{}{t}", flip_case(n, m))),
        2 => (token(3), name()).prop_map(|(t, n)| format!("{t}{n}")),
        1 => (name(), 1usize..=2).prop_map(|(n, k)| n[..n.len() - k].to_string()),
        1 => (name(), name()).prop_map(|(a, b)| format!("{a}{b}")),
        3 => token(12),
    ]
    .boxed()
}

/// oracle (5) on one classification result
fn check_classification(t: &str, m: &Method, path: &str, out: &mut CaseOut) {
    let cls = classify(m);
    if let Some(i) = cls {
        if !t.eq_ignore_ascii_case(METHOD_NAMES[i]) {
            out.fail(format!("c01.method.{path}/prefix"), format!("token {t:?} is classified as the well-known method {}", METHOD_NAMES[i]));
        }
    }
    if let Some(i) = METHOD_NAMES.iter().position(|n| *n == t) {
        if cls != Some(i) {
            out.fail(format!("c01.method.{path}/exact-not-recognised"), format!("token {t:?} is not classified as {}", METHOD_NAMES[i]));
        }
    }
    let printed = m.to_string();
    if cls.map_or(true, |i| t.eq_ignore_ascii_case(METHOD_NAMES[i])) && !expected_method_text(t).contains(&printed) {
        out.fail(format!("c01.method.{path}/print"), format!("method from token {t:?} prints as {printed:?}"));
    }
}

fn check_method(t: &String, out: &mut CaseOut) {
    if has_wellknown_proper_prefix(t) {
        out.class("wellknown-name+suffix");
        out.nontrivial(t);
    } else if METHOD_NAMES.contains(&t.as_str()) {
        out.class("wellknown-exact");
    } else if METHOD_NAMES.iter().any(|n| n.eq_ignore_ascii_case(t)) {
        out.class("wellknown-other-case");
    } else if METHOD_NAMES.iter().any(|n| t.to_ascii_uppercase().ends_with(n)) {
        out.class("prefix+wellknown-name");
    } else {
        out.class("other-token");
    }
    if t.contains('%') {
        out.class("token-with-%");
    }

    let m = Method::from(t.as_str());
    check_classification(t, &m, "from", out);

    // print -> parse
    let printed = BytesStr::from(m.to_string());
    match parse_with(&printed, |ctx, i| Method::parse(ctx)(i)) {
        Ok((rest, m2)) => {
            if !rest.is_empty() {
                out.fail("c01.method.roundtrip/trailing", format!("{printed:?} leaves {rest:?}"));
            }
            if m2 != m {
                out.fail("c01.method.roundtrip/value", format!("{t:?}: {m:?} prints {printed:?} parses {m2:?}"));
            }
        }
        Err(e) => out.fail("c01.method.roundtrip/rejected", format!("{printed:?}: {e}")),
    }

    // the same through CSeq, RAck, Allow and the request line (print side and parse side)
    let cseq_txt = BytesStr::from(format!("4711 {t}"));
    match parse_with(&cseq_txt, |ctx, i| CSeq::parse(ctx, i)) {
        Ok((rest, c)) => {
            if !rest.is_empty() || c.cseq != 4711 {
                out.fail("c01.method.cseq/parse", format!("{cseq_txt:?} -> {c:?} rest {rest:?}"));
            }
            check_classification(t, &c.method, "cseq", out);
        }
        Err(e) => out.fail("c01.method.cseq/rejected", format!("{cseq_txt:?}: {e}")),
    }
    let rack_txt = BytesStr::from(format!("1 2 {t}"));
    match parse_with(&rack_txt, |ctx, i| RAck::parse(ctx, i)) {
        Ok((rest, c)) => {
            if !rest.is_empty() || c.rack != 1 || c.cseq != 2 {
                out.fail("c01.method.rack/parse", format!("{rack_txt:?} -> {c:?} rest {rest:?}"));
            }
            check_classification(t, &c.method, "rack", out);
        }
        Err(e) => out.fail("c01.method.rack/rejected", format!("{rack_txt:?}: {e}")),
    }
    let allow_txt = BytesStr::from(format!("{t}, FOO"));
    match parse_with(&allow_txt, |ctx, i| Allow::parse(ctx, i)) {
        Ok((rest, c)) => {
            if rest != ", FOO" {
                out.fail("c01.method.allow/parse", format!("{allow_txt:?} -> {c:?} rest {rest:?}"));
            }
            check_classification(t, &c.0, "allow", out);
        }
        Err(e) => out.fail("c01.method.allow/rejected", format!("{allow_txt:?}: {e}")),
    }
    let line = RequestLine { method: m.clone(), uri: Box::new(SipUri::new(HostPort::host_name("example.org"))) };
    let line_txt = BytesStr::from(line.default_print_ctx().to_string());
    let want: Vec<String> = expected_method_text(t).into_iter().map(|x| format!("{x} sip:example.org SIP/2.0")).collect();
    if classify(&m).map_or(true, |i| t.eq_ignore_ascii_case(METHOD_NAMES[i])) && !want.contains(&line_txt.to_string()) {
        out.fail("c01.method.request-line/print", format!("{t:?} prints {line_txt:?}"));
    }
    let raw_line = BytesStr::from(format!("{t} sip:example.org SIP/2.0"));
    for (which, txt) in [("printed", &line_txt), ("raw", &raw_line)] {
        match parse_with(txt, |ctx, i| MessageLine::parse(ctx)(i)) {
            Ok((rest, MessageLine::Request(r))) => {
                if !rest.is_empty() {
                    out.fail("c01.method.request-line/trailing", format!("{txt:?} leaves {rest:?}"));
                }
                if which == "raw" {
                    check_classification(t, &r.method, "request-line", out);
                } else if r.method != m {
                    out.fail("c01.method.request-line/value", format!("{txt:?} -> {:?}, expected {m:?}", r.method));
                }
            }
            Ok((_, other)) => out.fail("c01.method.request-line/kind", format!("{txt:?} -> {other:?}")),
            Err(e) => out.fail("c01.method.request-line/rejected", format!("{txt:?}: {e}")),
        }
    }
}

// =============================================================================================
// sub-check: code (exhaustive)

fn all_codes(_t: Tier) -> Vec<u16> {
    (0..=u16::MAX).collect()
}

fn check_code(n: &u16, out: &mut CaseOut) {
    let n = *n;
    let c = Code::from(n);
    let want_kind = match n {
        100..=199 => CodeKind::Provisional,
        200..=299 => CodeKind::Success,
        300..=399 => CodeKind::Redirection,
        400..=499 => CodeKind::RequestFailure,
        500..=599 => CodeKind::ServerFailure,
        600..=699 => CodeKind::GlobalFailure,
        _ => CodeKind::Custom,
    };
    out.class(match want_kind {
        CodeKind::Custom => "custom",
        _ => "1xx-6xx",
    });
    if c.kind() != want_kind {
        out.fail("c01.code/kind", format!("{n}: {:?}", c.kind()));
    }
    if c.into_u16() != n {
        out.fail("c01.code/into_u16", format!("{n}: {}", c.into_u16()));
    }
    match n.to_string().parse::<Code>() {
        Ok(c2) if c2 == c => {}
        other => out.fail("c01.code/from_str", format!("{n}: {other:?}")),
    }
    for reason in [None, c.text()] {
        let line = StatusLine { code: c, reason: reason.map(BytesStr::from_static) };
        let txt = BytesStr::from(line.to_string());
        let want = match reason {
            None => format!("SIP/2.0 {n}"),
            Some(r) => format!("SIP/2.0 {n} {r}"),
        };
        if txt.as_str() != want {
            out.fail("c01.code/status-line-print", format!("{txt:?} expected {want:?}"));
        }
        match parse_with(&txt, |ctx, i| MessageLine::parse(ctx)(i)) {
            Ok((rest, MessageLine::Response(l))) => {
                if !rest.is_empty() {
                    out.fail("c01.code/status-line-trailing", format!("{txt:?} leaves {rest:?}"));
                }
                if l.code != c || l.reason.as_ref().map(|r| r.as_str()) != reason {
                    out.fail("c01.code/status-line-value", format!("{txt:?} -> {l:?}"));
                }
            }
            Ok((_, o)) => out.fail("c01.code/status-line-kind", format!("{txt:?} -> {o:?}")),
            Err(e) => out.fail("c01.code/status-line-rejected", format!("{txt:?}: {e}")),
        }
    }
}

// =============================================================================================
// sub-check: host_port

#[derive(Clone, Debug, Serialize, Deserialize)]
pub struct HostPortCase {
    hp: HostPortC,
    /// print inside a From/To URI context (port is forbidden there)
    from_to: bool,
}

fn host_port_case() -> BoxedStrategy<HostPortCase> {
    (host_port(), prop::bool::weighted(0.3)).prop_map(|(hp, from_to)| HostPortCase { hp, from_to }).boxed()
}

fn check_host_port(c: &HostPortCase, out: &mut CaseOut) {
    let ctx = CtxC { uri: if c.from_to { Some(UriCtxC::FromTo) } else { None }, method: MethodCtxC::None };
    match &c.hp.host {
        HostC::V4(_) => out.class("ipv4"),
        HostC::V6(g) => {
            out.class("ipv6");
            if g[..5] == [0; 5] && (g[5] == 0xffff || g[5] == 0) && (g[6] != 0 || g[7] > 1) {
                out.class("ipv6:v4-mapped/compatible");
            }
            if g.windows(2).any(|w| w == [0, 0]) {
                out.class("ipv6:compressible");
            }
        }
        HostC::Name(n) => {
            out.class("name");
            if n.ends_with('.') {
                out.class("name:trailing-dot");
            }
            if n.split('.').next().map_or(false, |l| l.chars().all(|c| c.is_ascii_digit())) {
                out.class("name:numeric-first-label");
            }
        }
    }
    match c.hp.port {
        None => out.class("port:none"),
        Some(_) => out.class("port:some"),
    }
    let drop_port = c.from_to && c.hp.port.is_some();
    if drop_port {
        out.class("ctx:from-to drops port");
        out.nontrivial(&key(c));
    }
    let v = to_hp(&c.hp);
    let text = BytesStr::from(with_ctx(&ctx, |p| v.print_ctx(p).to_string()));
    out.note = Some(text.to_string());
    let mut want = c.hp.clone();
    if c.from_to {
        want.port = None;
    }
    // text, read independently
    let (htxt, ptxt) = if text.starts_with('[') {
        match text.find(']') {
            Some(i) => (&text[..=i], text[i + 1..].strip_prefix(':')),
            None => (text.as_str(), None),
        }
    } else {
        match text.rfind(':') {
            Some(i) => (&text[..i], Some(&text[i + 1..])),
            None => (text.as_str(), None),
        }
    };
    let host_ok = match &c.hp.host {
        HostC::V4(o) => htxt == format!("{}.{}.{}.{}", o[0], o[1], o[2], o[3]),
        HostC::V6(g) => htxt.len() > 2 && htxt[1..htxt.len() - 1].parse::<Ipv6Addr>().map(|a| a.segments() == *g).unwrap_or(false),
        HostC::Name(n) => htxt == n,
    };
    if !host_ok {
        out.fail("c01.host_port/text-host", format!("{:?} printed as {text:?}", c.hp));
    }
    if ptxt.map(|p| p.to_string()) != want.port.map(|p| p.to_string()) {
        out.fail(if drop_port { "c01.host_port/table1-port-in-from-to" } else { "c01.host_port/text-port" }, format!("{:?} printed as {text:?}", c.hp));
    }
    match parse_with(&text, |pc, i| HostPort::parse(pc)(i)) {
        Ok((rest, got)) => {
            if !rest.is_empty() {
                out.fail("c01.host_port/trailing", format!("{text:?} leaves {rest:?}"));
            }
            let got_m = hp_back(&got);
            if got_m.host != want.host {
                out.fail("c01.host_port/host", format!("{:?} -> {text:?} -> {:?}", c.hp.host, got_m.host));
            }
            if got_m.port != want.port {
                out.fail("c01.host_port/port", format!("{:?} -> {text:?} -> {:?}", c.hp.port, got_m.port));
            }
            let again = with_ctx(&ctx, |p| got.print_ctx(p).to_string());
            if again != text.as_str() {
                out.fail("c01.host_port/fixpoint", format!("{text:?} -> {again:?}"));
            }
        }
        Err(e) => out.fail("c01.host_port/rejected", format!("{text:?}: {e}")),
    }
}

// =============================================================================================
// sub-check: sip_uri

#[derive(Clone, Debug, Serialize, Deserialize)]
pub struct UriCase {
    uri: UriC,
    ctx: CtxC,
}

fn uri_case_small() -> BoxedStrategy<UriCase> {
    (uri(SMALL), print_ctx()).prop_map(|(uri, ctx)| UriCase { uri, ctx }).boxed()
}
fn uri_case_large() -> BoxedStrategy<UriCase> {
    (uri(LARGE), print_ctx()).prop_map(|(uri, ctx)| UriCase { uri, ctx }).boxed()
}

fn class_ctx(ctx: Ctx, out: &mut CaseOut) {
    out.class(match ctx {
        Ctx::External => "ctx:none",
        Ctx::ReqUri => "ctx:req-uri",
        Ctx::FromTo => "ctx:from-to",
        Ctx::ContactReg => "ctx:contact+REGISTER",
        Ctx::ContactDialog => "ctx:contact+other-method",
        Ctx::ContactAny => "ctx:contact, no method",
        Ctx::Routing => "ctx:routing",
        Ctx::MsgReqLine => "ctx:message request line",
    });
}

fn check_uri(c: &UriCase, out: &mut CaseOut) {
    let ctx = Ctx::of(&c.ctx);
    class_ctx(ctx, out);
    let interesting = classes_uri(&c.uri, out);
    let omission = ctx.forces_omission(&c.uri);
    if omission {
        out.class("table1:omission forced");
    }
    if interesting || omission {
        out.nontrivial(&key(c));
    }
    let v = to_uri(&c.uri);
    let text = BytesStr::from(with_ctx(&c.ctx, |p| v.print_ctx(p).to_string()));
    out.note = Some(text.to_string());
    report(out, "c01.uri", check_uri_text(&text, &c.uri, ctx, ""));
    match parse_with(&text, |pc, i| SipUri::parse(pc)(i)) {
        Ok((rest, got)) => {
            if !rest.is_empty() {
                out.fail("c01.uri/trailing", format!("{text:?} leaves {rest:?} unparsed"));
            }
            report(out, "c01.uri", diff_uri(&c.uri, &uri_back(&got, &c.uri), ctx, ""));
            let again = with_ctx(&c.ctx, |p| got.print_ctx(p).to_string());
            if again != text.as_str() {
                out.fail("c01.uri/fixpoint", format!("{text:?} re-prints as {again:?}"));
            }
        }
        Err(e) => out.fail("c01.uri/rejected", format!("printed {text:?} is rejected by SipUri::parse: {e}")),
    }
}

// =============================================================================================
// sub-check: name_addr

#[derive(Clone, Debug, Serialize, Deserialize)]
pub struct NameAddrCase {
    na: NameAddrC,
    ctx: CtxC,
}

fn name_addr_case() -> BoxedStrategy<NameAddrCase> {
    (name_addr(SMALL), print_ctx()).prop_map(|(na, ctx)| NameAddrCase { na, ctx }).boxed()
}

fn diff_name_addr(orig: &NameAddrC, got: &Option<NameAddrC>, ctx: Ctx) -> Diffs {
    let mut d = vec![];
    match got {
        None => push(&mut d, "uri-type", s("re-parsed URI is not a SipUri")),
        Some(g) => {
            if g.name != orig.name {
                push(&mut d, "display-name", format!("{:?} -> {:?}", orig.name, g.name));
            }
            d.extend(diff_uri(&orig.uri, &g.uri, ctx, "uri."));
        }
    }
    d
}

fn check_name_addr_text(text: &str, orig: &NameAddrC, ctx: Ctx) -> Diffs {
    let mut d = vec![];
    match rs::split_name_addr(text) {
        Ok(r) => {
            let want = orig.name.as_ref().map(|n| format!("\"{n}\""));
            if r.display != want {
                push(&mut d, "text.display-name", format!("text {text:?} has display name {:?}, generated {:?}", r.display, orig.name));
            }
            d.extend(check_uri_text(&r.uri, &orig.uri, ctx, "uri."));
        }
        Err(e) => push(&mut d, "text.split", format!("ref_sip cannot split {text:?}: {e}")),
    }
    d
}

fn check_name_addr(c: &NameAddrCase, out: &mut CaseOut) {
    let ctx = Ctx::of(&c.ctx);
    class_ctx(ctx, out);
    let interesting = classes_uri(&c.na.uri, out);
    match &c.na.name {
        None => out.class("display-name:none"),
        Some(n) => {
            out.class("display-name:some");
            if !n.is_ascii() {
                out.class("display-name:multibyte");
            }
        }
    }
    if interesting || ctx.forces_omission(&c.na.uri) {
        out.nontrivial(&key(c));
    }
    let v = to_name_addr(&c.na);
    let text = BytesStr::from(with_ctx(&c.ctx, |p| v.print_ctx(p).to_string()));
    out.note = Some(text.to_string());
    report(out, "c01.name_addr", check_name_addr_text(&text, &c.na, ctx));
    match parse_with(&text, |pc, i| NameAddr::parse(pc)(i)) {
        Ok((rest, got)) => {
            if !rest.is_empty() {
                out.fail("c01.name_addr/trailing", format!("{text:?} leaves {rest:?} unparsed"));
            }
            report(out, "c01.name_addr", diff_name_addr(&c.na, &name_addr_back(&got, &c.na), ctx));
            let again = with_ctx(&c.ctx, |p| got.print_ctx(p).to_string());
            if again != text.as_str() {
                out.fail("c01.name_addr/fixpoint", format!("{text:?} re-prints as {again:?}"));
            }
        }
        Err(e) => out.fail("c01.name_addr/rejected", format!("printed {text:?} is rejected by NameAddr::parse: {e}")),
    }
}

// =============================================================================================
// typed headers: mirrors

#[derive(Clone, Debug, Serialize, Deserialize, PartialEq, Eq)]
pub struct ViaC {
    transport: String,
    sent_by: HostPortC,
    params: Vec<ParamC>,
}

#[derive(Clone, Debug, Serialize, Deserialize, PartialEq, Eq)]
pub struct FromToC {
    addr: NameAddrC,
    tag: Option<String>,
    params: Vec<ParamC>,
}

/// Contact and Route/Record-Route
#[derive(Clone, Debug, Serialize, Deserialize, PartialEq, Eq)]
pub struct AddrParamsC {
    addr: NameAddrC,
    params: Vec<ParamC>,
}

#[derive(Clone, Debug, Serialize, Deserialize, PartialEq, Eq)]
pub struct CSeqC {
    cseq: u32,
    method: String,
}

#[derive(Clone, Debug, Serialize, Deserialize, PartialEq, Eq)]
pub struct RAckC {
    rack: u32,
    cseq: u32,
    method: String,
}

#[derive(Clone, Debug, Serialize, Deserialize, PartialEq, Eq)]
pub struct SessionExpiresC {
    delta: u32,
    /// 0 unspecified, 1 uas, 2 uac
    refresher: u8,
}

#[derive(Clone, Debug, Serialize, Deserialize, PartialEq, Eq)]
pub struct ReplacesC {
    call_id: String,
    from_tag: String,
    to_tag: String,
    early_only: bool,
}

#[derive(Clone, Debug, Serialize, Deserialize, PartialEq, Eq)]
pub struct RetryAfterC {
    value: u32,
    params: Vec<ParamC>,
    comment: Option<String>,
}

#[derive(Clone, Debug, Serialize, Deserialize, PartialEq, Eq)]
pub enum ReasonC {
    /// index into deactivated, probation, rejected, timeout, giveup, noresource, invariant
    Known(u8),
    Other(String),
}

#[derive(Clone, Debug, Serialize, Deserialize, PartialEq, Eq)]
pub struct SubStateC {
    /// 0 active, 1 pending, 2 terminated
    state: u8,
    expires: Option<u32>,
    reason: Option<ReasonC>,
    retry_after: Option<u32>,
    params: Vec<ParamC>,
}

#[derive(Clone, Debug, Serialize, Deserialize, PartialEq, Eq)]
pub enum AlgC {
    /// index into MD5, MD5-sess, SHA-256, SHA-256-sess, SHA-512-256, SHA-512-256-sess
    Known(u8),
    Other(String),
}

#[derive(Clone, Debug, Serialize, Deserialize, PartialEq, Eq)]
pub enum QopC {
    Auth,
    AuthInt,
    Other(String),
}

#[derive(Clone, Debug, Serialize, Deserialize, PartialEq, Eq)]
pub enum ChallengeC {
    Digest {
        realm: String,
        domain: Option<String>,
        nonce: String,
        opaque: Option<String>,
        stale: bool,
        algorithm: AlgC,
        qop: Vec<QopC>,
        userhash: bool,
        other: Vec<(String, String)>,
    },
    Other { scheme: String, params: Vec<(String, String)> },
}

#[derive(Clone, Debug, Serialize, Deserialize, PartialEq, Eq)]
pub enum UsernameC {
    /// `Username::Username(qdtext)`
    Plain(String),
    /// built with `Username::new(any UTF-8 string)`, which picks the variant and encodes
    New(String),
}

#[derive(Clone, Debug, Serialize, Deserialize, PartialEq, Eq)]
pub enum AuthRespC {
    Digest {
        username: UsernameC,
        realm: String,
        nonce: String,
        uri: String,
        response: String,
        algorithm: AlgC,
        opaque: Option<String>,
        qop: Option<(QopC, String, u32)>,
        userhash: bool,
        other: Vec<(String, String)>,
    },
    Other { scheme: String, params: Vec<(String, String)> },
}

#[derive(Clone, Debug, Serialize, Deserialize)]
pub enum HeaderC {
    Via(Vec<ViaC>),
    From(FromToC),
    To(FromToC),
    Contact(Vec<AddrParamsC>),
    Route(Vec<AddrParamsC>),
    RecordRoute(Vec<AddrParamsC>),
    CSeq(CSeqC),
    RAck(RAckC),
    RSeq(u32),
    CallId(String),
    MaxForwards(u32),
    Expires(u32),
    MinExpires(u32),
    MinSe(u32),
    SessionExpires(SessionExpiresC),
    ContentLength(u64),
    ContentType(String),
    Event(String),
    Accept(Vec<String>),
    Allow(Vec<String>),
    AllowEvents(Vec<String>),
    Supported(Vec<String>),
    Require(Vec<String>),
    Replaces(ReplacesC),
    RetryAfter(RetryAfterC),
    SubscriptionState(SubStateC),
    WwwAuthenticate(Vec<ChallengeC>),
    ProxyAuthenticate(Vec<ChallengeC>),
    Authorization(Vec<AuthRespC>),
    ProxyAuthorization(Vec<AuthRespC>),
}

#[derive(Clone, Debug, Serialize, Deserialize)]
pub struct HeaderCase {
    h: HeaderC,
    /// list headers: insert the items one by one instead of as one Vec
    one_by_one: bool,
    /// method of the message the header is printed for (direct print path and ExtendValues-with-context path)
    method: MethodCtxC,
    /// ExtendValues-with-context path, list headers: bit i-1 set = item i (i >= 1) starts a header line of its own
    /// (`create_values(ctx)` pushed onto the `OneOrMore`), clear = it is appended with `extend_values(ctx, ..)`.
    /// 0 together with `one_by_one == false` builds everything with one `Vec<H>::create_values(ctx)` call.
    #[serde(default)]
    layout: u8,
}

// =============================================================================================
// typed headers: generators

const REASONS: [&str; 7] = ["deactivated", "probation", "rejected", "timeout", "giveup", "noresource", "invariant"];
const ALGS: [&str; 6] = ["MD5", "MD5-sess", "SHA-256", "SHA-256-sess", "SHA-512-256", "SHA-512-256-sess"];
const CHALLENGE_FIELDS: [&str; 8] = ["realm", "domain", "nonce", "opaque", "stale", "algorithm", "qop", "userhash"];
const RESPONSE_FIELDS: [&str; 12] = ["username", "username*", "realm", "nonce", "uri", "response", "algorithm", "opaque", "qop", "cnonce", "nc", "userhash"];

fn num32() -> BoxedStrategy<u32> {
    prop_oneof![2 => sel_u32(&[0, 1, 70, 3600, u32::MAX, u32::MAX - 1, 1 << 31]), 3 => any::<u32>(), 1 => 0u32..1000].boxed()
}
fn sel_u32(v: &[u32]) -> BoxedStrategy<u32> {
    select(v.to_vec()).boxed()
}

fn via(sz: Sz) -> BoxedStrategy<ViaC> {
    (prop_oneof![3 => sel(&["UDP", "TCP", "TLS", "SCTP", "WS", "udp"]), 2 => token(6)], host_port(), hdr_params(sz, &[]))
        .prop_map(|(transport, sent_by, params)| ViaC { transport, sent_by, params })
        .boxed()
}

fn from_to(sz: Sz) -> BoxedStrategy<FromToC> {
    (name_addr(sz), proptest::option::weighted(0.7, token(sz.s.min(24))), hdr_params(sz, &["tag"]))
        .prop_map(|(addr, tag, params)| FromToC { addr, tag, params })
        .boxed()
}

fn addr_params(sz: Sz) -> BoxedStrategy<AddrParamsC> {
    (name_addr(sz), hdr_params(sz, &[])).prop_map(|(addr, params)| AddrParamsC { addr, params }).boxed()
}

fn list<T: std::fmt::Debug + Clone + 'static>(item: BoxedStrategy<T>) -> BoxedStrategy<Vec<T>> {
    prop_oneof![2 => vec(item.clone(), 1..=1), 3 => vec(item, 2..=4)].boxed()
}

fn alg() -> BoxedStrategy<AlgC> {
    prop_oneof![
        4 => (0u8..6).prop_map(AlgC::Known),
        1 => token(8).prop_map(|mut t| {
            if ALGS.iter().any(|a| a.eq_ignore_ascii_case(&t)) {
                t.push_str("-x");
            }
            AlgC::Other(t)
        }),
    ]
    .boxed()
}

fn qop() -> BoxedStrategy<QopC> {
    prop_oneof![
        2 => Just(QopC::Auth),
        2 => Just(QopC::AuthInt),
        1 => token(8).prop_map(|mut t| {
            if t == "auth" || t == "auth-int" {
                t.push_str("-x");
            }
            QopC::Other(t)
        }),
    ]
    .boxed()
}

fn auth_params(excluded: &'static [&'static str], min: usize) -> BoxedStrategy<Vec<(String, String)>> {
    vec((prop_oneof![2 => plain_token(8), 1 => token(8)], qdtext(12)), min..=3)
        .prop_map(move |mut v| {
            for (n, _) in v.iter_mut() {
                if excluded.iter().any(|e| e == n) {
                    n.push_str("-x");
                }
            }
            v
        })
        .boxed()
}

fn scheme() -> BoxedStrategy<String> {
    prop_oneof![2 => sel(&["Basic", "Bearer", "OAuth", "digest", "AKAv1-MD5"]), 1 => token(8)]
        .prop_map(|mut t| {
            if t == "Digest" {
                t.push_str("-x");
            }
            t
        })
        .boxed()
}

fn challenge() -> BoxedStrategy<ChallengeC> {
    let digest = (
        (qdtext(12), proptest::option::of(qdtext(12)), qdtext(16), proptest::option::of(qdtext(12))),
        (any::<bool>(), alg(), vec(qop(), 0..=3), any::<bool>(), auth_params(&CHALLENGE_FIELDS, 0)),
    )
        .prop_map(|((realm, domain, nonce, opaque), (stale, algorithm, qop, userhash, other))| ChallengeC::Digest {
            realm,
            domain,
            nonce,
            opaque,
            stale,
            algorithm,
            qop,
            userhash,
            other,
        });
    prop_oneof![
        4 => digest,
        1 => (scheme(), auth_params(&[], 1)).prop_map(|(scheme, params)| ChallengeC::Other { scheme, params }),
    ]
    .boxed()
}

fn auth_response() -> BoxedStrategy<AuthRespC> {
    let username = prop_oneof![
        2 => qdtext(12).prop_map(UsernameC::Plain),
        3 => esc_string(10).prop_map(UsernameC::New),
        1 => "[a-z]{1,8}".prop_map(UsernameC::New),
    ];
    let digest = (
        (username, qdtext(12), qdtext(16), qdtext(24), qdtext(32)),
        (alg(), proptest::option::of(qdtext(12)), proptest::option::of((qop(), qdtext(12), prop_oneof![any::<u32>(), 0u32..20])), any::<bool>(), auth_params(&RESPONSE_FIELDS, 0)),
    )
        .prop_map(|((username, realm, nonce, uri, response), (algorithm, opaque, qop, userhash, other))| {
            // userhash=true together with username* is rejected by the parser by design (RFC 7616 3.4.4)
            let userhash = userhash && matches!(&username, UsernameC::Plain(_));
            AuthRespC::Digest { username, realm, nonce, uri, response, algorithm, opaque, qop, userhash, other }
        });
    prop_oneof![
        4 => digest,
        1 => (scheme(), auth_params(&[], 1)).prop_map(|(scheme, params)| AuthRespC::Other { scheme, params }),
    ]
    .boxed()
}

/// option tags, event types, media ranges: comma-free, whitespace-free items
fn csv_item() -> BoxedStrategy<String> {
    prop_oneof![
        3 => sel(&["100rel", "timer", "replaces", "path", "presence", "dialog", "application/sdp", "*/*", "text/plain;q=0.5", "presence.winfo"]),
        2 => token(10),
    ]
    .boxed()
}

fn media_type() -> BoxedStrategy<String> {
    prop_oneof![
        2 => sel(&["application/sdp", "text/plain;charset=utf-8", "multipart/mixed;boundary=\"a b\"", "message/sipfrag"]),
        1 => (token(6), token(6), proptest::option::of((token(5), token(5)))).prop_map(|(a, b, p)| match p {
            None => format!("{a}/{b}"),
            Some((n, v)) => format!("{a}/{b};{n}={v}"),
        }),
    ]
    .boxed()
}

fn event() -> BoxedStrategy<String> {
    prop_oneof![
        2 => sel(&["presence", "dialog;id=5", "refer;id=93809824", "message-summary", "presence.winfo"]),
        1 => (token(8), proptest::option::of(token(6))).prop_map(|(a, id)| match id {
            None => a,
            Some(id) => format!("{a};id={id}"),
        }),
    ]
    .boxed()
}

fn comment_text() -> BoxedStrategy<String> {
    // ctext without parentheses and backslash; non-empty
    let atom = prop_oneof![
        8 => "[a-zA-Z0-9]",
        3 => sel(&[" ", "!", "\"", "#", "$", "%", "&", "'", "*", "+", ",", "-", ".", "/", ":", ";", "<", "=", ">", "?", "@", "[", "]", "^", "_", "`", "{", "|", "}", "~"]),
        1 => multibyte_char().prop_map(|c| c.to_string()),
    ];
    vec(atom, 1..=12).prop_map(|v| v.concat()).boxed()
}

fn reason() -> BoxedStrategy<ReasonC> {
    prop_oneof![
        3 => (0u8..7).prop_map(ReasonC::Known),
        1 => token(8).prop_map(|mut t| {
            if REASONS.contains(&t.as_str()) {
                t.push_str("-x");
            }
            ReasonC::Other(t)
        }),
    ]
    .boxed()
}

fn header(sz: Sz) -> BoxedStrategy<HeaderC> {
    let mt = || method_token();
    prop_oneof![
        4 => list(via(sz)).prop_map(HeaderC::Via),
        4 => from_to(sz).prop_map(HeaderC::From),
        3 => from_to(sz).prop_map(HeaderC::To),
        5 => list(addr_params(sz)).prop_map(HeaderC::Contact),
        3 => list(addr_params(sz)).prop_map(HeaderC::Route),
        3 => list(addr_params(sz)).prop_map(HeaderC::RecordRoute),
        2 => (num32(), mt()).prop_map(|(cseq, method)| HeaderC::CSeq(CSeqC { cseq, method })),
        2 => (num32(), num32(), mt()).prop_map(|(rack, cseq, method)| HeaderC::RAck(RAckC { rack, cseq, method })),
        1 => num32().prop_map(HeaderC::RSeq),
        2 => call_id().prop_map(HeaderC::CallId),
        1 => num32().prop_map(HeaderC::MaxForwards),
        1 => num32().prop_map(HeaderC::Expires),
        1 => num32().prop_map(HeaderC::MinExpires),
        1 => num32().prop_map(HeaderC::MinSe),
        1 => (num32(), 0u8..3).prop_map(|(delta, refresher)| HeaderC::SessionExpires(SessionExpiresC { delta, refresher })),
        1 => prop_oneof![any::<u64>(), 0u64..5000, Just(u64::MAX)].prop_map(HeaderC::ContentLength),
        1 => media_type().prop_map(HeaderC::ContentType),
        1 => event().prop_map(HeaderC::Event),
        2 => list(csv_item()).prop_map(HeaderC::Accept),
        2 => list(mt()).prop_map(HeaderC::Allow),
        2 => list(csv_item()).prop_map(HeaderC::AllowEvents),
        2 => list(csv_item()).prop_map(HeaderC::Supported),
        2 => list(csv_item()).prop_map(HeaderC::Require),
        2 => (call_id(), token(10), token(10), any::<bool>()).prop_map(|(call_id, from_tag, to_tag, early_only)| HeaderC::Replaces(ReplacesC {
            call_id,
            from_tag,
            to_tag,
            early_only
        })),
        2 => (num32(), hdr_params(sz, &[]), prop_oneof![
            6 => Just(None),
            6 => comment_text().prop_map(Some),
            // comment = LPAREN *(ctext / quoted-pair / comment) RPAREN: empty and nested comments are in the grammar
            1 => Just(Some(String::new())),
            1 => (comment_text(), comment_text()).prop_map(|(a, b)| Some(format!("{a}({b})"))),
        ])
            .prop_map(|(value, params, comment)| HeaderC::RetryAfter(RetryAfterC { value, params, comment })),
        2 => (0u8..3, proptest::option::of(num32()), proptest::option::of(reason()), proptest::option::of(num32()), hdr_params(sz, &["expires", "reason", "retry-after"]))
            .prop_map(|(state, expires, reason, retry_after, params)| HeaderC::SubscriptionState(SubStateC { state, expires, reason, retry_after, params })),
        2 => vec(challenge(), 1..=3).prop_map(HeaderC::WwwAuthenticate),
        1 => vec(challenge(), 1..=3).prop_map(HeaderC::ProxyAuthenticate),
        2 => vec(auth_response(), 1..=2).prop_map(HeaderC::Authorization),
        1 => vec(auth_response(), 1..=2).prop_map(HeaderC::ProxyAuthorization),
    ]
    .boxed()
}

fn layout() -> BoxedStrategy<u8> {
    prop_oneof![3 => Just(0u8), 3 => 0u8..8, 1 => any::<u8>()].boxed()
}

fn header_case_small() -> BoxedStrategy<HeaderCase> {
    (header(SMALL), any::<bool>(), method_ctx(), layout()).prop_map(|(h, one_by_one, method, layout)| HeaderCase { h, one_by_one, method, layout }).boxed()
}
fn header_case_large() -> BoxedStrategy<HeaderCase> {
    (header(LARGE), any::<bool>(), method_ctx(), layout()).prop_map(|(h, one_by_one, method, layout)| HeaderCase { h, one_by_one, method, layout }).boxed()
}

// =============================================================================================
// typed headers: kinds (mirror <-> ezk) and the generic round-trip driver

trait HK {
    type H: HeaderParse + ExtendValues;
    type M: Clone + std::fmt::Debug;
    const LABEL: &'static str;
    /// the URI context the header sets itself when it is put into `Headers` (PrintCtx::default())
    const DEFAULT_CTX: Ctx = Ctx::External;
    fn build(m: &Self::M) -> Self::H;
    fn back(h: &Self::H, orig: &Self::M) -> Self::M;
    fn diff(orig: &Self::M, got: &Self::M, ctx: Ctx) -> Diffs;
    /// the Table 1 column that applies when the header is printed for a message with the given method
    fn method_ctx(_m: &MethodCtxC) -> Ctx {
        Self::DEFAULT_CTX
    }
    /// print the header directly for a message with the given method (headers that implement Print
    /// and contain a URI); returns the text and the Table 1 column that applies
    fn direct(_h: &Self::H, _m: &MethodCtxC) -> Option<(String, Ctx)> {
        None
    }
    /// second reading of one printed item with ref_sip
    fn text_check(_text: &str, _orig: &Self::M, _ctx: Ctx) -> Diffs {
        vec![]
    }
}

fn eq_diff<T: PartialEq + std::fmt::Debug>(d: &mut Diffs, field: &str, a: &T, b: &T) {
    if a != b {
        push(d, field, format!("generated {a:?}, re-parsed {b:?}"));
    }
}

fn params_diff(d: &mut Diffs, field: &str, a: &[ParamC], b: &[ParamC]) {
    if let Err(e) = match_params(a, b, |_| Rule::Keep) {
        push(d, field, format!("{e} (generated {a:?}, re-parsed {b:?})"));
    }
}

/// header-level params as text (ref_sip): order and escaping
fn check_hdr_params_text(raw: &[(String, Option<String>)], orig: &[ParamC], skip: &[&str], d: &mut Diffs) {
    let raw: Vec<(String, Option<String>)> = raw.iter().filter(|(n, _)| !skip.contains(&n.as_str())).cloned().collect();
    if let Some(ps) = decode_pairs(&raw, "hdr-param", param_raw_ok, "", d) {
        if let Err(e) = match_params(orig, &ps, |_| Rule::Keep) {
            push(d, "text.params", format!("{e} (text params {ps:?}, generated {orig:?})"));
        }
    }
}

// ---- Via
struct ViaK;
impl HK for ViaK {
    type H = Via;
    type M = ViaC;
    const LABEL: &'static str = "via";
    fn build(m: &ViaC) -> Via {
        Via { transport: bs(&m.transport), sent_by: to_hp(&m.sent_by), params: to_params(&m.params) }
    }
    fn back(h: &Via, o: &ViaC) -> ViaC {
        ViaC { transport: h.transport.to_string(), sent_by: hp_back(&h.sent_by), params: params_back(&h.params, &o.params) }
    }
    fn diff(o: &ViaC, g: &ViaC, _: Ctx) -> Diffs {
        let mut d = vec![];
        eq_diff(&mut d, "transport", &o.transport, &g.transport);
        eq_diff(&mut d, "sent-by", &o.sent_by, &g.sent_by);
        params_diff(&mut d, "params", &o.params, &g.params);
        d
    }
    fn text_check(text: &str, o: &ViaC, _: Ctx) -> Diffs {
        let mut d = vec![];
        let (_, raw) = rs::split_semi_params(text);
        check_hdr_params_text(&raw, &o.params, &[], &mut d);
        d
    }
}

// ---- From / To
struct FromToK;
impl HK for FromToK {
    type H = FromTo;
    type M = FromToC;
    const LABEL: &'static str = "from-to";
    const DEFAULT_CTX: Ctx = Ctx::FromTo;
    fn build(m: &FromToC) -> FromTo {
        FromTo { uri: to_name_addr(&m.addr), tag: m.tag.as_deref().map(bs), params: to_params(&m.params) }
    }
    fn back(h: &FromTo, o: &FromToC) -> FromToC {
        FromToC {
            addr: name_addr_back(&h.uri, &o.addr).unwrap_or_else(|| NameAddrC { name: Some(s("<not a SipUri>")), uri: o.addr.uri.clone() }),
            tag: h.tag.as_ref().map(|t| t.to_string()),
            params: params_back(&h.params, &o.params),
        }
    }
    fn diff(o: &FromToC, g: &FromToC, ctx: Ctx) -> Diffs {
        let mut d = diff_name_addr(&o.addr, &Some(g.addr.clone()), ctx);
        eq_diff(&mut d, "tag", &o.tag, &g.tag);
        params_diff(&mut d, "params", &o.params, &g.params);
        d
    }
    fn direct(h: &FromTo, m: &MethodCtxC) -> Option<(String, Ctx)> {
        let c = CtxC { uri: None, method: m.clone() };
        Some((with_ctx(&c, |p| h.print_ctx(p).to_string()), Ctx::FromTo))
    }
    fn text_check(text: &str, o: &FromToC, ctx: Ctx) -> Diffs {
        let mut d = check_name_addr_text_with_params(text, &o.addr, ctx);
        if let Ok(r) = rs::split_name_addr(text) {
            let tag = r.params.iter().find(|(n, _)| n == "tag").and_then(|(_, v)| v.clone());
            // the tag is a raw token component: only its presence is read here
            if tag.is_some() != o.tag.is_some() {
                push(&mut d, "text.tag", format!("text {text:?}, generated tag {:?}", o.tag));
            }
            check_hdr_params_text(&r.params, &o.params, &["tag"], &mut d);
        }
        d
    }
}

fn check_name_addr_text_with_params(text: &str, orig: &NameAddrC, ctx: Ctx) -> Diffs {
    // the name-addr part ends at the '>' that closes the URI; header params follow
    match rs::split_name_addr(text) {
        Ok(r) => {
            let mut d = vec![];
            let want = orig.name.as_ref().map(|n| format!("\"{n}\""));
            if r.display != want {
                push(&mut d, "text.display-name", format!("text {text:?} has display name {:?}, generated {:?}", r.display, orig.name));
            }
            d.extend(check_uri_text(&r.uri, &orig.uri, ctx, "uri."));
            d
        }
        Err(e) => vec![(s("text.split"), format!("ref_sip cannot split {text:?}: {e}"))],
    }
}

// ---- Contact
struct ContactK;
impl HK for ContactK {
    type H = Contact;
    type M = AddrParamsC;
    const LABEL: &'static str = "contact";
    const DEFAULT_CTX: Ctx = Ctx::ContactAny;
    fn build(m: &AddrParamsC) -> Contact {
        Contact { uri: to_name_addr(&m.addr), params: to_params(&m.params) }
    }
    fn back(h: &Contact, o: &AddrParamsC) -> AddrParamsC {
        AddrParamsC {
            addr: name_addr_back(&h.uri, &o.addr).unwrap_or_else(|| NameAddrC { name: Some(s("<not a SipUri>")), uri: o.addr.uri.clone() }),
            params: params_back(&h.params, &o.params),
        }
    }
    fn diff(o: &AddrParamsC, g: &AddrParamsC, ctx: Ctx) -> Diffs {
        let mut d = diff_name_addr(&o.addr, &Some(g.addr.clone()), ctx);
        params_diff(&mut d, "params", &o.params, &g.params);
        d
    }
    fn method_ctx(m: &MethodCtxC) -> Ctx {
        Ctx::of(&CtxC { uri: Some(UriCtxC::Contact), method: m.clone() })
    }
    fn direct(h: &Contact, m: &MethodCtxC) -> Option<(String, Ctx)> {
        Some((with_ctx(&CtxC { uri: None, method: m.clone() }, |p| h.print_ctx(p).to_string()), Self::method_ctx(m)))
    }
    fn text_check(text: &str, o: &AddrParamsC, ctx: Ctx) -> Diffs {
        let mut d = check_name_addr_text_with_params(text, &o.addr, ctx);
        if let Ok(r) = rs::split_name_addr(text) {
            check_hdr_params_text(&r.params, &o.params, &[], &mut d);
        }
        d
    }
}

// ---- Route / Record-Route
struct RoutingK;
impl HK for RoutingK {
    type H = Routing;
    type M = AddrParamsC;
    const LABEL: &'static str = "routing";
    const DEFAULT_CTX: Ctx = Ctx::Routing;
    fn build(m: &AddrParamsC) -> Routing {
        Routing { uri: to_name_addr(&m.addr), params: to_params(&m.params) }
    }
    fn back(h: &Routing, o: &AddrParamsC) -> AddrParamsC {
        AddrParamsC {
            addr: name_addr_back(&h.uri, &o.addr).unwrap_or_else(|| NameAddrC { name: Some(s("<not a SipUri>")), uri: o.addr.uri.clone() }),
            params: params_back(&h.params, &o.params),
        }
    }
    fn diff(o: &AddrParamsC, g: &AddrParamsC, ctx: Ctx) -> Diffs {
        ContactK::diff(o, g, ctx)
    }
    fn direct(h: &Routing, m: &MethodCtxC) -> Option<(String, Ctx)> {
        Some((with_ctx(&CtxC { uri: None, method: m.clone() }, |p| h.print_ctx(p).to_string()), Ctx::Routing))
    }
    fn text_check(text: &str, o: &AddrParamsC, ctx: Ctx) -> Diffs {
        ContactK::text_check(text, o, ctx)
    }
}

// ---- CSeq, RAck
struct CSeqK;
impl HK for CSeqK {
    type H = CSeq;
    type M = CSeqC;
    const LABEL: &'static str = "cseq";
    fn build(m: &CSeqC) -> CSeq {
        CSeq::new(m.cseq, Method::from(m.method.as_str()))
    }
    fn back(h: &CSeq, _: &CSeqC) -> CSeqC {
        CSeqC { cseq: h.cseq, method: h.method.to_string() }
    }
    fn diff(o: &CSeqC, g: &CSeqC, _: Ctx) -> Diffs {
        let mut d = vec![];
        eq_diff(&mut d, "cseq", &o.cseq, &g.cseq);
        if !expected_method_text(&o.method).contains(&g.method) {
            push(&mut d, "method", format!("generated {:?}, re-parsed {:?}", o.method, g.method));
        }
        d
    }
}

struct RAckK;
impl HK for RAckK {
    type H = RAck;
    type M = RAckC;
    const LABEL: &'static str = "rack";
    fn build(m: &RAckC) -> RAck {
        RAck::new(m.rack, m.cseq, Method::from(m.method.as_str()))
    }
    fn back(h: &RAck, _: &RAckC) -> RAckC {
        RAckC { rack: h.rack, cseq: h.cseq, method: h.method.to_string() }
    }
    fn diff(o: &RAckC, g: &RAckC, _: Ctx) -> Diffs {
        let mut d = vec![];
        eq_diff(&mut d, "rack", &o.rack, &g.rack);
        eq_diff(&mut d, "cseq", &o.cseq, &g.cseq);
        if !expected_method_text(&o.method).contains(&g.method) {
            push(&mut d, "method", format!("generated {:?}, re-parsed {:?}", o.method, g.method));
        }
        d
    }
    fn text_check(text: &str, o: &RAckC, _: Ctx) -> Diffs {
        // RFC 3262: RAck = response-num LWS CSeq-num LWS Method
        let parts: Vec<&str> = text.split_whitespace().collect();
        let ok = parts.len() == 3 && parts[0] == o.rack.to_string() && parts[1] == o.cseq.to_string() && expected_method_text(&o.method).iter().any(|m| m == parts[2]);
        if ok {
            vec![]
        } else {
            vec![(s("text.order"), format!("{o:?} printed as {text:?}"))]
        }
    }
}

// ---- simple wrappers
macro_rules! simple_kind {
    ($k:ident, $h:ty, $m:ty, $label:literal, $build:expr, $back:expr) => {
        struct $k;
        impl HK for $k {
            type H = $h;
            type M = $m;
            const LABEL: &'static str = $label;
            fn build(m: &$m) -> $h {
                ($build)(m)
            }
            fn back(h: &$h, _: &$m) -> $m {
                ($back)(h)
            }
            fn diff(o: &$m, g: &$m, _: Ctx) -> Diffs {
                let mut d = vec![];
                eq_diff(&mut d, "value", o, g);
                d
            }
        }
    };
}

simple_kind!(RSeqK, RSeq, u32, "rseq", |m: &u32| RSeq(*m), |h: &RSeq| h.0);
simple_kind!(MaxForwardsK, MaxForwards, u32, "max-forwards", |m: &u32| MaxForwards(*m), |h: &MaxForwards| h.0);
simple_kind!(ExpiresK, Expires, u32, "expires", |m: &u32| Expires(*m), |h: &Expires| h.0);
simple_kind!(MinExpiresK, MinExpires, u32, "min-expires", |m: &u32| MinExpires(*m), |h: &MinExpires| h.0);
simple_kind!(MinSeK, MinSe, u32, "min-se", |m: &u32| MinSe(*m), |h: &MinSe| h.0);
simple_kind!(ContentLengthK, ContentLength, u64, "content-length", |m: &u64| ContentLength(*m as usize), |h: &ContentLength| h.0 as u64);
simple_kind!(CallIdK, CallID, String, "call-id", |m: &String| CallID::new(m.as_str()), |h: &CallID| h.0.to_string());
simple_kind!(ContentTypeK, ContentType, String, "content-type", |m: &String| ContentType(bs(m)), |h: &ContentType| h.0.to_string());
simple_kind!(EventK, Event, String, "event", |m: &String| Event::new(m.as_str()), |h: &Event| h.0.to_string());
simple_kind!(AcceptK, Accept, String, "accept", |m: &String| Accept(bs(m)), |h: &Accept| h.0.to_string());
simple_kind!(AllowEventsK, AllowEvents, String, "allow-events", |m: &String| AllowEvents(bs(m)), |h: &AllowEvents| h.0.to_string());
simple_kind!(SupportedK, Supported, String, "supported", |m: &String| Supported(bs(m)), |h: &Supported| h.0.to_string());
simple_kind!(RequireK, Require, String, "require", |m: &String| Require(bs(m)), |h: &Require| h.0.to_string());
struct SessionExpiresK;
impl HK for SessionExpiresK {
    type H = SessionExpires;
    type M = SessionExpiresC;
    const LABEL: &'static str = "session-expires";
    fn build(m: &SessionExpiresC) -> SessionExpires {
        SessionExpires {
            delta_secs: m.delta,
            refresher: match m.refresher {
                1 => Refresher::Uas,
                2 => Refresher::Uac,
                _ => Refresher::Unspecified,
            },
        }
    }
    fn back(h: &SessionExpires, _: &SessionExpiresC) -> SessionExpiresC {
        SessionExpiresC {
            delta: h.delta_secs,
            refresher: match h.refresher {
                Refresher::Unspecified => 0,
                Refresher::Uas => 1,
                Refresher::Uac => 2,
            },
        }
    }
    fn diff(o: &SessionExpiresC, g: &SessionExpiresC, _: Ctx) -> Diffs {
        let mut d = vec![];
        eq_diff(&mut d, "delta", &o.delta, &g.delta);
        eq_diff(&mut d, "refresher", &o.refresher, &g.refresher);
        d
    }
    fn text_check(text: &str, o: &SessionExpiresC, _: Ctx) -> Diffs {
        // RFC 4028: Session-Expires = delta-seconds *(SEMI se-params), refresher-param = "refresher" EQUAL ("uas" / "uac")
        let (first, params) = rs::split_semi_params(text);
        let want = match o.refresher {
            1 => Some("uas"),
            2 => Some("uac"),
            _ => None,
        };
        let got = rs::param(&params, "refresher").and_then(|(_, v)| v.clone());
        if first == o.delta.to_string() && got.as_deref() == want {
            vec![]
        } else {
            vec![(s("text"), format!("{o:?} printed as {text:?}"))]
        }
    }
}
simple_kind!(
    ReplacesK0,
    Replaces,
    ReplacesC,
    "replaces0",
    |m: &ReplacesC| Replaces { call_id: bs(&m.call_id), from_tag: bs(&m.from_tag), to_tag: bs(&m.to_tag), early_only: m.early_only },
    |h: &Replaces| ReplacesC { call_id: h.call_id.to_string(), from_tag: h.from_tag.to_string(), to_tag: h.to_tag.to_string(), early_only: h.early_only }
);

struct ReplacesK;
impl HK for ReplacesK {
    type H = Replaces;
    type M = ReplacesC;
    const LABEL: &'static str = "replaces";
    fn build(m: &ReplacesC) -> Replaces {
        ReplacesK0::build(m)
    }
    fn back(h: &Replaces, o: &ReplacesC) -> ReplacesC {
        ReplacesK0::back(h, o)
    }
    fn diff(o: &ReplacesC, g: &ReplacesC, _: Ctx) -> Diffs {
        let mut d = vec![];
        eq_diff(&mut d, "call-id", &o.call_id, &g.call_id);
        eq_diff(&mut d, "from-tag", &o.from_tag, &g.from_tag);
        eq_diff(&mut d, "to-tag", &o.to_tag, &g.to_tag);
        eq_diff(&mut d, "early-only", &o.early_only, &g.early_only);
        d
    }
}

struct AllowK;
impl HK for AllowK {
    type H = Allow;
    type M = String;
    const LABEL: &'static str = "allow";
    fn build(m: &String) -> Allow {
        Allow(Method::from(m.as_str()))
    }
    fn back(h: &Allow, _: &String) -> String {
        h.0.to_string()
    }
    fn diff(o: &String, g: &String, _: Ctx) -> Diffs {
        if expected_method_text(o).contains(g) {
            vec![]
        } else {
            vec![(s("method"), format!("generated {o:?}, re-parsed {g:?}"))]
        }
    }
}

// ---- Retry-After
struct RetryAfterK;
impl HK for RetryAfterK {
    type H = RetryAfter;
    type M = RetryAfterC;
    const LABEL: &'static str = "retry-after";
    fn build(m: &RetryAfterC) -> RetryAfter {
        let mut r = RetryAfter::new(m.value);
        r.params = to_params(&m.params);
        r.comment = m.comment.as_deref().map(bs);
        r
    }
    fn back(h: &RetryAfter, o: &RetryAfterC) -> RetryAfterC {
        RetryAfterC { value: h.value, params: params_back(&h.params, &o.params), comment: h.comment.as_ref().map(|c| c.to_string()) }
    }
    fn diff(o: &RetryAfterC, g: &RetryAfterC, _: Ctx) -> Diffs {
        let mut d = vec![];
        eq_diff(&mut d, "value", &o.value, &g.value);
        params_diff(&mut d, "params", &o.params, &g.params);
        eq_diff(&mut d, "comment", &o.comment, &g.comment);
        d
    }
}

// ---- Subscription-State
struct SubStateK;
impl HK for SubStateK {
    type H = SubscriptionState;
    type M = SubStateC;
    const LABEL: &'static str = "subscription-state";
    fn build(m: &SubStateC) -> SubscriptionState {
        let mut x = SubscriptionState::new(match m.state {
            0 => SubStateValue::Active,
            1 => SubStateValue::Pending,
            _ => SubStateValue::Terminated,
        });
        x.expires = m.expires;
        x.retry_after = m.retry_after;
        x.reason = m.reason.as_ref().map(|r| match r {
            ReasonC::Known(0) => EventReasonValue::Deactivated,
            ReasonC::Known(1) => EventReasonValue::Probation,
            ReasonC::Known(2) => EventReasonValue::Rejected,
            ReasonC::Known(3) => EventReasonValue::Timeout,
            ReasonC::Known(4) => EventReasonValue::GiveUp,
            ReasonC::Known(5) => EventReasonValue::NoResource,
            ReasonC::Known(_) => EventReasonValue::Invariant,
            ReasonC::Other(t) => EventReasonValue::Other(bs(t)),
        });
        x.params = to_params(&m.params);
        x
    }
    fn back(h: &SubscriptionState, o: &SubStateC) -> SubStateC {
        SubStateC {
            state: match h.state {
                SubStateValue::Active => 0,
                SubStateValue::Pending => 1,
                SubStateValue::Terminated => 2,
            },
            expires: h.expires,
            retry_after: h.retry_after,
            reason: h.reason.as_ref().map(|r| match r {
                EventReasonValue::Deactivated => ReasonC::Known(0),
                EventReasonValue::Probation => ReasonC::Known(1),
                EventReasonValue::Rejected => ReasonC::Known(2),
                EventReasonValue::Timeout => ReasonC::Known(3),
                EventReasonValue::GiveUp => ReasonC::Known(4),
                EventReasonValue::NoResource => ReasonC::Known(5),
                EventReasonValue::Invariant => ReasonC::Known(6),
                EventReasonValue::Other(t) => ReasonC::Other(t.to_string()),
            }),
            params: params_back(&h.params, &o.params),
        }
    }
    fn diff(o: &SubStateC, g: &SubStateC, _: Ctx) -> Diffs {
        let mut d = vec![];
        eq_diff(&mut d, "state", &o.state, &g.state);
        eq_diff(&mut d, "expires", &o.expires, &g.expires);
        eq_diff(&mut d, "reason", &o.reason, &g.reason);
        eq_diff(&mut d, "retry-after", &o.retry_after, &g.retry_after);
        params_diff(&mut d, "params", &o.params, &g.params);
        d
    }
}

// ---- auth
fn to_alg(a: &AlgC) -> Algorithm {
    match a {
        AlgC::Known(0) => Algorithm::MD5,
        AlgC::Known(1) => Algorithm::MD5Sess,
        AlgC::Known(2) => Algorithm::SHA256,
        AlgC::Known(3) => Algorithm::SHA256Sess,
        AlgC::Known(4) => Algorithm::SHA512256,
        AlgC::Known(_) => Algorithm::SHA512256Sess,
        AlgC::Other(t) => Algorithm::Other(bs(t)),
    }
}
fn alg_back(a: &Algorithm) -> AlgC {
    match a {
        Algorithm::MD5 => AlgC::Known(0),
        Algorithm::MD5Sess => AlgC::Known(1),
        Algorithm::SHA256 => AlgC::Known(2),
        Algorithm::SHA256Sess => AlgC::Known(3),
        Algorithm::SHA512256 => AlgC::Known(4),
        Algorithm::SHA512256Sess => AlgC::Known(5),
        Algorithm::Other(t) => AlgC::Other(t.to_string()),
    }
}
fn to_qop(q: &QopC) -> QopOption {
    match q {
        QopC::Auth => QopOption::Auth,
        QopC::AuthInt => QopOption::AuthInt,
        QopC::Other(t) => QopOption::Other(bs(t)),
    }
}
fn qop_back(q: &QopOption) -> QopC {
    match q {
        QopOption::Auth => QopC::Auth,
        QopOption::AuthInt => QopC::AuthInt,
        QopOption::Other(t) => QopC::Other(t.to_string()),
    }
}
fn to_auth_params(v: &[(String, String)]) -> Vec<AuthParam> {
    v.iter().map(|(n, v)| AuthParam { name: bs(n), value: bs(v) }).collect()
}
fn auth_params_back(v: &[AuthParam]) -> Vec<(String, String)> {
    v.iter().map(|p| (p.name.to_string(), p.value.to_string())).collect()
}

struct ChallengeK;
impl HK for ChallengeK {
    type H = AuthChallenge;
    type M = ChallengeC;
    const LABEL: &'static str = "challenge";
    fn build(m: &ChallengeC) -> AuthChallenge {
        match m {
            ChallengeC::Digest { realm, domain, nonce, opaque, stale, algorithm, qop, userhash, other } => AuthChallenge::Digest(DigestChallenge {
                realm: bs(realm),
                domain: domain.as_deref().map(bs),
                nonce: bs(nonce),
                opaque: opaque.as_deref().map(bs),
                stale: *stale,
                algorithm: to_alg(algorithm),
                qop: qop.iter().map(to_qop).collect(),
                userhash: *userhash,
                other: to_auth_params(other),
            }),
            ChallengeC::Other { scheme, params } => AuthChallenge::Other(Auth { scheme: bs(scheme), params: to_auth_params(params) }),
        }
    }
    fn back(h: &AuthChallenge, _: &ChallengeC) -> ChallengeC {
        match h {
            AuthChallenge::Digest(d) => ChallengeC::Digest {
                realm: d.realm.to_string(),
                domain: d.domain.as_ref().map(|x| x.to_string()),
                nonce: d.nonce.to_string(),
                opaque: d.opaque.as_ref().map(|x| x.to_string()),
                stale: d.stale,
                algorithm: alg_back(&d.algorithm),
                qop: d.qop.iter().map(qop_back).collect(),
                userhash: d.userhash,
                other: auth_params_back(&d.other),
            },
            AuthChallenge::Other(a) => ChallengeC::Other { scheme: a.scheme.to_string(), params: auth_params_back(&a.params) },
        }
    }
    fn diff(o: &ChallengeC, g: &ChallengeC, _: Ctx) -> Diffs {
        let mut d = vec![];
        match (o, g) {
            (
                ChallengeC::Digest { realm, domain, nonce, opaque, stale, algorithm, qop, userhash, other },
                ChallengeC::Digest { realm: r2, domain: d2, nonce: n2, opaque: o2, stale: s2, algorithm: a2, qop: q2, userhash: u2, other: ot2 },
            ) => {
                eq_diff(&mut d, "realm", realm, r2);
                eq_diff(&mut d, "domain", domain, d2);
                eq_diff(&mut d, "nonce", nonce, n2);
                eq_diff(&mut d, "opaque", opaque, o2);
                eq_diff(&mut d, "stale", stale, s2);
                eq_diff(&mut d, "algorithm", algorithm, a2);
                eq_diff(&mut d, "qop", qop, q2);
                eq_diff(&mut d, "userhash", userhash, u2);
                eq_diff(&mut d, "other", other, ot2);
            }
            (ChallengeC::Other { scheme, params }, ChallengeC::Other { scheme: s2, params: p2 }) => {
                eq_diff(&mut d, "scheme", scheme, s2);
                eq_diff(&mut d, "other-params", params, p2);
            }
            _ => push(&mut d, "variant", format!("generated {o:?}, re-parsed {g:?}")),
        }
        d
    }
}

/// mirror of what was re-parsed: the username as ezk holds it
fn username_repr(u: &Username) -> String {
    match u {
        Username::Username(x) => format!("plain:{x}"),
        Username::UsernameNonASCII(x) => format!("ext:{x}"),
    }
}

struct AuthRespK;
impl HK for AuthRespK {
    type H = AuthResponse;
    type M = AuthRespC;
    const LABEL: &'static str = "authorization";
    fn build(m: &AuthRespC) -> AuthResponse {
        match m {
            AuthRespC::Digest { username, realm, nonce, uri, response, algorithm, opaque, qop, userhash, other } => AuthResponse::Digest(DigestResponse {
                username: match username {
                    UsernameC::Plain(x) => Username::Username(bs(x)),
                    UsernameC::New(x) => Username::new(bs(x)),
                },
                realm: bs(realm),
                nonce: bs(nonce),
                uri: bs(uri),
                response: bs(response),
                algorithm: to_alg(algorithm),
                opaque: opaque.as_deref().map(bs),
                qop_response: qop.as_ref().map(|(q, c, nc)| QopResponse { qop: to_qop(q), cnonce: bs(c), nc: *nc }),
                userhash: *userhash,
                other: to_auth_params(other),
            }),
            AuthRespC::Other { scheme, params } => AuthResponse::Other(Auth { scheme: bs(scheme), params: to_auth_params(params) }),
        }
    }
    /// `back` keeps the username in the representation ezk holds (`plain:`/`ext:` + text) inside `UsernameC::Plain`
    fn back(h: &AuthResponse, _: &AuthRespC) -> AuthRespC {
        match h {
            AuthResponse::Digest(d) => AuthRespC::Digest {
                username: UsernameC::Plain(username_repr(&d.username)),
                realm: d.realm.to_string(),
                nonce: d.nonce.to_string(),
                uri: d.uri.to_string(),
                response: d.response.to_string(),
                algorithm: alg_back(&d.algorithm),
                opaque: d.opaque.as_ref().map(|x| x.to_string()),
                qop: d.qop_response.as_ref().map(|q| (qop_back(&q.qop), q.cnonce.to_string(), q.nc)),
                userhash: d.userhash,
                other: auth_params_back(&d.other),
            },
            AuthResponse::Other(a) => AuthRespC::Other { scheme: a.scheme.to_string(), params: auth_params_back(&a.params) },
        }
    }
    fn diff(o: &AuthRespC, g: &AuthRespC, _: Ctx) -> Diffs {
        let mut d = vec![];
        match (o, g) {
            (
                AuthRespC::Digest { username, realm, nonce, uri, response, algorithm, opaque, qop, userhash, other },
                AuthRespC::Digest { username: un2, realm: r2, nonce: n2, uri: u2, response: rs2, algorithm: a2, opaque: o2, qop: q2, userhash: uh2, other: ot2 },
            ) => {
                // the value that was printed, in ezk's own representation (value construction, not parsing)
                let constructed = match username {
                    UsernameC::Plain(x) => format!("plain:{x}"),
                    UsernameC::New(x) => username_repr(&Username::new(bs(x))),
                };
                let UsernameC::Plain(got) = un2 else { unreachable!() };
                if &constructed != got {
                    push(&mut d, "username", format!("generated {username:?} (held as {constructed:?}), re-parsed {got:?}"));
                }
                // RFC 5987 ext-value produced by Username::new must decode to the original
                if let (UsernameC::New(x), Some(ext)) = (username, constructed.strip_prefix("ext:")) {
                    let ok = ext
                        .strip_prefix("UTF-8''")
                        .map(|enc| rs::percent_decode(enc).map(|dec| &dec == x).unwrap_or(false))
                        .unwrap_or(false);
                    if !ok {
                        push(&mut d, "username-ext-encoding", format!("Username::new({x:?}) holds {ext:?}"));
                    }
                }
                eq_diff(&mut d, "realm", realm, r2);
                eq_diff(&mut d, "nonce", nonce, n2);
                eq_diff(&mut d, "uri", uri, u2);
                eq_diff(&mut d, "response", response, rs2);
                eq_diff(&mut d, "algorithm", algorithm, a2);
                eq_diff(&mut d, "opaque", opaque, o2);
                eq_diff(&mut d, "qop", qop, q2);
                eq_diff(&mut d, "userhash", userhash, uh2);
                eq_diff(&mut d, "other", other, ot2);
            }
            (AuthRespC::Other { scheme, params }, AuthRespC::Other { scheme: s2, params: p2 }) => {
                eq_diff(&mut d, "scheme", scheme, s2);
                eq_diff(&mut d, "other-params", params, p2);
            }
            _ => push(&mut d, "variant", format!("generated {o:?}, re-parsed {g:?}")),
        }
        d
    }
}

// ---- driver

/// parse every printed value item by item, demanding that nothing stays unparsed
fn parse_items<K: HK>(values: &[BytesStr]) -> Result<Vec<K::H>, (&'static str, String)> {
    let mut items = vec![];
    for v in values {
        let b: &Bytes = v.as_ref();
        let ctx = ParseCtx::new(b, Parser::default());
        let mut i: &str = v.as_str();
        loop {
            match <K::H as HeaderParse>::parse(ctx, i) {
                Ok((rest, h)) => {
                    items.push(h);
                    let r = rest.trim_start_matches([' ', '\t']);
                    if r.is_empty() {
                        if !rest.is_empty() {
                            return Err(("trailing", format!("value {v:?}: {rest:?} left unparsed")));
                        }
                        break;
                    } else if let Some(r2) = r.strip_prefix(',') {
                        i = r2.trim_start_matches([' ', '\t']);
                    } else {
                        return Err(("trailing", format!("value {v:?}: {rest:?} left unparsed")));
                    }
                }
                Err(e) => return Err(("rejected", format!("value {v:?} rejected at {i:?}: {}", short(&e)))),
            }
        }
    }
    Ok(items)
}

fn insert_all<H: ExtendValues>(name: &Name, hs: &Vec<H>, one_by_one: bool) -> Headers {
    let mut headers = Headers::new();
    if hs.len() == 1 || one_by_one {
        for h in hs {
            headers.insert_type(name.clone(), h);
        }
    } else {
        headers.insert_type(name.clone(), hs);
    }
    headers
}

fn values_of(v: OneOrMore) -> Vec<BytesStr> {
    match v {
        OneOrMore::One(v) => vec![v],
        OneOrMore::More(v) => v,
    }
}

/// the header values of `hs` built through `ExtendValues` with the caller's print context (what a message
/// printer that knows the method does), in the line layout of the case
fn values_with_ctx<H: ExtendValues>(hs: &Vec<H>, one_by_one: bool, layout: u8, ctx: PrintCtx<'_>) -> Vec<BytesStr> {
    if !one_by_one && layout == 0 {
        return values_of(hs.create_values(ctx));
    }
    let mut values = hs[0].create_values(ctx);
    for (i, h) in hs.iter().enumerate().skip(1) {
        if layout >> ((i - 1) % 8) & 1 == 1 {
            for v in values_of(h.create_values(ctx)) {
                values.push(v);
            }
        } else {
            h.extend_values(ctx, &mut values);
        }
    }
    values_of(values)
}

fn run_kind<K: HK>(out: &mut CaseOut, name: Name, items: &[K::M], one_by_one: bool, method: &MethodCtxC, layout: u8) {
    let base = format!("c01.hdr.{}", K::LABEL);
    let hs: Vec<K::H> = items.iter().map(K::build).collect();

    // --- path 1: through Headers (PrintCtx::default())
    let headers = insert_all(&name, &hs, one_by_one);
    let mut values: Vec<BytesStr> = vec![];
    for (n, v) in headers.iter() {
        if *n != name {
            out.fail(format!("{base}/name"), format!("inserted under {:?}, listed under {:?}", name.as_print_str(), n.as_print_str()));
        }
        values.push(v.clone());
    }
    if out.note.is_none() {
        out.note = Some(values.iter().map(|v| format!("{}: {}", name.as_print_str(), v)).collect::<Vec<_>>().join(" | "));
    }
    let ctx = K::DEFAULT_CTX;
    match parse_items::<K>(&values) {
        Err((locus, msg)) => out.fail(format!("{base}/{locus}"), msg),
        Ok(parsed) => {
            if parsed.len() != items.len() {
                out.fail(format!("{base}/count"), format!("{} items printed as {values:?} parse back as {} items", items.len(), parsed.len()));
            } else {
                for (o, h) in items.iter().zip(&parsed) {
                    report(out, &base, K::diff(o, &K::back(h, o), ctx));
                }
                // fixpoint
                let again = insert_all(&name, &parsed, one_by_one);
                let values2: Vec<BytesStr> = again.iter().map(|(_, v)| v.clone()).collect();
                if values2 != values {
                    out.fail(format!("{base}/fixpoint"), format!("{values:?} re-prints as {values2:?}"));
                }
            }
            // the library's own list / single decoding must agree with the item-wise reading
            if items.len() > 1 || one_by_one {
                match headers.get::<Vec<K::H>>(name.clone()) {
                    Ok(v) => {
                        let same = v.len() == items.len() && items.iter().zip(&v).all(|(o, h)| K::diff(o, &K::back(h, o), ctx).is_empty());
                        let direct_ok = parsed.len() == items.len() && items.iter().zip(&parsed).all(|(o, h)| K::diff(o, &K::back(h, o), ctx).is_empty());
                        if !same && direct_ok {
                            out.fail(format!("{base}/vec-decode"), format!("Headers::get::<Vec<_>> returns {} items for {values:?} ({} generated)", v.len(), items.len()));
                        }
                    }
                    Err(e) => out.fail(format!("{base}/vec-decode"), format!("Headers::get::<Vec<_>> fails on {values:?}: {e}")),
                }
            }
            if items.len() == 1 {
                match headers.get::<K::H>(name.clone()) {
                    Ok(h) => {
                        let direct_ok = parsed.len() == 1 && K::diff(&items[0], &K::back(&parsed[0], &items[0]), ctx).is_empty();
                        if direct_ok && !K::diff(&items[0], &K::back(&h, &items[0]), ctx).is_empty() {
                            out.fail(format!("{base}/get"), format!("Headers::get disagrees with HeaderParse::parse on {values:?}"));
                        }
                    }
                    Err(e) => {
                        if parsed.len() == 1 {
                            out.fail(format!("{base}/get"), format!("Headers::get fails on {values:?}: {e}"));
                        }
                    }
                }
            }
        }
    }
    // text of the items, read with ref_sip (only kinds that define a text check)
    let texts: Vec<String> = values.iter().flat_map(|v| rs::split_commas(v)).collect();
    if texts.len() == items.len() {
        for (o, t) in items.iter().zip(&texts) {
            report(out, &base, K::text_check(t, o, ctx));
        }
    }

    // --- path 2: printed directly for a message with a method
    if *method != MethodCtxC::None {
        for (o, h) in items.iter().zip(&hs) {
            let Some((text, ctx)) = K::direct(h, method) else { continue };
            class_ctx(ctx, out);
            let src = BytesStr::from(text);
            report(out, &base, K::text_check(&src, o, ctx));
            match parse_items::<K>(std::slice::from_ref(&src)) {
                Err((locus, msg)) => out.fail(format!("{base}/{locus}"), msg),
                Ok(p) if p.len() == 1 => {
                    report(out, &base, K::diff(o, &K::back(&p[0], o), ctx));
                    if let Some((again, _)) = K::direct(&p[0], method) {
                        if again != src.as_str() {
                            out.fail(format!("{base}/fixpoint"), format!("{src:?} re-prints as {again:?}"));
                        }
                    }
                }
                Ok(p) => out.fail(format!("{base}/count"), format!("{src:?} parses as {} items", p.len())),
            }
        }
    }

    // --- path 3: the whole list through ExtendValues (`create_values` / `extend_values`) with the print context
    // of a message with a method: every item, whatever its position in the list or on its line, is printed for
    // that method (Table 1 column of the method for every Contact of a REGISTER, not only the first one)
    if *method != MethodCtxC::None {
        let base = format!("c01.hdr.{}.ctx-values", K::LABEL);
        let ctx = K::method_ctx(method);
        let pc = CtxC { uri: None, method: method.clone() };
        let values = with_ctx(&pc, |p| values_with_ctx(&hs, one_by_one, layout, p));
        if items.len() >= 2 {
            out.class(if values.len() == 1 { "ctx-values:one line" } else if values.len() == items.len() { "ctx-values:line per item" } else { "ctx-values:mixed lines" });
        }
        match parse_items::<K>(&values) {
            Err((locus, msg)) => out.fail(format!("{base}/{locus}"), format!("{msg} (printed for {method:?})")),
            Ok(parsed) if parsed.len() != items.len() => {
                out.fail(format!("{base}/count"), format!("{} items printed for {method:?} as {values:?} parse back as {} items", items.len(), parsed.len()))
            }
            Ok(parsed) => {
                for (i, (o, h)) in items.iter().zip(&parsed).enumerate() {
                    let d = K::diff(o, &K::back(h, o), ctx);
                    for (field, msg) in d {
                        out.fail(format!("{base}/{field}"), format!("item {i} of {}, printed for {method:?} as {values:?}: {msg}", items.len()));
                    }
                }
                let again = with_ctx(&pc, |p| values_with_ctx(&parsed, one_by_one, layout, p));
                if again != values {
                    out.fail(format!("{base}/fixpoint"), format!("{values:?} re-prints as {again:?}"));
                }
            }
        }
        let texts: Vec<String> = values.iter().flat_map(|v| rs::split_commas(v)).collect();
        if texts.len() == items.len() {
            for (i, (o, t)) in items.iter().zip(&texts).enumerate() {
                for (field, msg) in K::text_check(t, o, ctx) {
                    out.fail(format!("{base}/{field}"), format!("item {i} of {}, printed for {method:?}: {msg}", items.len()));
                }
            }
        }
    }
}

fn mark_addr(a: &NameAddrC, params: &[ParamC], ctx: Ctx, out: &mut CaseOut, nt: &mut bool) {
    if classes_uri(&a.uri, out) || ctx.forces_omission(&a.uri) {
        *nt = true;
    }
    if ctx.forces_omission(&a.uri) {
        out.class("table1:omission forced");
    }
    if a.name.is_some() {
        out.class("display-name:some");
    }
    let mut f = Flags::default();
    scan_params(params, &mut f);
    if f.pct {
        out.class("hdr-param:literal-%");
    }
    if f.reserved {
        out.class("hdr-param:reserved-char");
    }
    if f.multibyte {
        out.class("hdr-param:multibyte");
    }
    if f.pct || f.reserved || f.multibyte {
        *nt = true;
    }
}

fn mark_params(params: &[ParamC], out: &mut CaseOut, nt: &mut bool) {
    let mut f = Flags::default();
    scan_params(params, &mut f);
    if f.pct {
        out.class("hdr-param:literal-%");
    }
    if f.reserved {
        out.class("hdr-param:reserved-char");
    }
    if f.multibyte {
        out.class("hdr-param:multibyte");
    }
    if f.pct || f.reserved || f.multibyte {
        *nt = true;
    }
}

fn mark_token(t: &str, out: &mut CaseOut, nt: &mut bool) {
    if t.contains('%') {
        out.class("token:literal-%");
        *nt = true;
    }
}

fn check_header(c: &HeaderCase, out: &mut CaseOut) {
    let mut nt = false;
    let m = &c.method;
    let o = c.one_by_one;
    macro_rules! list_class {
        ($v:expr) => {
            if $v.len() >= 2 {
                out.class("list:>=2 items");
                nt = true;
            }
        };
    }
    match &c.h {
        HeaderC::Via(v) => {
            out.class("kind:Via");
            list_class!(v);
            for x in v {
                mark_params(&x.params, out, &mut nt);
                mark_token(&x.transport, out, &mut nt);
            }
            run_kind::<ViaK>(out, Name::VIA, v, o, m, c.layout)
        }
        HeaderC::From(x) | HeaderC::To(x) => {
            let is_from = matches!(&c.h, HeaderC::From(_));
            out.class(if is_from { "kind:From" } else { "kind:To" });
            mark_addr(&x.addr, &x.params, Ctx::FromTo, out, &mut nt);
            if let Some(t) = &x.tag {
                mark_token(t, out, &mut nt);
            }
            run_kind::<FromToK>(out, if is_from { Name::FROM } else { Name::TO }, std::slice::from_ref(x), false, m, c.layout)
        }
        HeaderC::Contact(v) => {
            out.class("kind:Contact");
            list_class!(v);
            let ctx = Ctx::of(&CtxC { uri: Some(UriCtxC::Contact), method: m.clone() });
            for x in v {
                mark_addr(&x.addr, &x.params, ctx, out, &mut nt);
            }
            let method_dependent = |x: &AddrParamsC| !x.addr.uri.headers.is_empty() || x.addr.uri.params.iter().any(|p| p.name == "lr" || p.name == "ttl");
            if v.iter().skip(1).any(method_dependent) {
                out.class(match ctx {
                    Ctx::ContactReg => "contact list, REGISTER: item after the first has uri headers / lr / ttl",
                    Ctx::ContactDialog => "contact list, other method: item after the first has uri headers / lr / ttl",
                    _ => "contact list, no method: item after the first has uri headers / lr / ttl",
                });
            }
            run_kind::<ContactK>(out, Name::CONTACT, v, o, m, c.layout)
        }
        HeaderC::Route(v) | HeaderC::RecordRoute(v) => {
            let route = matches!(&c.h, HeaderC::Route(_));
            out.class(if route { "kind:Route" } else { "kind:Record-Route" });
            list_class!(v);
            for x in v {
                mark_addr(&x.addr, &x.params, Ctx::Routing, out, &mut nt);
            }
            run_kind::<RoutingK>(out, if route { Name::ROUTE } else { Name::RECORD_ROUTE }, v, o, m, c.layout)
        }
        HeaderC::CSeq(x) => {
            out.class("kind:CSeq");
            if has_wellknown_proper_prefix(&x.method) {
                out.class("method:wellknown-name+suffix");
                nt = true;
            }
            run_kind::<CSeqK>(out, Name::CSEQ, std::slice::from_ref(x), false, m, c.layout)
        }
        HeaderC::RAck(x) => {
            out.class("kind:RAck");
            if has_wellknown_proper_prefix(&x.method) {
                out.class("method:wellknown-name+suffix");
                nt = true;
            }
            run_kind::<RAckK>(out, Name::RACK, std::slice::from_ref(x), false, m, c.layout)
        }
        HeaderC::RSeq(x) => {
            out.class("kind:RSeq");
            run_kind::<RSeqK>(out, Name::RSEQ, std::slice::from_ref(x), false, m, c.layout)
        }
        HeaderC::CallId(x) => {
            out.class("kind:Call-ID");
            run_kind::<CallIdK>(out, Name::CALL_ID, std::slice::from_ref(x), false, m, c.layout)
        }
        HeaderC::MaxForwards(x) => {
            out.class("kind:Max-Forwards");
            run_kind::<MaxForwardsK>(out, Name::MAX_FORWARDS, std::slice::from_ref(x), false, m, c.layout)
        }
        HeaderC::Expires(x) => {
            out.class("kind:Expires");
            run_kind::<ExpiresK>(out, Name::EXPIRES, std::slice::from_ref(x), false, m, c.layout)
        }
        HeaderC::MinExpires(x) => {
            out.class("kind:Min-Expires");
            run_kind::<MinExpiresK>(out, Name::MIN_EXPIRES, std::slice::from_ref(x), false, m, c.layout)
        }
        HeaderC::MinSe(x) => {
            out.class("kind:Min-SE");
            run_kind::<MinSeK>(out, Name::MIN_SE, std::slice::from_ref(x), false, m, c.layout)
        }
        HeaderC::SessionExpires(x) => {
            out.class("kind:Session-Expires");
            run_kind::<SessionExpiresK>(out, Name::SESSION_EXPIRES, std::slice::from_ref(x), false, m, c.layout)
        }
        HeaderC::ContentLength(x) => {
            out.class("kind:Content-Length");
            run_kind::<ContentLengthK>(out, Name::CONTENT_LENGTH, std::slice::from_ref(x), false, m, c.layout)
        }
        HeaderC::ContentType(x) => {
            out.class("kind:Content-Type");
            run_kind::<ContentTypeK>(out, Name::CONTENT_TYPE, std::slice::from_ref(x), false, m, c.layout)
        }
        HeaderC::Event(x) => {
            out.class("kind:Event");
            run_kind::<EventK>(out, Name::EVENT, std::slice::from_ref(x), false, m, c.layout)
        }
        HeaderC::Accept(v) => {
            out.class("kind:Accept");
            list_class!(v);
            run_kind::<AcceptK>(out, Name::ACCEPT, v, o, m, c.layout)
        }
        HeaderC::Allow(v) => {
            out.class("kind:Allow");
            list_class!(v);
            if v.iter().any(|t| has_wellknown_proper_prefix(t)) {
                out.class("method:wellknown-name+suffix");
                nt = true;
            }
            run_kind::<AllowK>(out, Name::ALLOW, v, o, m, c.layout)
        }
        HeaderC::AllowEvents(v) => {
            out.class("kind:Allow-Events");
            list_class!(v);
            run_kind::<AllowEventsK>(out, Name::ALLOW_EVENTS, v, o, m, c.layout)
        }
        HeaderC::Supported(v) => {
            out.class("kind:Supported");
            list_class!(v);
            run_kind::<SupportedK>(out, Name::SUPPORTED, v, o, m, c.layout)
        }
        HeaderC::Require(v) => {
            out.class("kind:Require");
            list_class!(v);
            run_kind::<RequireK>(out, Name::REQUIRE, v, o, m, c.layout)
        }
        HeaderC::Replaces(x) => {
            out.class("kind:Replaces");
            mark_token(&x.from_tag, out, &mut nt);
            mark_token(&x.to_tag, out, &mut nt);
            run_kind::<ReplacesK>(out, Name::REPLACES, std::slice::from_ref(x), false, m, c.layout)
        }
        HeaderC::RetryAfter(x) => {
            out.class("kind:Retry-After");
            mark_params(&x.params, out, &mut nt);
            match x.comment.as_deref() {
                None => {}
                Some("") => out.class("retry-after:empty comment"),
                Some(c) if c.contains('(') => out.class("retry-after:nested comment"),
                Some(_) => out.class("retry-after:comment"),
            }
            run_kind::<RetryAfterK>(out, Name::RETRY_AFTER, std::slice::from_ref(x), false, m, c.layout)
        }
        HeaderC::SubscriptionState(x) => {
            out.class("kind:Subscription-State");
            mark_params(&x.params, out, &mut nt);
            if let Some(ReasonC::Other(t)) = &x.reason {
                mark_token(t, out, &mut nt);
            }
            run_kind::<SubStateK>(out, Name::SUBSCRIPTION_STATE, std::slice::from_ref(x), false, m, c.layout)
        }
        HeaderC::WwwAuthenticate(v) | HeaderC::ProxyAuthenticate(v) => {
            let www = matches!(&c.h, HeaderC::WwwAuthenticate(_));
            out.class(if www { "kind:WWW-Authenticate" } else { "kind:Proxy-Authenticate" });
            list_class!(v);
            for x in v {
                match x {
                    ChallengeC::Digest { realm, nonce, domain, opaque, other, .. } => {
                        out.class("auth:digest challenge");
                        let all = [Some(realm), Some(nonce), domain.as_ref(), opaque.as_ref()];
                        if all.iter().flatten().any(|t| t.is_empty()) || other.iter().any(|(_, v)| v.is_empty()) {
                            out.class("auth:empty quoted value");
                            nt = true;
                        }
                        if all.iter().flatten().any(|t| !t.is_ascii()) {
                            out.class("auth:non-ASCII quoted value");
                            nt = true;
                        }
                    }
                    ChallengeC::Other { .. } => out.class("auth:other scheme"),
                }
            }
            // always one header line per challenge
            run_kind::<ChallengeK>(out, if www { Name::WWW_AUTHENTICATE } else { Name::PROXY_AUTHENTICATE }, v, true, m, c.layout)
        }
        HeaderC::Authorization(v) | HeaderC::ProxyAuthorization(v) => {
            let a = matches!(&c.h, HeaderC::Authorization(_));
            out.class(if a { "kind:Authorization" } else { "kind:Proxy-Authorization" });
            list_class!(v);
            for x in v {
                match x {
                    AuthRespC::Digest { username, realm, nonce, uri, response, .. } => {
                        out.class("auth:digest response");
                        if let UsernameC::New(u) = username {
                            if !u.is_ascii() || u.chars().any(|c| !c.is_ascii_alphanumeric()) {
                                out.class("auth:username needs ext-value");
                                nt = true;
                            }
                        }
                        if [realm, nonce, uri, response].iter().any(|t| t.is_empty()) {
                            out.class("auth:empty quoted value");
                            nt = true;
                        }
                        if [realm, nonce, uri, response].iter().any(|t| !t.is_ascii()) {
                            out.class("auth:non-ASCII quoted value");
                            nt = true;
                        }
                    }
                    AuthRespC::Other { .. } => out.class("auth:other scheme"),
                }
            }
            run_kind::<AuthRespK>(out, if a { Name::AUTHORIZATION } else { Name::PROXY_AUTHORIZATION }, v, true, m, c.layout)
        }
    }
    if nt {
        out.nontrivial(&key(c));
    }
}

// =============================================================================================
// sub-check: message (through the real Endpoint::send_outgoing_request / _response)

#[derive(Clone, Debug, Serialize, Deserialize)]
pub enum StartC {
    Request { method: String, uri: UriC },
    Response { code: u16, reason: Option<String> },
}

#[derive(Clone, Debug, Serialize, Deserialize)]
pub struct MsgCase {
    start: StartC,
    /// header fields in insertion order: (name as given to `Headers::insert`, value)
    headers: Vec<(String, String)>,
    body: Vec<u8>,
}

/// header names ezk documents (with the compact forms it documents); Content-Length is left to the endpoint
const MSG_NAMES: &[&str] = &[
    "Via", "v", "From", "f", "To", "t", "Call-ID", "i", "Contact", "m", "CSeq", "Content-Type", "c", "Content-Encoding", "e", "Subject", "s", "Supported", "k", "Event", "o",
    "Allow-Events", "u", "Session-Expires", "x", "Accept", "Route", "Record-Route", "User-Agent", "Warning", "Max-Forwards", "Expires", "Require", "Allow", "WWW-Authenticate",
    "Authorization", "Date", "Organization", "Priority", "Server", "Timestamp", "Unsupported", "RAck", "RSeq", "Replaces", "Retry-After", "Subscription-State", "Min-SE",
];

/// long name -> compact form, for the names where ezk documents one (used to re-read the message in compact form)
const EZK_COMPACT: &[(&str, &str)] = &[
    ("call-id", "i"),
    ("contact", "m"),
    ("content-encoding", "e"),
    ("content-length", "l"),
    ("content-type", "c"),
    ("from", "f"),
    ("subject", "s"),
    ("supported", "k"),
    ("to", "t"),
    ("via", "v"),
    ("allow-events", "u"),
    ("event", "o"),
    ("session-expires", "x"),
];

fn msg_header_name() -> BoxedStrategy<String> {
    prop_oneof![
        5 => (select(MSG_NAMES.to_vec()), any::<u32>(), prop::bool::weighted(0.3)).prop_map(|(n, mask, flip)| if flip { flip_case(n, mask) } else { n.to_string() }),
        // unknown names: "X-" + token can collide with no known or compact name
        3 => token(8).prop_map(|t| format!("X-{t}")),
        // spellings (any letter case) of the print name and the aliases of the application-defined names in
        // CUSTOM_NAMES: the message parser knows none of them, the application looks them up with `Name::custom`
        2 => (select(custom_spellings()), any::<u32>(), prop::bool::weighted(0.6)).prop_map(|(n, mask, flip)| if flip { flip_case(n, mask) } else { n.to_string() }),
    ]
    .boxed()
}

/// application-defined header names (`Name::custom(print name, names matched case-insensitively in messages)`),
/// used for LOOK-UPS only, as the documentation of `Name::custom` asks. The alias lists are written in lower, upper
/// and mixed case: the documentation promises a case-insensitive match whatever the spelling in the list.
const CUSTOM_NAMES: &[(&str, &[&str])] = &[
    ("X-Foo", &["x-foo", "xf"]),
    ("X-Bar", &["X-Bar", "XB"]),
    ("P-Charge-Info", &["p-charge-info"]),
    ("X-Mixed-Case", &["X-mixed-CASE", "xMc"]),
];

fn custom_spellings() -> Vec<&'static str> {
    CUSTOM_NAMES.iter().flat_map(|(p, a)| std::iter::once(*p).chain(a.iter().copied())).collect()
}

/// What a look-up with an application-defined name finds in a parsed message: every header field whose name is -
/// without regard to letter case - the print name or one of the aliases is the same header to that name, from
/// both sides of `==`; `Headers::contains` / `Headers::remove` find the first such header with its values in order.
fn check_custom_lookup(headers: &Headers, who: &str, out: &mut CaseOut) {
    for (print, aliases) in CUSTOM_NAMES {
        let custom = Name::custom(print, aliases);
        let model = |n: &str| n.eq_ignore_ascii_case(print) || aliases.iter().any(|a| a.eq_ignore_ascii_case(n));
        let mut first: Option<(*const Name, String, Vec<String>)> = None;
        for (n, v) in headers.iter() {
            let spelled = n.as_print_str().to_string();
            let m = model(&spelled);
            let (l, r) = (custom == *n, *n == custom);
            if l != m || r != m {
                out.fail(
                    "c01.msg.ezk/custom-name-eq",
                    format!("{who}: header name {spelled:?} vs Name::custom({print:?}, {aliases:?}): custom == parsed is {l}, parsed == custom is {r}, case-insensitive match of print name / aliases is {m}"),
                );
            }
            if m {
                match &mut first {
                    None => first = Some((n as *const Name, spelled, vec![v.to_string()])),
                    Some((p, _, vals)) if std::ptr::eq(*p, n) => vals.push(v.to_string()),
                    _ => {}
                }
            }
        }
        if first.is_some() {
            out.class("header looked up through Name::custom");
            if first.as_ref().map_or(false, |(_, sp, _)| sp != print && !aliases.contains(&sp.as_str())) {
                out.class("header looked up through Name::custom: spelled in another letter case than print name and aliases");
            }
        }
        if headers.contains(&custom) != first.is_some() {
            out.fail("c01.msg.ezk/custom-name-contains", format!("{who}: Headers::contains(Name::custom({print:?}, {aliases:?})) is {}, the message has {:?}", headers.contains(&custom), first.as_ref().map(|f| &f.1)));
        }
        let got = headers.clone().remove(&custom).map(|v| v.iter().map(|b| b.to_string()).collect::<Vec<_>>());
        let want = first.as_ref().map(|f| f.2.clone());
        if got != want {
            out.fail(
                "c01.msg.ezk/custom-name-values",
                format!("{who}: Headers::remove(Name::custom({print:?}, {aliases:?})) returns {got:?}; the first header of that name ({:?}) has the values {want:?}", first.as_ref().map(|f| &f.1)),
            );
        }
    }
}

/// UTF8-NONASCII characters that are blank to the eye and/or to Unicode (`char::is_whitespace`: U+0085, U+00A0,
/// U+1680, U+2000..U+200A, U+2028, U+2029, U+202F, U+205F, U+3000) or are commonly stripped with them (U+180E,
/// U+200B, U+2060, U+FEFF). None of them is SIP LWS (SP / HTAB / CRLF): they are ordinary TEXT-UTF8 characters.
const UNICODE_BLANKS: &[&str] = &[
    "\u{85}", "\u{a0}", "\u{1680}", "\u{2000}", "\u{2002}", "\u{2003}", "\u{2007}", "\u{2009}", "\u{200a}", "\u{2028}", "\u{2029}", "\u{202f}", "\u{205f}", "\u{3000}",
    "\u{180e}", "\u{200b}", "\u{2060}", "\u{feff}",
];

fn is_sip_lws(c: char) -> bool {
    c == ' ' || c == '\t'
}

/// first / last character of a header value is non-ASCII and `char::is_whitespace`
fn unicode_blank_edges(v: &str) -> (bool, bool) {
    let edge = |c: Option<char>| c.map_or(false, |c| !c.is_ascii() && c.is_whitespace());
    (edge(v.chars().next()), edge(v.chars().next_back()))
}

/// TEXT-UTF8-TRIM: printable ASCII, LWS inside, UTF8-NONASCII; no CR/LF; no SIP LWS (SP / HTAB) at either end;
/// may be empty. UTF8-NONASCII includes the Unicode blanks above, and TEXT-UTF8-TRIM may begin and end with them.
fn msg_header_value(max: usize) -> BoxedStrategy<String> {
    let atom = prop_oneof![
        16 => "[a-zA-Z0-9]",
        8 => "[!-~]",
        4 => sel(&[" ", "\t", ", ", ";", "\"", "<sip:a@b>", "%41", ":"]),
        2 => multibyte_char().prop_map(|c| c.to_string()),
        1 => sel(UNICODE_BLANKS),
    ];
    let blanks = || prop_oneof![7 => Just(String::new()), 1 => vec(sel(UNICODE_BLANKS), 1..=2).prop_map(|v| v.concat())];
    prop_oneof![
        1 => Just(String::new()),
        10 => (blanks(), len_range(max).prop_flat_map(move |n| vec(atom.clone(), n..=n)), blanks())
            .prop_map(|(pre, v, post)| format!("{pre}{}{post}", v.concat()).trim_matches(is_sip_lws).to_string()),
        3 => sel(&["SIP/2.0/UDP 192.0.2.1:5060;branch=z9hG4bK776asdhds", "\"Bob\" <sips:bob@biloxi.example.com>;tag=a73kszlfl", "1 INVITE", "application/sdp", "70", "<sip:p1.example.com;lr>, <sip:p2.example.com;lr>"]),
    ]
    .boxed()
}

fn reason_phrase() -> BoxedStrategy<String> {
    // Reason-Phrase = *(reserved / unreserved / escaped / UTF8-NONASCII / UTF8-CONT / SP / HTAB)
    let atom = prop_oneof![
        8 => "[a-zA-Z0-9]",
        3 => sel(&[" ", "\t", ";", "/", "?", ":", "@", "&", "=", "+", "$", ",", "-", "_", ".", "!", "~", "*", "'", "(", ")", "%41"]),
        1 => multibyte_char().prop_map(|c| c.to_string()),
    ];
    // only SP / HTAB are linear white space around the phrase; other Unicode blanks at its edges are phrase text
    // (fix 964680f; before it the status-line parser trimmed them away)
    let edge = || prop_oneof![6 => Just(String::new()), 1 => sel(&["\u{3000}", "\u{a0}", "\u{2003}", "\u{85}", "\u{2028}"]).prop_map(|e| e.to_string())];
    (edge(), vec(atom, 1..=16), edge())
        .prop_map(|(a, v, b)| {
            let t = v.concat().trim_matches(|c| c == ' ' || c == '\t').to_string();
            let t = if t.is_empty() { s("OK") } else { t };
            format!("{a}{t}{b}")
        })
        .boxed()
}

fn msg_case(sz: Sz, body_max: usize) -> BoxedStrategy<MsgCase> {
    let method = prop_oneof![
        3 => select(METHOD_NAMES.to_vec()).prop_map(|n| n.to_string()),
        // classification of look-alike tokens is the business of the `method` sub-check
        1 => token(8).prop_map(|t| format!("X{t}")),
    ];
    let start = prop_oneof![
        3 => (method, uri(sz)).prop_map(|(method, uri)| StartC::Request { method, uri }),
        2 => (prop_oneof![100u16..700, any::<u16>()], proptest::option::weighted(0.8, reason_phrase())).prop_map(|(code, reason)| StartC::Response { code, reason }),
    ];
    let headers = (vec(msg_header_name(), 1..=8), vec((any::<u16>(), msg_header_value(sz.s.max(24))), 1..=16)).prop_map(|(pool, entries)| {
        entries.into_iter().map(|(sel, v)| (pool[pick_idx(sel, pool.len())].clone(), v)).collect::<Vec<_>>()
    });
    let body = prop_oneof![2 => Just(vec![]), 3 => vec(any::<u8>(), 1..=64), 2 => vec(any::<u8>(), 65..=body_max), 1 => "[ -~\r\n]{1,200}".prop_map(|t| t.into_bytes())];
    (start, headers, body).prop_map(|(start, headers, body)| MsgCase { start, headers, body }).boxed()
}

fn msg_case_small() -> BoxedStrategy<MsgCase> {
    msg_case(SMALL, 2048)
}
fn msg_case_large() -> BoxedStrategy<MsgCase> {
    msg_case(LARGE, 2048)
}

mod wire {
    use sip_core::transport::{Direction, OutgoingParts, OutgoingRequest, OutgoingResponse, TpHandle, Transport};
    use sip_core::{Endpoint, Request, Response};
    use std::fmt;
    use std::net::SocketAddr;
    use std::sync::{Arc, Mutex};

    type Log = Arc<Mutex<Vec<(SocketAddr, Vec<u8>)>>>;

    #[derive(Debug)]
    pub struct MockTp {
        log: Log,
    }

    impl fmt::Display for MockTp {
        fn fmt(&self, f: &mut fmt::Formatter<'_>) -> fmt::Result {
            f.write_str("mock")
        }
    }

    #[async_trait::async_trait]
    impl Transport for MockTp {
        fn name(&self) -> &'static str {
            "MOCK"
        }
        fn secure(&self) -> bool {
            false
        }
        fn reliable(&self) -> bool {
            false
        }
        fn bound(&self) -> SocketAddr {
            "127.0.0.1:5060".parse().unwrap()
        }
        fn sent_by(&self) -> SocketAddr {
            "127.0.0.1:5060".parse().unwrap()
        }
        fn direction(&self) -> Direction {
            Direction::None
        }
        async fn send(&self, message: &[u8], target: SocketAddr) -> std::io::Result<()> {
            self.log.lock().unwrap().push((target, message.to_vec()));
            Ok(())
        }
    }

    thread_local! {
        // the endpoint is stateless for send_outgoing_*; one per worker thread keeps cases cheap
        static EP: (tokio::runtime::Runtime, Endpoint) = {
            let rt = tokio::runtime::Builder::new_current_thread().enable_all().build().expect("runtime");
            let ep = rt.block_on(async {
                let mut b = Endpoint::builder();
                b.set_dns_resolver(trust_dns_resolver::TokioAsyncResolver::tokio(
                    trust_dns_resolver::config::ResolverConfig::new(),
                    Default::default(),
                ));
                b.build()
            });
            (rt, ep)
        };
    }

    pub enum Msg {
        Req(Request),
        Resp(Response),
    }

    /// print + "send" through the real endpoint; returns what reached the transport
    pub fn send(msg: Msg) -> Result<Vec<(SocketAddr, Vec<u8>)>, String> {
        let log: Log = Default::default();
        let destination: SocketAddr = "192.0.2.7:5070".parse().unwrap();
        let parts = OutgoingParts { transport: TpHandle::new(MockTp { log: log.clone() }), destination, buffer: Default::default() };
        EP.with(|(rt, ep)| {
            rt.block_on(async {
                match msg {
                    Msg::Req(r) => ep.send_outgoing_request(&mut OutgoingRequest { msg: r, parts }).await,
                    Msg::Resp(r) => ep.send_outgoing_response(&mut OutgoingResponse { msg: r, parts }).await,
                }
            })
        })
        .map_err(|e| e.to_string())?;
        let v = log.lock().unwrap().clone();
        Ok(v)
    }
}

type NameMap = BTreeMap<String, Vec<String>>;

fn group(it: impl Iterator<Item = (String, String)>) -> NameMap {
    let mut m = NameMap::new();
    for (n, v) in it {
        m.entry(rs::canonical_name(&n)).or_default().push(v);
    }
    m
}

fn compare_maps(want: &NameMap, got: &NameMap, sig: &str, who: &str, out: &mut CaseOut) {
    for (n, vals) in want {
        match got.get(n) {
            None => out.fail(format!("{sig}/header-lost"), format!("{who}: header {n:?} with values {vals:?} is missing")),
            Some(g) if g != vals => {
                let mut a = vals.clone();
                let mut b = g.clone();
                a.sort();
                b.sort();
                // a value that came back shorter at one of its ends (characters in front of / behind the value were cut)
                let edge_cut = |w: &String, g: &String| w != g && w.len() > g.len() && (w.ends_with(g.as_str()) || w.starts_with(g.as_str()));
                let locus = if a == b {
                    "header-order"
                } else if g.len() == vals.len() && vals.iter().zip(g).all(|(w, g)| w == g || edge_cut(w, g)) {
                    "header-value-edge-cut"
                } else {
                    "header-values"
                };
                out.fail(format!("{sig}/{locus}"), format!("{who}: header {n:?} inserted as {vals:?}, read back as {g:?}"));
            }
            _ => {}
        }
    }
    for n in got.keys() {
        if !want.contains_key(n) {
            out.fail(format!("{sig}/header-extra"), format!("{who}: unexpected header {n:?} = {:?}", got[n]));
        }
    }
}

fn check_message(c: &MsgCase, out: &mut CaseOut) {
    use sip_core::transport::{parse_complete, CompleteItem};

    let mut headers = Headers::new();
    for (n, v) in &c.headers {
        headers.insert(Name::from(bs(n)), v.clone());
    }
    let mut want = group(c.headers.iter().cloned());
    want.insert(s("content-length"), vec![c.body.len().to_string()]);
    if want.values().any(|v| v.len() >= 2) {
        out.class(">=2 values under one name");
        out.nontrivial(&key(c));
    }
    if want.len() >= 4 {
        out.class(">=3 header names");
    }
    if c.headers.iter().any(|(n, _)| n.len() == 1) {
        out.class("compact name inserted");
    }
    if c.headers.iter().any(|(n, _)| n.starts_with("X-")) {
        out.class("unknown name");
    }
    if c.headers.iter().any(|(n, _)| custom_spellings().iter().any(|s| s.eq_ignore_ascii_case(n))) {
        out.class("name an application-defined Name::custom matches");
        out.nontrivial(&key(c));
    }
    let edges: Vec<(bool, bool)> = c.headers.iter().map(|(_, v)| unicode_blank_edges(v)).collect();
    if edges.iter().any(|e| e.0) {
        out.class("value starts with a Unicode blank that is not SIP LWS");
    }
    if edges.iter().any(|e| e.1) {
        out.class("value ends with a Unicode blank that is not SIP LWS");
    }
    if c.headers.iter().any(|(_, v)| !v.is_empty() && v.chars().all(|c| !c.is_ascii() && c.is_whitespace())) {
        out.class("value made of Unicode blanks only");
    }
    if edges.iter().any(|e| e.0 || e.1) {
        out.nontrivial(&key(c));
    }
    out.class(match c.body.len() {
        0 => "body:empty",
        1..=64 => "body:<=64",
        _ => "body:>64",
    });
    if std::str::from_utf8(&c.body).is_err() {
        out.class("body:not UTF-8");
    }

    let msg = match &c.start {
        StartC::Request { method, uri } => {
            out.class("request");
            let mut r = sip_core::Request::new(Method::from(method.as_str()), to_uri(uri));
            r.headers = headers;
            r.body = Bytes::from(c.body.clone());
            wire::Msg::Req(r)
        }
        StartC::Response { code, reason } => {
            out.class("response");
            wire::Msg::Resp(sip_core::Response {
                line: StatusLine { code: Code::from(*code), reason: reason.as_deref().map(bs) },
                headers,
                body: Bytes::from(c.body.clone()),
            })
        }
    };
    let sent = match wire::send(msg) {
        Ok(s) => s,
        Err(e) => {
            out.fail("c01.msg/send-error", e);
            return;
        }
    };
    if sent.len() != 1 {
        out.fail("c01.msg/send-count", format!("{} buffers reached the transport", sent.len()));
        return;
    }
    let bytes = &sent[0].1;
    out.note = Some(String::from_utf8_lossy(&bytes[..bytes.len().min(400)]).into_owned());

    // --- second opinion: ref_sip
    let r = match rs::split_message(bytes) {
        Ok(r) => r,
        Err(e) => {
            out.fail("c01.msg/ref-split", format!("ref_sip cannot split the printed message: {e}"));
            return;
        }
    };
    if r.consumed != bytes.len() || r.body != c.body {
        out.fail("c01.msg/ref-body", format!("body of {} bytes printed; ref_sip reads {} bytes, {} bytes of message used of {}", c.body.len(), r.body.len(), r.consumed, bytes.len()));
    }
    compare_maps(&want, &group(r.headers.iter().cloned()), "c01.msg.ref", "ref_sip", out);
    match (&c.start, r.start()) {
        (StartC::Request { method, uri }, Ok(rs::StartLine::Request { method: m2, uri: u2, version })) => {
            if !expected_method_text(method).contains(&m2) || version != "SIP/2.0" {
                out.fail("c01.msg.ref/request-line", format!("start line {:?}", r.start_line));
            }
            report(out, "c01.msg.ref", check_uri_text(&u2, uri, Ctx::MsgReqLine, "request-uri."));
        }
        (StartC::Response { code, reason }, Ok(rs::StartLine::Response { version, code: c2, reason: r2 })) => {
            if version != "SIP/2.0" || c2 != *code || r2 != reason.clone().unwrap_or_default() {
                out.fail("c01.msg.ref/status-line", format!("generated {code} {reason:?}, start line {:?}", r.start_line));
            }
        }
        (_, other) => out.fail("c01.msg.ref/start-line", format!("start line {:?} read as {other:?}", r.start_line)),
    }

    // --- ezk's own datagram parser
    let check_ezk = |bytes: &[u8], who: &str, out: &mut CaseOut| match parse_complete(Default::default(), bytes) {
        Ok(CompleteItem::Sip { line, headers, body, .. }) => {
            if body[..] != c.body[..] {
                out.fail("c01.msg.ezk/body", format!("{who}: body of {} bytes read back as {} bytes", c.body.len(), body.len()));
            }
            let got = group(headers.iter().map(|(n, v)| (n.as_print_str().to_string(), v.to_string())));
            compare_maps(&want, &got, "c01.msg.ezk", who, out);
            check_custom_lookup(&headers, who, out);
            match (&c.start, &line) {
                (StartC::Request { method, uri }, MessageLine::Request(l)) => {
                    if !expected_method_text(method).contains(&l.method.to_string()) {
                        out.fail("c01.msg.ezk/method", format!("{who}: {method:?} read back as {:?}", l.method));
                    }
                    match l.uri.downcast_ref::<SipUri>() {
                        Some(u) => report(out, "c01.msg.ezk", diff_uri(uri, &uri_back(u, uri), Ctx::MsgReqLine, "request-uri.")),
                        None => out.fail("c01.msg.ezk/request-uri-type", s("not a SipUri")),
                    }
                }
                (StartC::Response { code, reason }, MessageLine::Response(l)) => {
                    if l.code.into_u16() != *code || l.reason.as_ref().map(|r| r.to_string()) != *reason {
                        out.fail("c01.msg.ezk/status-line", format!("{who}: generated {code} {reason:?}, read back {l:?}"));
                    }
                }
                (_, l) => out.fail("c01.msg.ezk/start-line-kind", format!("{who}: {l:?}")),
            }
        }
        Ok(_) => out.fail("c01.msg.ezk/not-sip", format!("{who}: printed message is not read as a SIP message")),
        Err(e) => out.fail("c01.msg.ezk/rejected", format!("{who}: parse_complete rejects the printed message: {e}")),
    };
    check_ezk(bytes, "parse_complete", out);

    // --- compact forms on the parse side: same message with the compact names ezk documents
    let mut compact = Vec::with_capacity(bytes.len());
    compact.extend_from_slice(r.start_line.as_bytes());
    compact.extend_from_slice(b"\r\n");
    let mut used_compact = false;
    for (n, v) in &r.headers {
        let canon = rs::canonical_name(n);
        let name = match EZK_COMPACT.iter().find(|(l, _)| *l == canon) {
            Some((_, c)) => {
                used_compact = true;
                c.to_string()
            }
            None => n.clone(),
        };
        compact.extend_from_slice(format!("{name}: {v}\r\n").as_bytes());
    }
    compact.extend_from_slice(b"\r\n");
    compact.extend_from_slice(&r.body);
    if used_compact {
        check_ezk(&compact, "parse_complete(compact forms)", out);
    }
}

// =============================================================================================

pub fn property() -> Property {
    Property {
        fuzz: vec![],
        id: "C01",
        rule: "Values are generated as serde mirror structs and converted through the public API. A case is non-trivial if it contains a character outside the \
               component's unreserved set, a literal '%', a multi-byte character (user, parameter names/values), a method token with a well-known name as proper prefix, \
               a print context that forces a Table-1 omission, a list header with >=2 items, an empty/non-ASCII quoted auth value, or a message with >=2 values under one \
               header name or with a header value that starts/ends with a non-ASCII Unicode blank (which is text, not SIP LWS); distinct = distinct JSON of the case. \
               Typed headers are printed through Headers::insert_type (default context), directly per item for a method, and as a whole list through \
               ExtendValues::create_values/extend_values with the method's print context in a generated line layout.",
        assumptions: vec![
            "display names, reason phrases and quoted auth values are qdtext (printer never escapes quotes); display names/reason phrases are non-empty and trim-invariant",
            "password is generated inside the RFC 3261 password grammar ('%' only as a well-formed escape): it is printed and parsed raw",
            "host names are alnum/hyphen labels and never start with something the IPv4 parser would take",
            "tags, Call-IDs, option tags, transports, reason values and auth parameter names stay inside their RFC grammar; Other(..) variants never carry a well-known name",
            "header-level params never use names the header keeps in dedicated fields (tag; expires/reason/retry-after)",
            "omission of the `method` URI parameter, Table-1 names written in another case, and a Contact printed without a method are accepted either way",
            "message header names: names ezk documents (with its compact forms) or X-<token>; values are TEXT-UTF8-TRIM without CR/LF: no SP/HTAB at either end, but UTF8-NONASCII blanks (NBSP, NEL, U+2000.., U+3000 ...) anywhere including both ends",
            "ExtendValues with a caller-supplied PrintCtx: only `method` is set (uri context None, the header sets its own); the spread of items over header lines is not asserted",
            "Retry-After comments are ctext (no backslash / quoted-pair), possibly empty or with one nested comment",
        ],
        explanation: "Exhaustive: all 65536 status codes (sub `code`). Everything else is sampled with proptest (16 shards); the class histogram shows the reach of the generators. \
                      *_large subs run only in the thorough tier (strings up to 128 atoms / 256+ bytes, up to 8 params).",
        subs: vec![
            prop_sub("method", method_token, 600, 10_000, check_method),
            enum_sub("code", all_codes, check_code),
            prop_sub("host_port", host_port_case, 400, 8_000, check_host_port),
            prop_sub("sip_uri", uri_case_small, 2500, 25_000, check_uri),
            prop_sub("sip_uri_large", uri_case_large, 0, 5_000, check_uri),
            prop_sub("name_addr", name_addr_case, 700, 8_000, check_name_addr),
            prop_sub("header", header_case_small, 3000, 32_000, check_header),
            prop_sub("header_large", header_case_large, 0, 6_000, check_header),
            prop_sub("message", msg_case_small, 800, 5_000, check_message),
            prop_sub("message_large", msg_case_large, 0, 1_000, check_message),
        ],
    }
}
