//! C15 — Connections live while referenced, expire 32 s after last use, never reused dead
//!
//! What is generated
//! * a case = one mock connection ("the connection under test": outbound through a mock TCP factory and
//!   `select_transport`, or inbound through a mock listener), a history of ops with gaps on a grid
//!   {0 = same instant and NO scheduling point in between, 1, 100, 16 s, 32 s -3/-1/+1/+3 ms, 64 s} under a paused
//!   clock, and a tokio seed (decides the poll order inside the receive task's `select!`).
//! * ops on the connection under test: clone / drop / drop-all of handles, inbound message (application keeps or
//!   releases the handle that comes with it), peer close, garbage bytes, `Select` (select_transport to the same
//!   remote, handle kept), `Touch` (select_transport to the same remote and release of the returned handle with no
//!   scheduling point in between: the registry is changed twice between two polls of the connection's task),
//!   `Partial` (the peer writes the beginning of a request - 10 bytes, 90 bytes, head without the empty line, head
//!   without body, head and half the body - or CRLF CR, or a lone CR, and stops; the next `Msg` writes the rest, a
//!   further `Partial` half of the rest), `KeepAlive` (a whole CRLF CRLF).
//!   An inbound message carries the time the application works on it (`busy`, 0 / 1 / 100 ms / 5 s / 16 s / 32 s +3 ms /
//!   40 s): the layer that takes the request awaits that long inside `Layer::receive`, holding the request and with
//!   it a handle to the connection, before it lets go of the request (or hands it to the part of the application
//!   that keeps the handle). The history goes on meanwhile: peer close, garbage, release of the application's own
//!   handles, further messages (worked on concurrently), fragments, selections, the 32 s timer all fall into the
//!   time a request is being worked on, and the layer's release can be the last use of the connection.
//!   Ops that share an instant are executed back to back, the stack runs only after the last of them, so a
//!   pick-up, a release, a message, a close can all be pending when the task is polled next. In particular a
//!   `Select` / `Touch` that shares its instant with the release of the last handle finds the connection with a
//!   run-out reference count its task has not yet noticed.
//! * ops that must NOT concern the connection under test: `Probe` = select_transport for another target whose
//!   registry scan passes over the connection (sips: URI on the same address = security level too low; other port;
//!   other host). The returned handle (a side connection, or an error when nothing can serve the target) is
//!   released at once.
//! * sub-checks: `race` (drop-last + message in one instant, enumerated x seeds), `pickup` (pick-up + release of an
//!   idle connection between two polls together with message / close / garbage in the same instant, enumerated x
//!   seeds), `probe` (selections for other targets while the connection is idle / silent / referenced, once and
//!   periodically, enumerated), `reselect` (last handle released and select_transport to the same remote in one
//!   instant, 5 ways to release x 5 continuations of the instant, the handle then held across 32 s, a later
//!   pick-up and released, enumerated x seeds), `fragment` (beginning of a message / half or whole keep-alive on a
//!   silent accepted, a released accepted, a released outbound, a still referenced connection x arrival instant x
//!   {nothing, the rest, another piece, peer close, pick-up held across the idle period, selection after the idle
//!   period}, enumerated), `busy` (the application works 5 s / 40 s on a request x outbound / accepted x own handle
//!   held or not x keep x 10 events 100 ms after the arrival x {selection while still busy, selection after the work,
//!   message + selection 32 s -3/+3 ms after the layer let go, nothing}, enumerated), `history` (random histories
//!   over all ops).
//!
//! Oracle (lifecycle reference model, written from the property statement, never asks ezk what it expects)
//! * registered while referenced; every message written while the connection is alive is delivered exactly once,
//!   in order; closed (EOF seen by the peer) 32 s after the last use = last handle release or last message on an
//!   unreferenced connection; unregistered at once on peer close / framing error and never selected afterwards;
//!   a live outbound connection is reused by select_transport; inbound connections are never selected;
//!   a connection the history has moved away from (inbound one after a Select) still expires 32 s after its own
//!   last use; selections for other targets are not a use of the connection (its expiry instant is unchanged).
//! * select_transport in the instant the last handle was released, before the stack ran: it may hand out the old
//!   connection or open a new one (the model follows what `connect` calls show); whichever it hands out is
//!   referenced from then on and has to stay registered, deliver and not expire like any other referenced connection;
//!   an old connection that was not handed out expires 32 s after the release.
//! * bytes that are no whole message (fragment, keep-alive): "32 s without traffic" is read both ways, the close is
//!   accepted 32 s after the last use (last release / last whole message) or 32 s after any later arrival of such
//!   bytes; later than the last of these instants the connection has to be closed, unregistered and not selectable.
//!   A message completed while the connection is certainly alive is delivered like any other.
//! * a request the application layer is working on is a handle like any other (it contains one): the connection is
//!   referenced from the instant the layer got the request (read back from the layer, never predicted) until the
//!   layer lets go of it that many ms later; if that was the last reference the idle period starts there. A peer
//!   close / framing error meanwhile unregisters the connection at once all the same (a selection to the remote has
//!   to connect anew although the application still holds the request), other messages are delivered, the
//!   application's own handles can come and go.
//!
//! Not asserted
//! * anything within 2 ms of a 32 s edge (tie); any history with an op between the earliest and the latest accepted
//!   expiry instant of a connection holding a fragment (alive under one reading, closed under the other);
//!   whether select_transport reuses or reconnects in the very instant the last handle was released;
//!   what it returns in the very instant the peer closed, before the stack ran (the harness inserts a scheduling
//!   point there); which of two live outbound connections to the remote a selection picks (after a reconnect in
//!   the instant of the release the old connection idles for 32 s: selections to the remote are left out meanwhile);
//!   garbage behind a fragment (would be read as part of the message: the op is left out);
//!   what a `Probe` returns (error, new or pooled side connection) and the lifetime of side connections;
//!   TLS connections (only a non-secure factory is registered, so a sips: target has no transport);
//!   WHEN a message is handed to the layers (the model takes the instant the layer was called, so a stack that hands
//!   a message on late is judged with the references as they really were); whether the end of the application's work
//!   or an op of the same ms comes first (both orders accepted, like a release in the instant of a selection).

use crate::engine::*;
use crate::world::stream::*;
use crate::world::*;
use proptest::prelude::*;
use serde::{Deserialize, Serialize};
use sip_core::transport::TpHandle;
use sip_core::IncomingRequest;
use sip_types::uri::sip::SipUri;
use std::sync::Arc;
use tokio::sync::mpsc;

const IDLE: u64 = 32_000;
const MAIN_REMOTE: &str = "192.0.2.5:5060";

/// a selection target the connection under test must not serve
#[derive(Serialize, Deserialize, Clone, Copy, Debug, Hash, PartialEq, Eq)]
pub enum Other {
    /// sips: URI resolving to the very address the (non-secure) connection is connected to
    SecureSameAddr,
    /// same host, other port
    OtherPort,
    /// other host, same port
    OtherHost,
}

impl Other {
    const ALL: [Other; 3] = [Other::SecureSameAddr, Other::OtherPort, Other::OtherHost];
    fn uri(self) -> SipUri {
        match self {
            Other::SecureSameAddr => "sips:peer@192.0.2.5:5060;transport=tcp",
            Other::OtherPort => "sip:peer@192.0.2.5:5070;transport=tcp",
            Other::OtherHost => "sip:peer@192.0.2.6:5060;transport=tcp",
        }
        .parse()
        .unwrap()
    }
    fn label(self) -> &'static str {
        match self {
            Other::SecureSameAddr => "probe:sips-same-address-while-unreferenced",
            Other::OtherPort => "probe:other-port-while-unreferenced",
            Other::OtherHost => "probe:other-host-while-unreferenced",
        }
    }
}

#[derive(Serialize, Deserialize, Clone, Copy, Debug, Hash, PartialEq, Eq)]
pub enum Op {
    /// application clones a handle it holds
    Clone,
    /// application drops one handle
    Drop,
    /// application drops every handle it holds
    DropAll,
    /// peer sends a request on the connection; the application (the layer that takes the request) works on it for
    /// `busy` ms inside `Layer::receive` (0 = hands it on at once) and then keeps the handle that comes with it (or not)
    Msg {
        keep: bool,
        #[serde(default)]
        busy: u64,
    },
    /// peer closes its side
    PeerClose,
    /// peer sends bytes that are not SIP
    Garbage,
    /// application asks for a transport to the same remote (select_transport) and keeps the handle
    Select,
    /// application asks for a transport to the same remote and releases the handle again before anything else runs
    Touch,
    /// application asks for a transport to another target; the handle (if any) is released at once
    Probe { target: Other },
    /// peer writes the beginning of a request (or half of a CRLF keep-alive) and stops; the rest is written by the
    /// next `Msg` op on the same connection (a further `Partial` writes half of what is left)
    Partial { kind: Frag },
    /// peer writes a whole CRLF CRLF keep-alive
    KeepAlive,
}

/// where the peer stops in the middle of what it sends
#[derive(Serialize, Deserialize, Clone, Copy, Debug, Hash, PartialEq, Eq)]
pub enum Frag {
    /// 10 bytes: inside the request line
    HeadStart,
    /// 90 bytes: inside a header line
    HeadMid,
    /// the whole head except the empty line that ends it
    HeadNoTerminator,
    /// the whole head (Content-Length: 20), no byte of the body
    BodyMissing,
    /// the whole head and 10 of the 20 bytes of the body
    BodyHalf,
    /// CRLF CR: one CRLF is consumed, a lone CR stays in the read buffer
    HalfCrlf,
    /// CR
    LoneCr,
}

impl Frag {
    pub const ALL: [Frag; 7] = [Frag::HeadStart, Frag::HeadMid, Frag::HeadNoTerminator, Frag::BodyMissing, Frag::BodyHalf, Frag::HalfCrlf, Frag::LoneCr];
    fn label(self) -> &'static str {
        match self {
            Frag::HeadStart => "fragment-while-unreferenced:request-line-part",
            Frag::HeadMid => "fragment-while-unreferenced:head-part",
            Frag::HeadNoTerminator => "fragment-while-unreferenced:head-without-empty-line",
            Frag::BodyMissing => "fragment-while-unreferenced:head-without-body",
            Frag::BodyHalf => "fragment-while-unreferenced:head-and-half-body",
            Frag::HalfCrlf => "fragment-while-unreferenced:crlf-cr",
            Frag::LoneCr => "fragment-while-unreferenced:lone-cr",
        }
    }
    /// (bytes written now, bytes that complete it, does a request come out of it)
    fn split(self, marker: &str) -> (Vec<u8>, Vec<u8>, bool) {
        let body: &[u8] = if matches!(self, Frag::BodyMissing | Frag::BodyHalf) { b"01234567890123456789" } else { b"" };
        let full = options_with_body(marker, "TCP", body);
        let head_len = full.len() - body.len();
        let cut = match self {
            Frag::HeadStart => 10,
            Frag::HeadMid => 90,
            Frag::HeadNoTerminator => head_len - 2,
            Frag::BodyMissing => head_len,
            Frag::BodyHalf => head_len + 10,
            Frag::HalfCrlf => return (b"\r\n\r".to_vec(), b"\n".to_vec(), false),
            Frag::LoneCr => return (b"\r".to_vec(), b"\n".to_vec(), false),
        };
        (full[..cut].to_vec(), full[cut..].to_vec(), true)
    }
}

#[derive(Serialize, Deserialize, Clone, Debug, Hash)]
pub struct Case {
    pub inbound: bool,
    /// (gap in ms to the previous op; 0 = same instant, no scheduling point in between)
    pub ops: Vec<(u64, Op)>,
    pub rng: u8,
}

const GAPS: &[u64] = &[0, 0, 0, 0, 1, 1, 100, 16_000, 16_000, IDLE - 3, IDLE - 1, IDLE + 1, IDLE + 3, IDLE - 1, IDLE + 1, 2 * IDLE];

/// how long the application works on a request inside `Layer::receive` (ms): on the grid of the gaps, so that the end
/// of the work falls on / next to later ops, and longer than the idle period. The wind-down waits 96 s, enough for
/// the longest one plus an idle period.
const BUSY: &[u64] = &[1, 100, 100, 5_000, 16_000, 16_000, IDLE + 3, 40_000];
const BUSY_MAX: u64 = 40_000;

pub fn strategy() -> BoxedStrategy<Case> {
    let op = prop_oneof![
        2 => Just(Op::Clone),
        4 => Just(Op::Drop),
        2 => Just(Op::DropAll),
        3 => Just(Op::Msg { keep: false, busy: 0 }),
        2 => Just(Op::Msg { keep: true, busy: 0 }),
        3 => (any::<bool>(), any::<u16>()).prop_map(|(keep, b)| Op::Msg { keep, busy: BUSY[pick_idx(b, BUSY.len())] }),
        1 => Just(Op::PeerClose),
        1 => Just(Op::Garbage),
        2 => Just(Op::Select),
        3 => Just(Op::Touch),
        1 => Just(Op::Probe { target: Other::SecureSameAddr }),
        1 => Just(Op::Probe { target: Other::OtherPort }),
        1 => Just(Op::Probe { target: Other::OtherHost }),
        3 => any::<u16>().prop_map(|k| Op::Partial { kind: Frag::ALL[pick_idx(k, Frag::ALL.len())] }),
        1 => Just(Op::KeepAlive),
    ];
    (any::<bool>(), prop::collection::vec((any::<u16>(), op), 1..9), any::<u8>())
        .prop_map(|(inbound, ops, rng)| Case {
            inbound,
            ops: ops.into_iter().map(|(g, o)| (GAPS[pick_idx(g, GAPS.len())], o)).collect(),
            rng,
        })
        .boxed()
}

/// the race named by the property, enumerated: last handle dropped and a message arriving in the same
/// instant, both orders, around it idle periods on the 32 s edge; all 256 tokio seeds
pub fn race_cases(tier: Tier) -> Vec<Case> {
    let mut out = vec![];
    let seeds = tier.pick(64u32, 256u32);
    for inbound in [false, true] {
        for order in 0..2 {
            for keep in [false, true] {
                for tail in [IDLE - 1, IDLE + 1] {
                    for lead in [1u64, IDLE - 1] {
                        for rng in 0..seeds {
                            let mut ops = vec![];
                            if inbound {
                                // an inbound connection gets its first handle through a message
                                ops.push((1, Op::Msg { keep: true, busy: 0 }));
                            }
                            ops.push((lead, Op::Clone));
                            ops.push((1, Op::Drop));
                            if order == 0 {
                                ops.push((1, Op::Drop));
                                ops.push((0, Op::Msg { keep, busy: 0 }));
                            } else {
                                ops.push((1, Op::Msg { keep, busy: 0 }));
                                ops.push((0, Op::DropAll));
                            }
                            ops.push((tail, Op::Msg { keep: false, busy: 0 }));
                            ops.push((1, Op::Select));
                            out.push(Case { inbound, ops, rng: rng as u8 });
                        }
                    }
                }
            }
        }
    }
    out
}

/// an idle (unreferenced, timer running) outbound connection is picked up by select_transport and released again
/// between two polls of its task, and in the same instant something else happens on it; afterwards the
/// application holds (or does not hold) the handle that came with the message across a 32 s edge.
/// Enumerated: how the connection became outbound+idle x idle time before x shape of the instant x keep x
/// time after x tokio seeds.
pub fn pickup_cases(tier: Tier) -> Vec<Case> {
    let mut out = vec![];
    let seeds = tier.pick(32u32, 256u32);
    let clusters = |keep: bool| -> Vec<Vec<Op>> {
        let msg = Op::Msg { keep, busy: 0 };
        let mut v = vec![
            vec![Op::Touch, msg],
            vec![msg, Op::Touch],
            vec![Op::Select, Op::Drop, msg],
            vec![Op::Select, msg, Op::Drop],
            vec![Op::Select, Op::Clone, Op::DropAll, msg],
            vec![Op::Touch, msg, msg],
            vec![Op::Touch, msg, Op::PeerClose],
        ];
        if !keep {
            // shapes without a message do not depend on `keep`
            v.push(vec![Op::Touch, Op::PeerClose]);
            v.push(vec![Op::Touch, Op::Garbage]);
        }
        v
    };
    for inbound in [false, true] {
        for lead in [1u64, IDLE - 3] {
            for keep in [false, true] {
                for cluster in clusters(keep) {
                    for tail in [IDLE - 3, IDLE + 3] {
                        for rng in 0..seeds {
                            let mut ops = vec![];
                            if inbound {
                                // the history leaves the accepted connection for an outbound one to the same remote
                                ops.push((1, Op::Select));
                            }
                            ops.push((1, Op::DropAll));
                            for (i, op) in cluster.iter().enumerate() {
                                ops.push((if i == 0 { lead } else { 0 }, *op));
                            }
                            ops.push((tail, Op::Msg { keep: false, busy: 0 }));
                            ops.push((1, Op::Select));
                            out.push(Case { inbound, ops, rng: rng as u8 });
                        }
                    }
                }
            }
        }
    }
    out
}

/// selections for other targets (registry scans that pass over the connection under test) while it is idle
/// (outbound, last handle released), silent (inbound, never used) or referenced; once, or periodically with a
/// period below 32 s. Nothing here depends on the select order, a few seeds only.
pub fn probe_cases(tier: Tier) -> Vec<Case> {
    let mut out = vec![];
    let seeds = tier.pick(2u32, 16u32);
    for inbound in [false, true] {
        for referenced in [false, true] {
            for target in Other::ALL {
                for lead in [100u64, 16_000, IDLE - 3] {
                    for repeat in [1usize, 3] {
                        for rng in 0..seeds {
                            let mut ops = vec![];
                            match (inbound, referenced) {
                                (false, false) => ops.push((1, Op::DropAll)),
                                (false, true) => {}
                                (true, false) => {}
                                (true, true) => ops.push((1, Op::Msg { keep: true, busy: 0 })),
                            }
                            ops.push((lead, Op::Probe { target }));
                            for _ in 1..repeat {
                                ops.push((20_000, Op::Probe { target }));
                            }
                            if referenced {
                                ops.push((1, Op::DropAll));
                                ops.push((20_000, Op::Probe { target }));
                            }
                            out.push(Case { inbound, ops, rng: rng as u8 });
                        }
                    }
                }
            }
        }
    }
    out
}

/// the last handle of an outbound connection is released and, in the same instant and with no scheduling point in
/// between (the connection's task has not yet seen the release), the application asks for a transport to the same
/// remote again; the handle it gets is held across more than 32 s, across a later pick-up, and released.
/// Enumerated: inbound/outbound start x time before x how the last handle went x what follows in the same instant
/// x time after x tokio seeds.
pub fn reselect_cases(tier: Tier) -> Vec<Case> {
    let mut out = vec![];
    let seeds = tier.pick(8u32, 64u32);
    let msg = Op::Msg { keep: false, busy: 0 };
    // (ops before the instant [gap 1 each], ops of the instant that release the last handle)
    let releases: Vec<(Vec<Op>, Vec<Op>)> = vec![
        (vec![], vec![Op::Drop]),
        (vec![], vec![Op::Clone, Op::DropAll]),
        (vec![Op::DropAll], vec![Op::Touch]),
        (vec![Op::DropAll], vec![Op::Select, Op::Drop]),
        (vec![], vec![msg, Op::Drop]),
    ];
    let follows: Vec<Vec<Op>> = vec![
        vec![Op::Select],
        vec![Op::Select, msg],
        vec![Op::Touch, Op::Select],
        vec![Op::Select, Op::Clone, Op::Drop],
        vec![Op::Select, Op::Drop, Op::Select],
    ];
    for inbound in [false, true] {
        for lead in [1u64, IDLE - 3] {
            for (before, release) in &releases {
                for follow in &follows {
                    for tail in [IDLE - 3, IDLE + 3] {
                        for rng in 0..seeds {
                            let mut ops = vec![];
                            if inbound {
                                // the history leaves the accepted connection for an outbound one to the same remote
                                ops.push((1, Op::Select));
                            }
                            for op in before {
                                ops.push((1, *op));
                            }
                            for (i, op) in release.iter().chain(follow.iter()).enumerate() {
                                ops.push((if i == 0 { lead } else { 0 }, *op));
                            }
                            // the handle is held; the connection has to stay usable
                            ops.push((IDLE + 3, msg));
                            ops.push((tail, Op::Msg { keep: true, busy: 0 }));
                            ops.push((1, Op::DropAll));
                            ops.push((tail, Op::Select));
                            out.push(Case { inbound, ops, rng: rng as u8 });
                        }
                    }
                }
            }
        }
    }
    out
}

/// the peer starts a message (or half a CRLF keep-alive, or a whole one) on a connection and stops: while the
/// connection is unreferenced (accepted and silent, accepted and released, outbound and released) or shortly before
/// its last handle is released. Afterwards: nothing / the rest / another piece / peer close / a pick-up that is
/// held across the idle period / a selection long after the idle period.
/// Enumerated: situation x fragment x arrival inside the idle period x what follows x a few seeds.
pub fn fragment_cases(tier: Tier) -> Vec<Case> {
    let mut out = vec![];
    let seeds = tier.pick(2u32, 16u32);
    let mut kinds: Vec<Op> = Frag::ALL.iter().map(|k| Op::Partial { kind: *k }).collect();
    kinds.push(Op::KeepAlive);
    for situation in 0..4 {
        for frag in &kinds {
            for lead in [1u64, 16_000, IDLE - 3] {
                for tail in 0..6 {
                    // what follows comes 100 ms later: only inside the idle period for the two early arrivals
                    if lead == IDLE - 3 && !(tail == 0 || tail == 5) {
                        continue;
                    }
                    for rng in 0..seeds {
                        let mut ops = vec![];
                        let inbound = situation < 2;
                        match situation {
                            0 => ops.push((lead, *frag)),
                            1 => {
                                ops.push((1, Op::Msg { keep: true, busy: 0 }));
                                ops.push((100, Op::DropAll));
                                ops.push((lead, *frag));
                            }
                            2 => {
                                ops.push((100, Op::DropAll));
                                ops.push((lead, *frag));
                            }
                            _ => {
                                // arrives while referenced, the last handle goes 100 ms later
                                ops.push((lead, *frag));
                                ops.push((100, Op::DropAll));
                            }
                        }
                        match tail {
                            0 => {}
                            1 => ops.push((100, Op::Msg { keep: false, busy: 0 })),
                            2 => ops.push((100, *frag)),
                            3 => ops.push((100, Op::PeerClose)),
                            4 => {
                                ops.push((100, Op::Select));
                                ops.push((2 * IDLE, Op::Msg { keep: false, busy: 0 }));
                            }
                            _ => {
                                ops.push((2 * IDLE + 100, Op::Select));
                                ops.push((1, Op::Msg { keep: false, busy: 0 }));
                            }
                        }
                        out.push(Case { inbound, ops, rng: rng as u8 });
                    }
                }
            }
        }
    }
    out
}

/// the application is busy with a request that came in over the connection: the layer that takes the request awaits
/// inside `Layer::receive` for 5 s / 40 s before it lets go of the request (or hands it to the part of the
/// application that keeps the handle). 100 ms after the arrival something happens on the connection - nothing / peer
/// close / garbage / the application's own handles go / another request / another request and peer close / handles go
/// and peer close / beginning of a request / another request that is worked on concurrently / pick-up + release -
/// and then: a selection to the same remote while the application is still busy, a selection after it has finished,
/// a message and a selection 32 s -3/+3 ms after the application let go of the request, or nothing.
/// Enumerated: outbound / accepted x application holds a handle of its own or not x busy time x keep x event x
/// what follows x a few seeds.
pub fn busy_cases(tier: Tier) -> Vec<Case> {
    let mut out = vec![];
    let seeds = tier.pick(4u32, 32u32);
    let msg = Op::Msg { keep: false, busy: 0 };
    let events: Vec<Vec<Op>> = vec![
        vec![],
        vec![Op::PeerClose],
        vec![Op::Garbage],
        vec![Op::DropAll],
        vec![msg],
        vec![msg, Op::PeerClose],
        vec![Op::DropAll, Op::PeerClose],
        vec![Op::Partial { kind: Frag::HeadMid }],
        vec![Op::Msg { keep: false, busy: 5_000 }],
        vec![Op::Touch],
    ];
    for inbound in [false, true] {
        for app_handle in [true, false] {
            for busy in [5_000u64, BUSY_MAX] {
                for keep in [false, true] {
                    for event in &events {
                        for follow in 0..5 {
                            for rng in 0..seeds {
                                // instants relative to the arrival of the request
                                let mut at: Vec<(u64, Op)> = vec![(0, Op::Msg { keep, busy })];
                                for op in event {
                                    at.push((100, *op));
                                }
                                match follow {
                                    0 => at.push((1_100, Op::Select)),
                                    1 => at.push((busy + 1_000, Op::Select)),
                                    2 => {
                                        at.push((busy + IDLE - 3, msg));
                                        at.push((busy + IDLE - 2, Op::Select));
                                    }
                                    3 => {
                                        at.push((busy + IDLE + 3, msg));
                                        at.push((busy + IDLE + 4, Op::Select));
                                    }
                                    // the history ends here (registration judged right after the event, expiry in the wind-down)
                                    _ => {}
                                }
                                let mut ops = vec![];
                                match (inbound, app_handle) {
                                    (false, false) => ops.push((1, Op::DropAll)),
                                    (true, true) => ops.push((1, Op::Msg { keep: true, busy: 0 })),
                                    _ => {}
                                }
                                let mut prev = 0;
                                for (i, (o, op)) in at.iter().enumerate() {
                                    ops.push((if i == 0 { 100 } else { o - prev }, *op));
                                    prev = *o;
                                }
                                out.push(Case { inbound, ops, rng: rng as u8 });
                            }
                        }
                    }
                }
            }
        }
    }
    out
}

// ---------------------------------------------------------------------------------------------
// reference model

#[derive(Debug, Clone, Default)]
struct Model {
    /// handles the application holds on the current connection
    handles: u32,
    /// connection registered with the endpoint (not closed by peer / error / expiry)
    alive: bool,
    /// since when nobody references it
    unused_since: Option<u64>,
    /// instants at which the peer may see EOF because of idle expiry: 32 s after the last use, or 32 s after a
    /// later arrival of bytes that are no whole message (both readings of "traffic" are accepted); empty = no expiry due
    expect_eof: Vec<u64>,
    /// arrival instants of such bytes (fragment of a message, CRLF keep-alive) since the connection is unreferenced
    frag_times: Vec<u64>,
    /// the expiry of the connection depends on which of the two readings is taken and an op falls in between
    disputed: bool,
    /// the idle period ended with an incomplete message in the read buffer
    fragment_pending_at_expiry: bool,
    /// the read buffer of the connection holds an incomplete message / half a CRLF
    frag_pending: bool,
    /// number of connections ever opened (index of the current one)
    generation: u32,
    expected_delivered: Vec<String>,
    ambiguous: bool,
    /// since the stack last ran: the last handle was released. A select_transport in this state may reuse the
    /// connection or connect anew, the model follows what it did
    dirty_release: bool,
    /// since the stack last ran: the peer closed / sent garbage. What a select_transport finds in this state is not
    /// asserted (the harness lets the stack run first)
    dirty_close: bool,
    /// since the stack last ran: a message was written to the live connection (it will be delivered in this instant)
    msg_unsettled: bool,
    /// since the stack last ran: select_transport picked up the connection while nobody referenced it
    revived_this_instant: bool,
    /// since the stack last ran: the connection was picked up while unreferenced and released again, i.e. the
    /// registry went unused -> used -> (dead reference count) between two polls of the connection's task
    pickup_released: bool,
    /// that happened at least once in the history
    pickup_released_ever: bool,
    /// since the stack last ran: bytes of a message / an end of stream or garbage wait to be read by the task
    task_has_message: bool,
    task_has_close: bool,
    /// the connection's task was polled with a pick-up + release AND a message (a close) pending
    pickup_with_message_ever: bool,
    pickup_with_close_ever: bool,
    /// connections the history has moved away from: (peer conn id, instants their own idle period may end)
    left: Vec<(u32, Vec<u64>)>,
    /// an outbound connection to the remote that the history moved away from while it was alive can be selected again
    /// until this instant (once the stack ran: `left_pending_until` before that)
    left_outbound_until: Option<u64>,
    left_pending_until: Option<u64>,
    /// requests of the current connection the application is working on inside `Layer::receive`: each of them holds
    /// the handle that came with it until `done_at` (counted in `handles`)
    inflight: Vec<Inflight>,
    /// requests the layer has finished and hands to the part of the application that keeps the handle, not yet
    /// picked up there (counted in `handles`; only in the very instant the work ends)
    handing_over: u32,
    /// since the stack last ran: longest working time among the requests written to the live connection
    unsettled_busy: u64,
    /// instant the delivery of a request began (read back from the application layer)
    start_at: std::collections::HashMap<String, u64>,
}

#[derive(Debug, Clone)]
struct Inflight {
    done_at: u64,
    /// the layer hands the request to the part of the application that keeps the handle (else it lets go of it)
    keep: bool,
}

impl Model {
    /// instants at which the idle period of the unreferenced connection may end (ascending, first = 32 s after last use)
    fn candidates(&self) -> Vec<u64> {
        let Some(u) = self.unused_since else { return vec![] };
        let mut v = vec![u + IDLE];
        for x in &self.frag_times {
            if *x > u && !v.contains(&(x + IDLE)) {
                v.push(x + IDLE);
            }
        }
        v.sort();
        v
    }
    fn expire_if_due(&mut self, t: u64) {
        if self.alive && self.handles == 0 && self.unused_since.is_some() {
            let c = self.candidates();
            if c.iter().any(|w| t.abs_diff(*w) <= 2) {
                self.ambiguous = true;
            } else if t > *c.last().unwrap() {
                self.alive = false;
                self.expect_eof = c;
                self.fragment_pending_at_expiry |= self.frag_pending;
                self.frag_pending = false;
            } else if t > c[0] {
                // closed under one reading, alive under the other
                self.ambiguous = true;
                self.disputed = true;
            }
        }
    }
    fn released_last(&mut self, t: u64) {
        self.unused_since = Some(t);
        self.frag_times.clear();
        self.dirty_release = true;
        if self.revived_this_instant {
            self.pickup_released = true;
            self.pickup_released_ever = true;
        }
    }
    /// the stack ran
    fn settled(&mut self) {
        if self.pickup_released && self.task_has_message {
            self.pickup_with_message_ever = true;
        }
        if self.pickup_released && self.task_has_close {
            self.pickup_with_close_ever = true;
        }
        self.dirty_release = false;
        self.dirty_close = false;
        if let Some(p) = self.left_pending_until.take() {
            self.left_outbound_until = Some(self.left_outbound_until.map_or(p, |o| o.max(p)));
        }
        self.revived_this_instant = false;
        self.pickup_released = false;
        self.task_has_message = false;
        self.task_has_close = false;
    }
}

/// which generator shapes the case really reached (depends on the model state, so collected while running)
#[derive(Debug, Clone, Default)]
pub struct Facts {
    pub select_while_message_pending: bool,
    pub probe_while_unreferenced: Vec<Other>,
    pub probe_while_referenced: bool,
    pub probe_refused: bool,
    pub probe_side_connection: bool,
    /// select_transport in the instant the last handle was released, before the stack ran: what it did
    pub reselect_reused: bool,
    pub reselect_connected: bool,
    /// a selection was left out because two live outbound connections to the remote existed (choice unspecified)
    pub select_skipped: bool,
    pub fragment_while_unreferenced: Vec<Frag>,
    pub fragment_while_referenced: bool,
    pub keepalive_while_unreferenced: bool,
    pub fragment_completed: bool,
    pub fragment_continued: bool,
    pub garbage_skipped: bool,
    pub close_with_fragment: bool,
    pub select_with_fragment: bool,
    /// the application layer worked on a request of the live connection for a while
    pub busy_started: bool,
    pub busy_handed_over: bool,
    /// ... and meanwhile:
    pub close_while_busy: bool,
    pub garbage_while_busy: bool,
    pub app_handles_gone_while_busy: bool,
    pub message_while_busy: bool,
    pub fragment_while_busy: bool,
    pub select_while_busy: bool,
    pub select_closed_while_busy: bool,
    /// the request the layer let go of was the last reference: the idle period starts there
    pub idle_starts_at_layer_release: bool,
}

/// what the application knows about the requests it is going to get (written by the test task when the peer sends
/// them) and what its layer did with them (read back by the test task)
#[derive(Default)]
pub struct AppState {
    busy_of: std::collections::HashMap<String, u64>,
    keep_of: std::collections::HashMap<String, bool>,
    /// generation of the connection the request was written to
    gen_of: std::collections::HashMap<String, u32>,
    /// generation of the connection the history currently talks about
    current_gen: u32,
    /// the history is over: the application lets go of everything it still works on
    winding_down: bool,
    /// (instant, X-Seq) of every `Layer::receive` call, in call order; taken out by the test task
    started: Vec<(u64, String)>,
}

/// The application: takes every request. A request with working time 0 is handed to the test task at once (which
/// keeps or releases the handle that comes with it); otherwise the layer works on it - awaits inside
/// `Layer::receive`, holding the request and with it a handle to the connection - and afterwards hands it to the
/// test task (keep, and the connection is still the one the history talks about) or lets go of it right there.
pub struct BusyLayer {
    pub clock: Clock,
    pub app: Arc<parking_lot::Mutex<AppState>>,
    pub tx: mpsc::UnboundedSender<IncomingRequest>,
}

fn x_seq(req: &IncomingRequest) -> String {
    req.headers
        .iter()
        .find(|(n, _)| n.as_print_str().eq_ignore_ascii_case("x-seq"))
        .map(|(_, v)| v.to_string())
        .unwrap_or_default()
}

#[async_trait::async_trait]
impl sip_core::Layer for BusyLayer {
    fn name(&self) -> &'static str {
        "c15-app"
    }
    async fn receive(&self, _endpoint: &sip_core::Endpoint, request: sip_core::MayTake<'_, IncomingRequest>) {
        let req = request.take();
        let marker = x_seq(&req);
        let (busy, over) = {
            let mut a = self.app.lock();
            a.started.push((self.clock.now_ms(), marker.clone()));
            (a.busy_of.get(&marker).copied().unwrap_or(0), a.winding_down)
        };
        if busy == 0 {
            // (nobody takes requests from the channel once the history is over)
            if !over {
                let _ = self.tx.send(req);
            }
            return;
        }
        tokio::time::sleep(std::time::Duration::from_millis(busy)).await;
        let hand_over = {
            let a = self.app.lock();
            a.keep_of.get(&marker).copied().unwrap_or(false) && a.gen_of.get(&marker) == Some(&a.current_gen) && !a.winding_down
        };
        if hand_over {
            let _ = self.tx.send(req);
        } else {
            drop(req);
        }
    }
}

/// bring the model up to date at instant `t`: deliveries that began, work the application layer finished up to `t`
/// (in the order it finished), requests handed to the test task (kept or released right here)
#[allow(clippy::too_many_arguments)]
fn absorb(
    t: u64,
    app: &parking_lot::Mutex<AppState>,
    rx: &mut mpsc::UnboundedReceiver<IncomingRequest>,
    m: &mut Model,
    handles: &mut Vec<TpHandle>,
    delivered: &mut Vec<(u64, String, u32)>,
    facts: &mut Facts,
) {
    let started = std::mem::take(&mut app.lock().started);
    for (at, marker) in started {
        delivered.push((at, marker.clone(), m.generation));
        let (busy, keep, gen) = {
            let a = app.lock();
            (a.busy_of.get(&marker).copied().unwrap_or(0), a.keep_of.get(&marker).copied().unwrap_or(false), a.gen_of.get(&marker).copied())
        };
        m.start_at.insert(marker, at);
        if busy > 0 && gen == Some(m.generation) {
            // the layer holds the request, and with it a handle, from now on
            m.inflight.push(Inflight { done_at: at + busy, keep });
            m.handles += 1;
            m.unused_since = None;
            if m.alive {
                facts.busy_started = true;
            }
        }
    }
    m.inflight.sort_by_key(|f| f.done_at);
    while m.inflight.first().map_or(false, |f| f.done_at <= t) {
        let f = m.inflight.remove(0);
        if f.keep {
            // the reference passes to the test task (below, or after the next scheduling point)
            m.handing_over += 1;
            continue;
        }
        m.handles = m.handles.saturating_sub(1);
        if m.handles == 0 {
            m.unused_since = Some(f.done_at);
            m.frag_times.clear();
            if f.done_at == t {
                // in this very instant: the stack may not have run since
                m.dirty_release = true;
            }
            if m.alive {
                facts.idle_starts_at_layer_release = true;
            }
        }
    }
    while let Ok(req) = rx.try_recv() {
        let marker = x_seq(&req);
        let (busy, keep, gen) = {
            let a = app.lock();
            (a.busy_of.get(&marker).copied().unwrap_or(0), a.keep_of.get(&marker).copied().unwrap_or(false), a.gen_of.get(&marker).copied())
        };
        if gen != Some(m.generation) {
            // arrived on a connection the history has moved away from
            drop(req);
            continue;
        }
        if busy > 0 {
            // handed over by the layer after its work: the reference it held is the application's now
            m.handing_over = m.handing_over.saturating_sub(1);
            if m.alive {
                handles.push(req.tp_info.transport.clone());
                facts.busy_handed_over = true;
            } else {
                m.handles = m.handles.saturating_sub(1);
            }
        } else if keep && m.alive {
            handles.push(req.tp_info.transport.clone());
            m.handles += 1;
            m.unused_since = None;
        } else if m.alive && m.handles == 0 {
            // traffic on an unreferenced connection restarts the idle period
            m.unused_since = Some(m.start_at.get(&marker).copied().unwrap_or(t));
        }
        drop(req);
    }
}

/// what the peer has begun to send on the connection under test
struct PendingFrag {
    /// marker of the request it becomes (None: a CRLF keep-alive)
    marker: Option<String>,
    rest: Vec<u8>,
}

// ---------------------------------------------------------------------------------------------

pub struct Observed {
    pub delivered: Vec<(u64, String, u32)>,
    pub problems: Vec<String>,
    /// (peer conn id, instant the peer saw ezk close) of the connection under test at the end of the history
    pub eof: Option<(u32, Option<u64>)>,
    /// the same for every connection of the case
    pub all_eof: Vec<(u32, Option<u64>)>,
    pub final_count: usize,
}

enum PeerAct {
    Write(Vec<u8>),
    Close,
}

/// act on the peer end of connection `id` (taken out of its list while the peer writes, so that no lock is held
/// across an await, and put back in place)
async fn peer_do(id: Option<u32>, inbound: &mut Vec<PeerConn>, probe: &FactoryProbe, act: PeerAct) -> bool {
    let Some(id) = id else { return false };
    let mut taken: Option<(bool, usize, PeerConn)> = None;
    if let Some(pos) = inbound.iter().position(|p| p.id == id) {
        taken = Some((true, pos, inbound.remove(pos)));
    } else {
        let mut g = probe.conns.lock();
        if let Some(pos) = g.iter().position(|p| p.id == id) {
            taken = Some((false, pos, g.remove(pos)));
        }
    }
    let Some((is_inbound, pos, mut p)) = taken else { return false };
    let ok = match act {
        PeerAct::Write(b) => p.write(&b).await,
        PeerAct::Close => {
            p.close().await;
            true
        }
    };
    if is_inbound {
        inbound.insert(pos.min(inbound.len()), p);
    } else {
        let mut g = probe.conns.lock();
        let at = pos.min(g.len());
        g.insert(at, p);
    }
    ok
}

/// connections other than `main` the peer has not seen closed yet (side connections of probes, connections the
/// history moved away from): nobody holds a handle on them, so "not closed" = still registered. Connections the
/// peer closed / sent garbage on (`dead`) are left out: they are not registered any more, but a request the
/// application layer still works on can keep ezk's end open.
fn others_open(main: Option<u32>, dead: &[u32], inbound: &[PeerConn], probe: &FactoryProbe) -> usize {
    let f = |p: &PeerConn| Some(p.id) != main && !dead.contains(&p.id) && p.eof_at.lock().is_none();
    inbound.iter().filter(|p| f(p)).count() + probe.conns.lock().iter().filter(|p| f(p)).count()
}

fn options(marker: &str, via_transport: &str) -> Vec<u8> {
    options_with_body(marker, via_transport, b"")
}

fn options_with_body(marker: &str, via_transport: &str, body: &[u8]) -> Vec<u8> {
    request_text(
        "OPTIONS",
        "sip:ezk@10.0.0.1",
        &[format!("SIP/2.0/{via_transport} 192.0.2.5:5060;branch=z9hG4bKc15{marker}")],
        "<sip:peer@192.0.2.5>;tag=pt",
        "<sip:ezk@10.0.0.1>",
        &format!("c15-{marker}"),
        1,
        "OPTIONS",
        &[format!("X-Seq: {marker}")],
        body,
    )
}

pub fn check(case: &Case, out: &mut CaseOut) {
    let c = case.clone();
    let (obs, model, steps, facts): (Observed, Model, Vec<String>, Facts) = run_world(case.rng as u64, |clock| async move {
        let log = WireLog::new(clock);
        let (factory, probe) = mock_factory::<false>(clock, &log);
        let (lb, dialer) = mock_listener::<false>(clock, &log, "10.0.0.1:5060");
        let (tx, mut rx) = mpsc::unbounded_channel::<IncomingRequest>();
        let mut b = offline_builder();
        b.add_transport_factory(Arc::new(factory));
        let app: Arc<parking_lot::Mutex<AppState>> = Default::default();
        app.lock().current_gen = 1;
        b.add_layer(BusyLayer { clock, app: app.clone(), tx });
        use sip_core::transport::streaming::StreamingListenerBuilder;
        lb.spawn(&mut b, "10.0.0.1:5060").await.unwrap();
        let endpoint = b.build();
        settle().await;
        let uri: SipUri = format!("sip:peer@{MAIN_REMOTE};transport=tcp").parse().unwrap();
        let main_remote: std::net::SocketAddr = MAIN_REMOTE.parse().unwrap();
        // newest connection the factory opened to the remote of the connection under test
        let newest_main = |probe: &FactoryProbe| probe.conns.lock().iter().filter(|p| p.peer_addr == main_remote).map(|p| p.id).max();

        let mut m = Model::default();
        let mut facts = Facts::default();
        let mut problems: Vec<String> = vec![];
        let mut steps: Vec<String> = vec![];
        let mut handles: Vec<TpHandle> = vec![];
        // peer ends of accepted connections (those of the factory live in probe.conns)
        let mut inbound_conns: Vec<PeerConn> = vec![];
        let mut delivered: Vec<(u64, String, u32)> = vec![];
        // peer conn id of the connection the history currently talks about
        let mut main_id: Option<u32>;

        // open the connection
        if c.inbound {
            let p = dialer.dial(MAIN_REMOTE);
            main_id = Some(p.id);
            inbound_conns.push(p);
            settle().await;
            m.alive = true;
            m.unused_since = Some(0);
            m.generation = 1;
        } else {
            match endpoint.select_transport(&uri).await {
                Ok((h, _)) => handles.push(h),
                Err(e) => problems.push(format!("initial select failed: {e}")),
            }
            main_id = newest_main(&probe);
            settle().await;
            m.alive = true;
            m.handles = 1;
            m.generation = 1;
        }

        // what the peer has begun to send on the connection under test and not finished
        let mut pending: Option<PendingFrag> = None;
        // connections the peer closed / sent garbage on
        let mut dead_ids: Vec<u32> = vec![];
        let mut t = 0u64;
        let mut seq = 0;
        let n = c.ops.len();
        for (i, (gap, op)) in c.ops.iter().enumerate() {
            t += gap;
            clock.until(t).await;
            // work the application layer finished in the meantime
            absorb(t, &app, &mut rx, &mut m, &mut handles, &mut delivered, &mut facts);
            m.expire_if_due(t);
            if m.ambiguous {
                break;
            }
            // the application is working on a request that came in over the (live) connection
            let busy_now = m.alive && (!m.inflight.is_empty() || m.unsettled_busy > 0);
            'op: {
            match op {
                Op::Clone => {
                    if let Some(h) = handles.last().cloned() {
                        handles.push(h);
                        m.handles += 1;
                    }
                }
                Op::Drop => {
                    if handles.pop().is_some() {
                        m.handles -= 1;
                        if m.handles == 0 {
                            m.released_last(t);
                        }
                        if handles.is_empty() && busy_now {
                            facts.app_handles_gone_while_busy = true;
                        }
                    }
                }
                Op::DropAll => {
                    if !handles.is_empty() {
                        handles.clear();
                        // what the application layer works on keeps its handle
                        m.handles = m.inflight.len() as u32 + m.handing_over;
                        if m.handles == 0 {
                            m.released_last(t);
                        }
                        if busy_now {
                            facts.app_handles_gone_while_busy = true;
                        }
                    }
                }
                Op::Msg { keep, busy } => {
                    // a request the peer has begun is finished; after half a CRLF the rest of the CRLF and a new
                    // request go out in one piece
                    let (marker, bytes) = match pending.take() {
                        Some(PendingFrag { marker: Some(marker), rest }) => {
                            if m.alive {
                                facts.fragment_completed = true;
                            }
                            (marker, rest)
                        }
                        other => {
                            seq += 1;
                            let marker = format!("m{seq}");
                            app.lock().gen_of.insert(marker.clone(), m.generation);
                            let mut bytes = other.map(|p| p.rest).unwrap_or_default();
                            bytes.extend_from_slice(&options(&marker, "TCP"));
                            (marker, bytes)
                        }
                    };
                    {
                        // what the application will do with it is decided by the op that completes the request
                        let mut a = app.lock();
                        a.keep_of.insert(marker.clone(), *keep);
                        a.busy_of.insert(marker.clone(), *busy);
                    }
                    let written = peer_do(main_id, &mut inbound_conns, &probe, PeerAct::Write(bytes)).await;
                    // the rest of this op happens after the scheduling point below
                    if m.alive {
                        if busy_now {
                            facts.message_while_busy = true;
                        }
                        m.frag_pending = false;
                        m.expected_delivered.push(marker.clone());
                        if written {
                            m.msg_unsettled = true;
                            m.task_has_message = true;
                            m.unsettled_busy = m.unsettled_busy.max(*busy);
                        }
                    }
                }
                Op::Partial { kind } => {
                    let (bytes, continued) = match pending.take() {
                        // a further piece of what was begun: half of what is left (the last byte is kept back)
                        Some(mut p) => {
                            let n = p.rest.len() / 2;
                            let now: Vec<u8> = p.rest.drain(..n).collect();
                            pending = Some(p);
                            (now, true)
                        }
                        None => {
                            seq += 1;
                            let marker = format!("m{seq}");
                            let (now, rest, is_request) = kind.split(&marker);
                            if is_request {
                                app.lock().gen_of.insert(marker.clone(), m.generation);
                            }
                            pending = Some(PendingFrag { marker: is_request.then_some(marker), rest });
                            (now, false)
                        }
                    };
                    if !bytes.is_empty() {
                        let written = peer_do(main_id, &mut inbound_conns, &probe, PeerAct::Write(bytes)).await;
                        if m.alive && written {
                            m.frag_pending = true;
                            if busy_now {
                                facts.fragment_while_busy = true;
                            }
                            if continued {
                                facts.fragment_continued = true;
                            }
                            if m.handles == 0 {
                                m.frag_times.push(t);
                                if !facts.fragment_while_unreferenced.contains(kind) {
                                    facts.fragment_while_unreferenced.push(*kind);
                                }
                            } else {
                                facts.fragment_while_referenced = true;
                            }
                        }
                    }
                }
                Op::KeepAlive => {
                    // only between messages
                    if pending.is_none() {
                        let written = peer_do(main_id, &mut inbound_conns, &probe, PeerAct::Write(b"\r\n\r\n".to_vec())).await;
                        if m.alive && written && m.handles == 0 {
                            m.frag_times.push(t);
                            facts.keepalive_while_unreferenced = true;
                        }
                    }
                }
                Op::PeerClose => {
                    peer_do(main_id, &mut inbound_conns, &probe, PeerAct::Close).await;
                    dead_ids.extend(main_id);
                    if m.alive {
                        if m.frag_pending {
                            facts.close_with_fragment = true;
                        }
                        if busy_now {
                            facts.close_while_busy = true;
                        }
                        m.alive = false;
                        m.dirty_close = true;
                        m.task_has_close = true;
                    }
                }
                Op::Garbage => {
                    if pending.is_some() {
                        // behind the beginning of a message the bytes would be read as part of that message (header
                        // value, body): no framing error is due, the op is left out
                        facts.garbage_skipped = true;
                    } else {
                        peer_do(main_id, &mut inbound_conns, &probe, PeerAct::Write(b"\x01\x02 this is not sip\r\n\r\n".to_vec())).await;
                        dead_ids.extend(main_id);
                        if m.alive {
                            if busy_now {
                                facts.garbage_while_busy = true;
                            }
                            m.alive = false;
                            m.dirty_close = true;
                            m.task_has_close = true;
                        }
                    }
                }
                Op::Select | Op::Touch => {
                    let touch = matches!(op, Op::Touch);
                    // a closed connection is only known to be closed after a scheduling point following the close.
                    // In every other state the selection happens right here, whatever is pending on the connection.
                    if m.dirty_close {
                        settle().await;
                        m.settled();
                    }
                    if m.left_outbound_until.map_or(false, |u| t <= u + 2) {
                        // an outbound connection to the remote that the history moved away from is idle and not
                        // yet expired (the stack ran since, so it can be picked up again): which of the connections
                        // to the remote a selection returns is not specified, the op is left out
                        facts.select_skipped = true;
                        break 'op;
                    }
                    if m.msg_unsettled {
                        facts.select_while_message_pending = true;
                    }
                    if !m.inflight.is_empty() {
                        if m.alive {
                            facts.select_while_busy = true;
                        } else {
                            facts.select_closed_while_busy = true;
                        }
                    }
                    if m.alive && m.frag_pending {
                        facts.select_with_fragment = true;
                    }
                    let before = probe.connects.lock().len();
                    match endpoint.select_transport(&uri).await {
                        Ok((h, _)) => {
                            let after = probe.connects.lock().len();
                            let reusable = m.alive && !(c.inbound && m.generation == 1);
                            // the last handle went in this very instant and the stack has not run since: the
                            // connection may be reused or a new one opened; the handle has to stay good either way
                            let either = reusable && m.dirty_release && m.handles == 0;
                            if either {
                                if after == before {
                                    facts.reselect_reused = true;
                                } else {
                                    facts.reselect_connected = true;
                                }
                            }
                            if reusable && !(either && after != before) {
                                if after != before {
                                    problems.push(format!("t={t}: live outbound connection not reused (connect called)"));
                                }
                                m.dirty_release = false;
                                if touch {
                                    drop(h);
                                    if m.handles == 0 {
                                        // picked up and released: that is a use, the idle period starts again
                                        m.revived_this_instant = true;
                                        m.released_last(t);
                                    }
                                } else {
                                    if m.handles == 0 {
                                        m.revived_this_instant = true;
                                    }
                                    m.handles += 1;
                                    m.unused_since = None;
                                    handles.push(h);
                                }
                            } else {
                                if after == before && !either {
                                    problems.push(format!(
                                        "t={t}: select_transport handed out a connection that is {} instead of connecting anew",
                                        if c.inbound && m.generation == 1 && m.alive { "inbound" } else { "closed/expired" }
                                    ));
                                }
                                // from now on the new connection is the one the history talks about; handles on
                                // the old one are let go. The old one still has to end its own idle period on time.
                                let mut left_until = None;
                                if let Some(id) = main_id {
                                    if m.alive {
                                        // requests of the old connection the application layer still works on (or is about
                                        // to: written in this instant) are let go of when that work is done
                                        let busy_until = m.inflight.iter().map(|f| f.done_at).chain((m.unsettled_busy > 0).then_some(t + m.unsettled_busy)).max();
                                        let ends = if m.handles > 0 || m.msg_unsettled || m.unused_since.is_none() { vec![busy_until.map_or(t, |b| b.max(t)) + IDLE] } else { m.candidates() };
                                        if !(c.inbound && m.generation == 1) {
                                            left_until = ends.last().copied();
                                        }
                                        m.left.push((id, ends));
                                    } else if !m.expect_eof.is_empty() {
                                        m.left.push((id, m.expect_eof.clone()));
                                    }
                                }
                                // what the peer had begun on the old connection is never finished
                                pending = None;
                                m.frag_pending = false;
                                m.frag_times.clear();
                                handles.clear();
                                if after != before {
                                    main_id = newest_main(&probe);
                                }
                                m.generation += 1;
                                app.lock().current_gen = m.generation;
                                m.inflight.clear();
                                m.handing_over = 0;
                                m.unsettled_busy = 0;
                                m.alive = true;
                                m.expect_eof = vec![];
                                m.msg_unsettled = false;
                                // (connections left earlier in this instant stay unselectable until the stack runs)
                                let earlier = m.left_pending_until.take();
                                m.settled();
                                m.left_pending_until = earlier;
                                if let Some(u) = left_until {
                                    m.left_pending_until = Some(m.left_pending_until.map_or(u, |o| o.max(u)));
                                }
                                if touch {
                                    drop(h);
                                    m.handles = 0;
                                    m.released_last(t);
                                } else {
                                    handles.push(h);
                                    m.handles = 1;
                                    m.unused_since = None;
                                }
                            }
                        }
                        Err(e) => problems.push(format!("t={t}: select_transport failed: {e}")),
                    }
                }
                Op::Probe { target } => {
                    // not a use of the connection under test, whatever state it is in; no scheduling point
                    if m.alive {
                        if m.handles == 0 {
                            if !facts.probe_while_unreferenced.contains(target) {
                                facts.probe_while_unreferenced.push(*target);
                            }
                        } else {
                            facts.probe_while_referenced = true;
                        }
                    }
                    match endpoint.select_transport(&target.uri()).await {
                        Ok((h, _)) => {
                            facts.probe_side_connection = true;
                            drop(h);
                        }
                        Err(_) => facts.probe_refused = true,
                    }
                }
            }
            }
            let next_same_instant = c.ops.get(i + 1).map_or(false, |(g, _)| *g == 0);
            if !next_same_instant {
                // let the stack run
                settle().await;
                m.settled();
                // deliveries: the application layer starts to work on a request, or the test task keeps or
                // releases the handle that came with it
                absorb(t, &app, &mut rx, &mut m, &mut handles, &mut delivered, &mut facts);
                m.unsettled_busy = 0;
                m.msg_unsettled = false;
                settle().await;
                let count = endpoint.verif_counts().1;
                let others = others_open(main_id, &dead_ids, &inbound_conns, &probe);
                let count_main = count.saturating_sub(others);
                steps.push(format!("{t}ms {op:?} -> handles={} alive={} managed={count} (other open connections {others})", m.handles, m.alive));
                // registered while referenced
                if m.alive && m.handles > 0 && count_main == 0 {
                    problems.push(format!("t={t}: connection with {} live handles is not registered any more", m.handles));
                }
                // (judged while the first connection is the one the history talks about)
                if !m.alive && m.expect_eof.is_empty() && count_main != 0 && i + 1 == n && m.generation == 1 {
                    problems.push(format!("t={t}: closed connection still registered ({count_main})"));
                }
            }
        }

        // wind down: drop everything, wait past every timer
        if !m.ambiguous {
            m.expire_if_due(t);
        }
        let had_handles = !handles.is_empty();
        handles.clear();
        // whatever the application layer still works on is let go of when that work is done
        app.lock().winding_down = true;
        settle().await;
        if m.alive && !m.ambiguous {
            if had_handles || m.unused_since.is_none() {
                let last_done = m.inflight.iter().map(|f| f.done_at).max();
                m.unused_since = Some(last_done.map_or(t, |d| d.max(t)));
                m.frag_times.clear();
            }
            m.expect_eof = m.candidates();
            m.fragment_pending_at_expiry |= m.frag_pending;
            m.alive = false;
        }
        while let Ok(req) = rx.try_recv() {
            drop(req);
        }
        clock.advance(3 * IDLE).await;
        settle().await;
        // deliveries that began after the last op (a stack that hands on a message later than it arrived: when a
        // message is delivered is not asserted): the application let go of such a request when its work was done,
        // which is the last use of the connection then
        let late = std::mem::take(&mut app.lock().started);
        for (at, marker) in late {
            delivered.push((at, marker.clone(), m.generation));
            let (busy, gen) = {
                let a = app.lock();
                (a.busy_of.get(&marker).copied().unwrap_or(0), a.gen_of.get(&marker).copied())
            };
            if gen == Some(m.generation) && !m.expect_eof.is_empty() && m.unused_since.map_or(false, |u| at + busy > u) {
                m.unused_since = Some(at + busy);
                m.expect_eof = m.candidates();
            }
        }
        let mut all_eof = vec![];
        for p in inbound_conns.iter() {
            all_eof.push((p.id, *p.eof_at.lock()));
        }
        for p in probe.conns.lock().iter() {
            all_eof.push((p.id, *p.eof_at.lock()));
        }
        let eof = main_id.and_then(|id| all_eof.iter().find(|e| e.0 == id).copied());
        let final_count = endpoint.verif_counts().1;
        (Observed { delivered, problems, eof, all_eof, final_count }, m, steps, facts)
    });

    out.note = Some(format!("steps={steps:?} delivered={:?} eof={:?} left={:?} all_eof={:?}", obs.delivered, obs.eof, model.left, obs.all_eof));
    out.class(if case.inbound { "inbound" } else { "outbound" });
    let mut race = false;
    for w in case.ops.windows(2) {
        let (a, b) = (&w[0].1, &w[1]);
        if b.0 <= 1 {
            let pair = (matches!(a, Op::Drop | Op::DropAll) && matches!(b.1, Op::Msg { .. })) || (matches!(a, Op::Msg { .. }) && matches!(b.1, Op::Drop | Op::DropAll));
            if pair {
                race = true;
                if b.0 == 0 {
                    out.class("drop-last-and-message-same-instant");
                }
            }
        }
    }
    let edge = case.ops.iter().any(|(g, _)| g.abs_diff(IDLE) <= 3);
    if edge {
        out.class("event-within-3ms-of-32s-edge");
    }
    if model.ambiguous {
        out.class("tie-on-32s-edge(unasserted)");
    }
    if model.pickup_released_ever {
        out.class("idle-connection-picked-up-and-released-between-polls");
    }
    if model.pickup_with_message_ever {
        out.class("pickup-release-and-message-same-instant");
    }
    if model.pickup_with_close_ever {
        out.class("pickup-release-and-close-same-instant");
    }
    if facts.select_while_message_pending {
        out.class("select-while-message-pending");
    }
    for t in &facts.probe_while_unreferenced {
        out.class(t.label());
    }
    if facts.probe_while_referenced {
        out.class("probe-while-referenced");
    }
    if facts.probe_refused {
        out.class("probe-refused(no transport for target)");
    }
    if facts.probe_side_connection {
        out.class("probe-served-by-side-connection");
    }
    if !model.left.is_empty() {
        out.class("left-connection-expiry-judged");
    }
    if facts.reselect_reused {
        out.class("select-in-the-instant-of-last-release:connection-reused");
    }
    if facts.reselect_connected {
        out.class("select-in-the-instant-of-last-release:new-connection");
    }
    if facts.select_skipped {
        out.class("select-left-out(two live connections to the remote)");
    }
    for k in &facts.fragment_while_unreferenced {
        out.class(k.label());
    }
    if facts.fragment_while_referenced {
        out.class("fragment-while-referenced");
    }
    if facts.keepalive_while_unreferenced {
        out.class("keep-alive-while-unreferenced");
    }
    if facts.fragment_completed {
        out.class("fragment-completed-later");
    }
    if facts.fragment_continued {
        out.class("fragment-continued-by-another-piece");
    }
    if facts.close_with_fragment {
        out.class("peer-close-with-fragment-in-buffer");
    }
    if facts.select_with_fragment {
        out.class("select-with-fragment-in-buffer");
    }
    if facts.garbage_skipped {
        out.class("garbage-left-out(behind a fragment)");
    }
    if model.fragment_pending_at_expiry {
        out.class("idle-period-ends-with-fragment-in-buffer");
    }
    if model.expect_eof.len() > 1 || model.left.iter().any(|l| l.1.len() > 1) {
        out.class("expiry-judged-against-both-readings-of-traffic");
    }
    if model.disputed {
        out.class("op-between-the-two-readings-of-traffic(unasserted)");
    }
    if facts.busy_started {
        out.class("application-layer-busy-with-request");
    }
    if facts.busy_handed_over {
        out.class("busy:request-handed-on-and-handle-kept-afterwards");
    }
    if facts.idle_starts_at_layer_release {
        out.class("busy:idle-period-starts-when-the-layer-lets-go");
    }
    if facts.close_while_busy {
        out.class("busy:peer-close-meanwhile");
    }
    if facts.garbage_while_busy {
        out.class("busy:garbage-meanwhile");
    }
    if facts.app_handles_gone_while_busy {
        out.class("busy:application-handles-released-meanwhile");
    }
    if facts.message_while_busy {
        out.class("busy:another-message-meanwhile");
    }
    if facts.fragment_while_busy {
        out.class("busy:fragment-meanwhile");
    }
    if facts.select_while_busy {
        out.class("busy:select-meanwhile");
    }
    if facts.select_closed_while_busy {
        out.class("busy:select-after-close-while-still-busy");
    }
    let busy = facts.close_while_busy
        || facts.garbage_while_busy
        || facts.app_handles_gone_while_busy
        || facts.message_while_busy
        || facts.fragment_while_busy
        || facts.select_while_busy
        || facts.select_closed_while_busy
        || facts.idle_starts_at_layer_release;
    let reselect = facts.reselect_reused || facts.reselect_connected;
    let fragment = !facts.fragment_while_unreferenced.is_empty() || facts.keepalive_while_unreferenced || model.fragment_pending_at_expiry;
    if race || edge || model.pickup_with_message_ever || model.pickup_with_close_ever || !facts.probe_while_unreferenced.is_empty() || reselect || fragment || busy {
        out.nontrivial(case);
    }

    for p in &obs.problems {
        let locus = if p.contains("not reused") {
            "live-connection-not-reused"
        } else if p.contains("handed out a connection") {
            "dead-or-inbound-connection-selected"
        } else if p.contains("not registered any more") {
            "referenced-connection-unregistered"
        } else if p.contains("still registered") {
            "closed-connection-still-registered"
        } else {
            "other"
        };
        out.fail(format!("c15.lifecycle/{locus}"), p.clone());
    }
    // connections the history moved away from end their own idle period on time (decided when they were left)
    for (id, want) in &model.left {
        let got = obs.all_eof.iter().find(|e| e.0 == *id).and_then(|e| e.1);
        if let Some((locus, msg)) = judge_close(got, want) {
            out.fail(format!("c15.expiry/left-connection-{locus}"), format!("connection the application no longer uses {msg}"));
        }
    }
    if model.ambiguous {
        return;
    }
    // every message sent while the connection was alive is delivered exactly once, in order
    let got: Vec<String> = obs.delivered.iter().map(|d| d.1.clone()).collect();
    if got != model.expected_delivered {
        let lost = model.expected_delivered.iter().any(|m| !got.contains(m));
        out.fail(
            if lost { "c15.delivery/message-on-live-connection-lost" } else { "c15.delivery/unexpected-or-duplicate" },
            format!("delivered {got:?}, expected {:?}", model.expected_delivered),
        );
    }
    // idle expiry: the connection is closed 32 s after it was last used
    if !model.expect_eof.is_empty() {
        if let Some((locus, msg)) = judge_close(obs.eof.and_then(|e| e.1), &model.expect_eof) {
            out.fail(format!("c15.expiry/{locus}"), format!("connection {msg}"));
        }
    }
    if obs.final_count != 0 {
        out.fail("c15.expiry/still-registered-at-end", format!("{} managed transports left after everything was dropped and 96 s passed", obs.final_count));
    }
}

/// idle expiry against the accepted instants (ascending; the first = 32 s after the last use, further ones = 32 s
/// after bytes that are no whole message arrived later than that)
fn judge_close(got: Option<u64>, want: &[u64]) -> Option<(&'static str, String)> {
    let text = if want.len() == 1 {
        format!("expected 32 s after last use = {} ms", want[0])
    } else {
        format!("expected 32 s after last use = {} ms, or 32 s after later bytes of an unfinished message / keep-alive = one of {:?} ms", want[0], &want[1..])
    };
    match got {
        Some(t) if want.iter().any(|w| t.abs_diff(*w) <= 2) => None,
        Some(t) if t < want[0] => Some(("closed-too-early", format!("closed at {t} ms, {text}"))),
        Some(t) if t > *want.last().unwrap() => Some(("closed-too-late", format!("closed at {t} ms, {text}"))),
        Some(t) => Some(("closed-off-schedule", format!("closed at {t} ms, {text}"))),
        None => Some(("never-closed", format!("never closed, {text}"))),
    }
}

pub fn property() -> Property {
    Property {
        fuzz: vec![],
        id: "C15",
        rule: "a case = one mock connection under test (outbound via a mock factory + select_transport, or inbound via a mock listener) and a history of 1..8 ops {clone handle, drop handle, drop all, inbound message (application keeps / releases the handle that comes with it), peer close, garbage bytes, select_transport to the same remote (handle kept), touch = select_transport to the same remote + release of the handle with no scheduling point in between, probe = select_transport for a target the connection must not serve (sips: on the same address, other port, other host; handle released at once), partial = the peer writes the beginning of a request (10 bytes / 90 bytes / head without the empty line / head without body / head and half the body) or CRLF CR or a lone CR and stops (the next message op writes the rest, a further partial half of the rest), keep-alive = a whole CRLF CRLF; an inbound message carries the time the application layer works on it inside Layer::receive before it lets go of the request / hands it on to be kept: 0 (most), 1, 100, 5000, 16000, 32003, 40000 ms, the history goes on meanwhile} with gaps from {0 (same instant, no scheduling point: all ops of an instant are pending when the connection's task is polled), 1, 100, 16000, 32000-3, 32000-1, 32000+1, 32000+3, 64000} ms under a paused clock and a tokio select seed. race sub-check enumerates the race named by the property (last handle dropped and a message in the same instant, both orders, around idle periods on the 32 s edge) under 64 (thorough 256) select seeds. pickup sub-check enumerates an idle outbound connection picked up and released between two polls of its task together with message(s) / peer close / garbage in the same instant (7 shapes with a message x keep, 2 without, x idle time before x 32 s -3/+3 ms after) under 32 (thorough 256) select seeds. probe sub-check enumerates selections for the three other targets, once and every 20 s, while the connection is idle / silent / referenced. reselect sub-check enumerates the release of the last handle (5 ways) and a select_transport to the same remote in the same instant with no scheduling point in between (5 continuations of the instant), the handle then held across 32 s +3 ms, a message, another 32 s -3/+3 ms, released, selected again, under 8 (thorough 64) select seeds. fragment sub-check enumerates 7 fragments + whole keep-alive x {accepted and silent, accepted and released, outbound and released, still referenced and released 100 ms later} x arrival 1 ms / 16 s / 32 s -3 ms into the idle period x {nothing, rest, another piece, peer close, pick-up held 64 s then rest, selection 64 s later}. busy sub-check enumerates a request the application layer works on for 5 s / 40 s x {outbound, accepted} x {application holds a handle of its own, or not} x keep x what happens 100 ms after the arrival {nothing, peer close, garbage, own handles released, another message, another message + peer close, handles released + peer close, beginning of a message, another message worked on for 5 s, pick-up + release} x {selection 1 s later (still busy), selection 1 s after the work, message + selection 32 s -3/+3 ms after the layer let go, nothing} under 4 (thorough 32) select seeds. Oracle = lifecycle reference model: a request the application layer works on holds a handle from the instant the layer was called (read back) until it lets go, the layer's release can be the last use; registered while referenced; delivered exactly once while alive; closed 32 s after last use (selections for other targets are no use); unregistered at once on peer close / framing error and never selected afterwards; live outbound connection reused; inbound connections never selected; a connection the history moved away from still expires 32 s after its own last use; a selection in the instant of the last release may reuse or reconnect, the connection it returns is referenced from then on; with bytes that are no whole message the close is accepted 32 s after the last use or 32 s after any later such arrival, and is due after the last of these. Non-trivial = a selection in the instant of the last release, or a fragment / keep-alive on an unreferenced connection, or an idle period ending with a fragment in the read buffer, or a drop-last and a message within 1 ms, or an event within 3 ms of a 32 s edge, or a pick-up + release of an unreferenced connection sharing its instant with a message / close, or a probe while the connection is unreferenced, or something happening on the connection while the application layer works on a request (peer close, garbage, release of the application's handles, message, fragment, selection), or an idle period that starts with the layer's release.",
        assumptions: vec![
            "events exactly on the 32 s edge (within 2 ms) stop the comparison (tie is a don't-care)",
            "a peer close / framing error only has to be known after a scheduling point (settle) following it; in every other state select_transport is called with whatever is pending. Reuse is demanded whenever the connection is alive, except in the instant its last handle was released (before the stack ran): there reuse and reconnect are both accepted",
            "'32 s without traffic': bytes that are no whole message (fragment of a request, CRLF keep-alive) may or may not count as traffic; a history with an op between the two resulting expiry instants is not judged",
            "while an outbound connection the history moved away from alive can still be idle (32 s), selections to the remote are left out (which of two live connections is picked is unspecified and depends on hash map order)",
            "garbage is only sent between messages (behind a fragment it would be read as part of the message)",
            "the application layer takes the request at once and then awaits (tokio sleep under the paused clock) for the generated time; the instant it was called is read back from the layer, so when ezk hands a message to the layers is not asserted; the end of the work and an op in the same ms are accepted in both orders; after the history the layer lets go of everything it works on when that work is done",
            "a connection the peer closed / sent garbage on is not counted as registered when the managed-transport count is attributed (a request still being worked on can keep ezk's end open, so the peer sees no EOF)",
            "the peer observes the close as EOF on the in-memory duplex pipe",
            "only a non-secure (TCP) factory is registered: a sips: target has no transport and select_transport may refuse it; what a probe returns is not judged",
            "managed-transport count is attributed to the connection under test after subtracting the other connections of the case the peer has not seen closed (nobody holds handles on those)",
        ],
        explanation: "race, pickup, probe, reselect, fragment and busy sub-checks exhaustive over their small products x seeds; random histories sampled",
        subs: vec![
            enum_sub("race", race_cases, check),
            enum_sub("pickup", pickup_cases, check),
            enum_sub("probe", probe_cases, check),
            enum_sub("reselect", reselect_cases, check),
            enum_sub("fragment", fragment_cases, check),
            enum_sub("busy", busy_cases, check),
            prop_sub("history", strategy, 1500, 30000, check),
        ],
    }
}
