//! C15 — Connections live while referenced, expire 32 s after last use, never reused dead

use super::c06::ChannelLayer;
use crate::engine::*;
use crate::world::stream::*;
use crate::world::*;
use proptest::prelude::*;
use serde::{Deserialize, Serialize};
use sip_core::transport::TpHandle;
use sip_core::IncomingRequest;
use sip_types::uri::sip::SipUri;
use std::sync::atomic::Ordering;
use std::sync::Arc;
use tokio::sync::mpsc;

const IDLE: u64 = 32_000;

#[derive(Serialize, Deserialize, Clone, Copy, Debug, Hash, PartialEq, Eq)]
pub enum Op {
    /// application clones a handle it holds
    Clone,
    /// application drops one handle
    Drop,
    /// application drops every handle it holds
    DropAll,
    /// peer sends a request on the connection; the application keeps the handle that comes with it (or not)
    Msg { keep: bool },
    /// peer closes its side
    PeerClose,
    /// peer sends bytes that are not SIP
    Garbage,
    /// application asks for a transport to the same remote (select_transport)
    Select,
}

#[derive(Serialize, Deserialize, Clone, Debug, Hash)]
pub struct Case {
    pub inbound: bool,
    /// (gap in ms to the previous op; 0 = same instant, no scheduling point in between)
    pub ops: Vec<(u64, Op)>,
    pub rng: u8,
}

const GAPS: &[u64] = &[0, 0, 1, 1, 100, 16_000, IDLE - 1, IDLE + 1, IDLE - 1, IDLE + 1, 2 * IDLE];

pub fn strategy() -> BoxedStrategy<Case> {
    let op = prop_oneof![
        2 => Just(Op::Clone),
        4 => Just(Op::Drop),
        2 => Just(Op::DropAll),
        3 => Just(Op::Msg { keep: false }),
        2 => Just(Op::Msg { keep: true }),
        1 => Just(Op::PeerClose),
        1 => Just(Op::Garbage),
        2 => Just(Op::Select),
    ];
    (any::<bool>(), prop::collection::vec((any::<u16>(), op), 1..9), any::<u8>())
        .prop_map(|(inbound, ops, rng)| Case {
            inbound,
            ops: ops.into_iter().map(|(g, o)| (GAPS[pick_idx(g, GAPS.len())], o)).collect(),
            rng,
        })
        .boxed()
}

/// the race named by the property, enumerated: last handle dropped and a message arriving in the same
/// instant, both orders, around it idle periods on the 32 s edge; all 256 tokio seeds
pub fn race_cases(tier: Tier) -> Vec<Case> {
    let mut out = vec![];
    let seeds = tier.pick(64u32, 256u32);
    for inbound in [false, true] {
        for order in 0..2 {
            for keep in [false, true] {
                for tail in [IDLE - 1, IDLE + 1] {
                    for lead in [1u64, IDLE - 1] {
                        for rng in 0..seeds {
                            let mut ops = vec![];
                            if inbound {
                                // an inbound connection gets its first handle through a message
                                ops.push((1, Op::Msg { keep: true }));
                            }
                            ops.push((lead, Op::Clone));
                            ops.push((1, Op::Drop));
                            if order == 0 {
                                ops.push((1, Op::Drop));
                                ops.push((0, Op::Msg { keep }));
                            } else {
                                ops.push((1, Op::Msg { keep }));
                                ops.push((0, Op::DropAll));
                            }
                            ops.push((tail, Op::Msg { keep: false }));
                            ops.push((1, Op::Select));
                            out.push(Case { inbound, ops, rng: rng as u8 });
                        }
                    }
                }
            }
        }
    }
    out
}

// ---------------------------------------------------------------------------------------------
// reference model

#[derive(Debug, Clone, Default)]
struct Model {
    /// handles the application holds on the current connection
    handles: u32,
    /// connection registered with the endpoint (not closed by peer / error / expiry)
    alive: bool,
    /// since when nobody references it
    unused_since: Option<u64>,
    /// instant the peer must see EOF because of idle expiry
    expect_eof: Option<u64>,
    connects: u32,
    /// number of connections ever opened (index of the current one)
    generation: u32,
    expected_delivered: Vec<String>,
    ambiguous: bool,
}

impl Model {
    fn expire_if_due(&mut self, t: u64) {
        if let (true, Some(u)) = (self.alive, self.unused_since) {
            if self.handles == 0 {
                if t.abs_diff(u + IDLE) <= 2 {
                    self.ambiguous = true;
                } else if t > u + IDLE {
                    self.alive = false;
                    self.expect_eof = Some(u + IDLE);
                }
            }
        }
    }
}

// ---------------------------------------------------------------------------------------------

pub struct Observed {
    pub delivered: Vec<(u64, String, u32)>,
    pub problems: Vec<String>,
    pub eof: Vec<(u32, Option<u64>)>,
    pub final_count: usize,
}

enum PeerAct {
    Write(Vec<u8>),
    Close,
}

/// act on the peer end of the connection the history currently talks about
async fn peer_do(first_inbound: bool, inbound: &mut Vec<PeerConn>, probe: &FactoryProbe, act: PeerAct) -> bool {
    let mut taken = if first_inbound { inbound.pop() } else { probe.conns.lock().pop() };
    let ok = match (&mut taken, act) {
        (Some(p), PeerAct::Write(b)) => p.write(&b).await,
        (Some(p), PeerAct::Close) => {
            p.close().await;
            true
        }
        (None, _) => false,
    };
    if let Some(p) = taken {
        if first_inbound {
            inbound.push(p);
        } else {
            probe.conns.lock().push(p);
        }
    }
    ok
}

fn options(marker: &str, via_transport: &str) -> Vec<u8> {
    request_text(
        "OPTIONS",
        "sip:ezk@10.0.0.1",
        &[format!("SIP/2.0/{via_transport} 192.0.2.5:5060;branch=z9hG4bKc15{marker}")],
        "<sip:peer@192.0.2.5>;tag=pt",
        "<sip:ezk@10.0.0.1>",
        &format!("c15-{marker}"),
        1,
        "OPTIONS",
        &[format!("X-Seq: {marker}")],
        b"",
    )
}

pub fn check(case: &Case, out: &mut CaseOut) {
    let c = case.clone();
    let (obs, model, steps): (Observed, Model, Vec<String>) = run_world(case.rng as u64, |clock| async move {
        let log = WireLog::new(clock);
        let (factory, probe) = mock_factory::<false>(clock, &log);
        let (lb, dialer) = mock_listener::<false>(clock, &log, "10.0.0.1:5060");
        let rec = Recorder::new(clock);
        let (tx, mut rx) = mpsc::unbounded_channel::<IncomingRequest>();
        let mut b = offline_builder();
        b.add_transport_factory(Arc::new(factory));
        b.add_layer(ChannelLayer { rec: rec.clone(), tx });
        use sip_core::transport::streaming::StreamingListenerBuilder;
        lb.spawn(&mut b, "10.0.0.1:5060").await.unwrap();
        let endpoint = b.build();
        settle().await;
        let uri: SipUri = "sip:peer@192.0.2.5:5060;transport=tcp".parse().unwrap();

        let mut m = Model::default();
        let mut problems: Vec<String> = vec![];
        let mut steps: Vec<String> = vec![];
        let mut handles: Vec<TpHandle> = vec![];
        // peer ends of every connection of this case, current one last
        let mut inbound_conns: Vec<PeerConn> = vec![];
        let mut delivered: Vec<(u64, String, u32)> = vec![];

        // open the connection
        if c.inbound {
            inbound_conns.push(dialer.dial("192.0.2.5:5060"));
            settle().await;
            m.alive = true;
            m.unused_since = Some(0);
            m.generation = 1;
        } else {
            match endpoint.select_transport(&uri).await {
                Ok((h, _)) => handles.push(h),
                Err(e) => problems.push(format!("initial select failed: {e}")),
            }
            settle().await;
            m.alive = true;
            m.handles = 1;
            m.connects = 1;
            m.generation = 1;
        }

        let mut msg_gen: std::collections::HashMap<String, u32> = Default::default();
        let mut t = 0u64;
        let mut seq = 0;
        let n = c.ops.len();
        for (i, (gap, op)) in c.ops.iter().enumerate() {
            t += gap;
            clock.until(t).await;
            m.expire_if_due(t);
            if m.ambiguous {
                break;
            }
            match op {
                Op::Clone => {
                    if let Some(h) = handles.last().cloned() {
                        handles.push(h);
                        m.handles += 1;
                    }
                }
                Op::Drop => {
                    if handles.pop().is_some() {
                        m.handles -= 1;
                        if m.handles == 0 {
                            m.unused_since = Some(t);
                        }
                    }
                }
                Op::DropAll => {
                    if !handles.is_empty() {
                        handles.clear();
                        m.handles = 0;
                        m.unused_since = Some(t);
                    }
                }
                Op::Msg { keep } => {
                    seq += 1;
                    let marker = format!("m{seq}");
                    msg_gen.insert(marker.clone(), m.generation);
                    let bytes = options(&marker, "TCP");
                    let _ = peer_do(c.inbound && m.generation == 1, &mut inbound_conns, &probe, PeerAct::Write(bytes)).await;
                    // the rest of this op happens after the scheduling point below
                    if m.alive {
                        m.expected_delivered.push(marker.clone());
                    }
                    // let the stack run unless the next op shares the instant
                    let next_same_instant = c.ops.get(i + 1).map_or(false, |(g, _)| *g == 0);
                    if !next_same_instant {
                        settle().await;
                    }
                    // collect what the layer got (possibly later, after the shared-instant partner ran)
                    let _ = keep;
                }
                Op::PeerClose => {
                    peer_do(c.inbound && m.generation == 1, &mut inbound_conns, &probe, PeerAct::Close).await;
                    if m.alive {
                        m.alive = false;
                    }
                }
                Op::Garbage => {
                    peer_do(c.inbound && m.generation == 1, &mut inbound_conns, &probe, PeerAct::Write(b"\x01\x02 this is not sip\r\n\r\n".to_vec())).await;
                    if m.alive {
                        m.alive = false;
                    }
                }
                Op::Select => {
                    // reuse is only demanded after a scheduling point
                    settle().await;
                    let before = probe.connects.lock().len();
                    match endpoint.select_transport(&uri).await {
                        Ok((h, _)) => {
                            let after = probe.connects.lock().len();
                            let reusable = m.alive && !(c.inbound && m.generation == 1);
                            if reusable {
                                if after != before {
                                    problems.push(format!("t={t}: live outbound connection not reused (connect called)"));
                                }
                                m.handles += 1;
                                m.unused_since = None;
                                handles.push(h);
                            } else {
                                if after == before {
                                    problems.push(format!(
                                        "t={t}: select_transport handed out a connection that is {} instead of connecting anew",
                                        if c.inbound && m.generation == 1 && m.alive { "inbound" } else { "closed/expired" }
                                    ));
                                }
                                // from now on the new connection is the one the history talks about;
                                // handles on the old one are let go
                                handles.clear();
                                handles.push(h);
                                m.generation += 1;
                                m.connects += 1;
                                m.alive = true;
                                m.handles = 1;
                                m.unused_since = None;
                                m.expect_eof = None;
                            }
                        }
                        Err(e) => problems.push(format!("t={t}: select_transport failed: {e}")),
                    }
                }
            }
            let next_same_instant = c.ops.get(i + 1).map_or(false, |(g, _)| *g == 0);
            if !next_same_instant {
                settle().await;
                // deliveries: keep or release the handle that came with each request
                while let Ok(req) = rx.try_recv() {
                    let marker = req
                        .headers
                        .iter()
                        .find(|(n, _)| n.as_print_str().eq_ignore_ascii_case("x-seq"))
                        .map(|(_, v)| v.to_string())
                        .unwrap_or_default();
                    delivered.push((clock.now_ms(), marker.clone(), m.generation));
                    // find the op that sent it to learn `keep`
                    let idx: usize = marker[1..].parse().unwrap_or(0);
                    let keep = c
                        .ops
                        .iter()
                        .filter_map(|(_, o)| if let Op::Msg { keep } = o { Some(*keep) } else { None })
                        .nth(idx.saturating_sub(1))
                        .unwrap_or(false);
                    if msg_gen.get(&marker) != Some(&m.generation) {
                        // arrived on a connection the history has moved away from
                        drop(req);
                        continue;
                    }
                    if keep && m.alive {
                        handles.push(req.tp_info.transport.clone());
                        m.handles += 1;
                        m.unused_since = None;
                    } else if m.alive && m.handles == 0 {
                        // traffic on an unreferenced connection restarts the idle period
                        m.unused_since = Some(t);
                    }
                    drop(req);
                }
                settle().await;
                let count = endpoint.verif_counts().1;
                steps.push(format!("{t}ms {op:?} -> handles={} alive={} managed={count}", m.handles, m.alive));
                // registered while referenced
                if m.alive && m.handles > 0 && count == 0 {
                    problems.push(format!("t={t}: connection with {} live handles is not registered any more", m.handles));
                }
                // (older connections of this history may still be in their own idle period: only judged while
                // the first connection is the only one)
                if !m.alive && m.expect_eof.is_none() && count != 0 && i + 1 == n && m.generation == 1 {
                    problems.push(format!("t={t}: closed connection still registered ({count})"));
                }
            }
        }

        // wind down: drop everything, wait past every timer
        if !m.ambiguous {
            m.expire_if_due(t);
        }
        let had_handles = !handles.is_empty();
        handles.clear();
        settle().await;
        if m.alive && !m.ambiguous {
            if had_handles || m.unused_since.is_none() {
                m.unused_since = Some(t);
            }
            if let Some(u) = m.unused_since {
                m.expect_eof = Some(u + IDLE);
                m.alive = false;
            }
        }
        while let Ok(req) = rx.try_recv() {
            drop(req);
        }
        clock.advance(3 * IDLE).await;
        settle().await;
        // the connection the history talks about at its end comes last
        let mut eof = vec![];
        for p in probe.conns.lock().iter() {
            eof.push((p.id, *p.eof_at.lock()));
        }
        if c.inbound && m.generation == 1 {
            for p in inbound_conns.iter() {
                eof.push((p.id, *p.eof_at.lock()));
            }
        }
        let final_count = endpoint.verif_counts().1;
        let _ = probe.fail.load(Ordering::SeqCst);
        (Observed { delivered, problems, eof, final_count }, m, steps)
    });

    out.note = Some(format!("steps={steps:?} delivered={:?} eof={:?}", obs.delivered, obs.eof));
    out.class(if case.inbound { "inbound" } else { "outbound" });
    let mut race = false;
    for w in case.ops.windows(2) {
        let (a, b) = (&w[0].1, &w[1]);
        if b.0 <= 1 {
            let pair = (matches!(a, Op::Drop | Op::DropAll) && matches!(b.1, Op::Msg { .. })) || (matches!(a, Op::Msg { .. }) && matches!(b.1, Op::Drop | Op::DropAll));
            if pair {
                race = true;
                if b.0 == 0 {
                    out.class("drop-last-and-message-same-instant");
                }
            }
        }
    }
    let edge = case.ops.iter().any(|(g, _)| *g == IDLE - 1 || *g == IDLE + 1);
    if edge {
        out.class("event-within-1ms-of-32s-edge");
    }
    if model.ambiguous {
        out.class("tie-on-32s-edge(unasserted)");
    }
    if race || edge {
        out.nontrivial(case);
    }

    for p in &obs.problems {
        let locus = if p.contains("not reused") {
            "live-connection-not-reused"
        } else if p.contains("handed out a connection") {
            "dead-or-inbound-connection-selected"
        } else if p.contains("not registered any more") {
            "referenced-connection-unregistered"
        } else if p.contains("still registered") {
            "closed-connection-still-registered"
        } else {
            "other"
        };
        out.fail(format!("c15.lifecycle/{locus}"), p.clone());
    }
    if model.ambiguous {
        return;
    }
    // every message sent while the connection was alive is delivered exactly once, in order
    let got: Vec<String> = obs.delivered.iter().map(|d| d.1.clone()).collect();
    if got != model.expected_delivered {
        let lost = model.expected_delivered.iter().any(|m| !got.contains(m));
        out.fail(
            if lost { "c15.delivery/message-on-live-connection-lost" } else { "c15.delivery/unexpected-or-duplicate" },
            format!("delivered {got:?}, expected {:?}", model.expected_delivered),
        );
    }
    // idle expiry: the connection is closed 32 s after it was last used
    if let Some(want) = model.expect_eof {
        let last = obs.eof.last().and_then(|e| e.1);
        match last {
            Some(t) if t.abs_diff(want) <= 2 => {}
            Some(t) => out.fail(
                if t < want { "c15.expiry/closed-too-early" } else { "c15.expiry/closed-too-late" },
                format!("connection closed at {t} ms, expected 32 s after last use = {want} ms"),
            ),
            None => out.fail("c15.expiry/never-closed", format!("connection never closed, expected at {want} ms")),
        }
    }
    if obs.final_count != 0 {
        out.fail("c15.expiry/still-registered-at-end", format!("{} managed transports left after everything was dropped and 96 s passed", obs.final_count));
    }
}

pub fn property() -> Property {
    Property {
        fuzz: vec![],
        id: "C15",
        rule: "a case = one mock connection (outbound via a mock factory + select_transport, or inbound via a mock listener) and a history of 1..8 ops {clone handle, drop handle, drop all, inbound message (application keeps / releases the handle that comes with it), peer close, garbage bytes, select_transport to the same remote} with gaps from {0 (same instant, no scheduling point), 1, 100, 16000, 32000-1, 32000+1, 64000} ms under a paused clock and a tokio select seed. race sub-check enumerates the race named by the property (last handle dropped and a message in the same instant, both orders, around idle periods on the 32 s edge) under 64 (thorough 256) select seeds. Oracle = lifecycle reference model: registered while referenced; delivered exactly once while alive; closed 32 s after last use; unregistered at once on peer close / framing error and never selected afterwards; inbound connections never selected. Non-trivial = a drop-last and a message within 1 ms, or an event within 1 ms of a 32 s edge.",
        assumptions: vec![
            "events exactly on the 32 s edge (within 2 ms) stop the comparison (tie is a don't-care)",
            "reuse is only demanded after a scheduling point (settle) following the drop",
            "the peer observes the close as EOF on the in-memory duplex pipe",
        ],
        explanation: "race sub-check exhaustive over its small product x seeds; random histories sampled",
        subs: vec![
            enum_sub("race", race_cases, check),
            prop_sub("history", strategy, 1500, 30000, check),
        ],
    }
}
