//! C15 — Connections live while referenced, expire 32 s after last use, never reused dead
//!
//! What is generated
//! * a case = one mock connection ("the connection under test": outbound through a mock TCP factory and
//!   `select_transport`, or inbound through a mock listener), a history of ops with gaps on a grid
//!   {0 = same instant and NO scheduling point in between, 1, 100, 16 s, 32 s -3/-1/+1/+3 ms, 64 s} under a paused
//!   clock, and a tokio seed (decides the poll order inside the receive task's `select!`).
//! * ops on the connection under test: clone / drop / drop-all of handles, inbound message (application keeps or
//!   releases the handle that comes with it), peer close, garbage bytes, `Select` (select_transport to the same
//!   remote, handle kept), `Touch` (select_transport to the same remote and release of the returned handle with no
//!   scheduling point in between: the registry is changed twice between two polls of the connection's task).
//!   Ops that share an instant are executed back to back, the stack runs only after the last of them, so a
//!   pick-up, a release, a message, a close can all be pending when the task is polled next.
//! * ops that must NOT concern the connection under test: `Probe` = select_transport for another target whose
//!   registry scan passes over the connection (sips: URI on the same address = security level too low; other port;
//!   other host). The returned handle (a side connection, or an error when nothing can serve the target) is
//!   released at once.
//! * sub-checks: `race` (drop-last + message in one instant, enumerated x seeds), `pickup` (pick-up + release of an
//!   idle connection between two polls together with message / close / garbage in the same instant, enumerated x
//!   seeds), `probe` (selections for other targets while the connection is idle / silent / referenced, once and
//!   periodically, enumerated), `history` (random histories over all ops).
//!
//! Oracle (lifecycle reference model, written from the property statement, never asks ezk what it expects)
//! * registered while referenced; every message written while the connection is alive is delivered exactly once,
//!   in order; closed (EOF seen by the peer) 32 s after the last use = last handle release or last message on an
//!   unreferenced connection; unregistered at once on peer close / framing error and never selected afterwards;
//!   a live outbound connection is reused by select_transport; inbound connections are never selected;
//!   a connection the history has moved away from (inbound one after a Select) still expires 32 s after its own
//!   last use; selections for other targets are not a use of the connection (its expiry instant is unchanged).
//!
//! Not asserted
//! * anything within 2 ms of a 32 s edge (tie); what a select_transport returns in the very instant the last handle
//!   was released or the peer closed, before the stack ran (the harness inserts a scheduling point there);
//!   what a `Probe` returns (error, new or pooled side connection) and the lifetime of side connections;
//!   TLS connections (only a non-secure factory is registered, so a sips: target has no transport).

use super::c06::ChannelLayer;
use crate::engine::*;
use crate::world::stream::*;
use crate::world::*;
use proptest::prelude::*;
use serde::{Deserialize, Serialize};
use sip_core::transport::TpHandle;
use sip_core::IncomingRequest;
use sip_types::uri::sip::SipUri;
use std::sync::Arc;
use tokio::sync::mpsc;

const IDLE: u64 = 32_000;
const MAIN_REMOTE: &str = "192.0.2.5:5060";

/// a selection target the connection under test must not serve
#[derive(Serialize, Deserialize, Clone, Copy, Debug, Hash, PartialEq, Eq)]
pub enum Other {
    /// sips: URI resolving to the very address the (non-secure) connection is connected to
    SecureSameAddr,
    /// same host, other port
    OtherPort,
    /// other host, same port
    OtherHost,
}

impl Other {
    const ALL: [Other; 3] = [Other::SecureSameAddr, Other::OtherPort, Other::OtherHost];
    fn uri(self) -> SipUri {
        match self {
            Other::SecureSameAddr => "sips:peer@192.0.2.5:5060;transport=tcp",
            Other::OtherPort => "sip:peer@192.0.2.5:5070;transport=tcp",
            Other::OtherHost => "sip:peer@192.0.2.6:5060;transport=tcp",
        }
        .parse()
        .unwrap()
    }
    fn label(self) -> &'static str {
        match self {
            Other::SecureSameAddr => "probe:sips-same-address-while-unreferenced",
            Other::OtherPort => "probe:other-port-while-unreferenced",
            Other::OtherHost => "probe:other-host-while-unreferenced",
        }
    }
}

#[derive(Serialize, Deserialize, Clone, Copy, Debug, Hash, PartialEq, Eq)]
pub enum Op {
    /// application clones a handle it holds
    Clone,
    /// application drops one handle
    Drop,
    /// application drops every handle it holds
    DropAll,
    /// peer sends a request on the connection; the application keeps the handle that comes with it (or not)
    Msg { keep: bool },
    /// peer closes its side
    PeerClose,
    /// peer sends bytes that are not SIP
    Garbage,
    /// application asks for a transport to the same remote (select_transport) and keeps the handle
    Select,
    /// application asks for a transport to the same remote and releases the handle again before anything else runs
    Touch,
    /// application asks for a transport to another target; the handle (if any) is released at once
    Probe { target: Other },
}

#[derive(Serialize, Deserialize, Clone, Debug, Hash)]
pub struct Case {
    pub inbound: bool,
    /// (gap in ms to the previous op; 0 = same instant, no scheduling point in between)
    pub ops: Vec<(u64, Op)>,
    pub rng: u8,
}

const GAPS: &[u64] = &[0, 0, 0, 0, 1, 1, 100, 16_000, 16_000, IDLE - 3, IDLE - 1, IDLE + 1, IDLE + 3, IDLE - 1, IDLE + 1, 2 * IDLE];

pub fn strategy() -> BoxedStrategy<Case> {
    let op = prop_oneof![
        2 => Just(Op::Clone),
        4 => Just(Op::Drop),
        2 => Just(Op::DropAll),
        3 => Just(Op::Msg { keep: false }),
        2 => Just(Op::Msg { keep: true }),
        1 => Just(Op::PeerClose),
        1 => Just(Op::Garbage),
        2 => Just(Op::Select),
        3 => Just(Op::Touch),
        1 => Just(Op::Probe { target: Other::SecureSameAddr }),
        1 => Just(Op::Probe { target: Other::OtherPort }),
        1 => Just(Op::Probe { target: Other::OtherHost }),
    ];
    (any::<bool>(), prop::collection::vec((any::<u16>(), op), 1..9), any::<u8>())
        .prop_map(|(inbound, ops, rng)| Case {
            inbound,
            ops: ops.into_iter().map(|(g, o)| (GAPS[pick_idx(g, GAPS.len())], o)).collect(),
            rng,
        })
        .boxed()
}

/// the race named by the property, enumerated: last handle dropped and a message arriving in the same
/// instant, both orders, around it idle periods on the 32 s edge; all 256 tokio seeds
pub fn race_cases(tier: Tier) -> Vec<Case> {
    let mut out = vec![];
    let seeds = tier.pick(64u32, 256u32);
    for inbound in [false, true] {
        for order in 0..2 {
            for keep in [false, true] {
                for tail in [IDLE - 1, IDLE + 1] {
                    for lead in [1u64, IDLE - 1] {
                        for rng in 0..seeds {
                            let mut ops = vec![];
                            if inbound {
                                // an inbound connection gets its first handle through a message
                                ops.push((1, Op::Msg { keep: true }));
                            }
                            ops.push((lead, Op::Clone));
                            ops.push((1, Op::Drop));
                            if order == 0 {
                                ops.push((1, Op::Drop));
                                ops.push((0, Op::Msg { keep }));
                            } else {
                                ops.push((1, Op::Msg { keep }));
                                ops.push((0, Op::DropAll));
                            }
                            ops.push((tail, Op::Msg { keep: false }));
                            ops.push((1, Op::Select));
                            out.push(Case { inbound, ops, rng: rng as u8 });
                        }
                    }
                }
            }
        }
    }
    out
}

/// an idle (unreferenced, timer running) outbound connection is picked up by select_transport and released again
/// between two polls of its task, and in the same instant something else happens on it; afterwards the
/// application holds (or does not hold) the handle that came with the message across a 32 s edge.
/// Enumerated: how the connection became outbound+idle x idle time before x shape of the instant x keep x
/// time after x tokio seeds.
pub fn pickup_cases(tier: Tier) -> Vec<Case> {
    let mut out = vec![];
    let seeds = tier.pick(32u32, 256u32);
    let clusters = |keep: bool| -> Vec<Vec<Op>> {
        let msg = Op::Msg { keep };
        let mut v = vec![
            vec![Op::Touch, msg],
            vec![msg, Op::Touch],
            vec![Op::Select, Op::Drop, msg],
            vec![Op::Select, msg, Op::Drop],
            vec![Op::Select, Op::Clone, Op::DropAll, msg],
            vec![Op::Touch, msg, msg],
            vec![Op::Touch, msg, Op::PeerClose],
        ];
        if !keep {
            // shapes without a message do not depend on `keep`
            v.push(vec![Op::Touch, Op::PeerClose]);
            v.push(vec![Op::Touch, Op::Garbage]);
        }
        v
    };
    for inbound in [false, true] {
        for lead in [1u64, IDLE - 3] {
            for keep in [false, true] {
                for cluster in clusters(keep) {
                    for tail in [IDLE - 3, IDLE + 3] {
                        for rng in 0..seeds {
                            let mut ops = vec![];
                            if inbound {
                                // the history leaves the accepted connection for an outbound one to the same remote
                                ops.push((1, Op::Select));
                            }
                            ops.push((1, Op::DropAll));
                            for (i, op) in cluster.iter().enumerate() {
                                ops.push((if i == 0 { lead } else { 0 }, *op));
                            }
                            ops.push((tail, Op::Msg { keep: false }));
                            ops.push((1, Op::Select));
                            out.push(Case { inbound, ops, rng: rng as u8 });
                        }
                    }
                }
            }
        }
    }
    out
}

/// selections for other targets (registry scans that pass over the connection under test) while it is idle
/// (outbound, last handle released), silent (inbound, never used) or referenced; once, or periodically with a
/// period below 32 s. Nothing here depends on the select order, a few seeds only.
pub fn probe_cases(tier: Tier) -> Vec<Case> {
    let mut out = vec![];
    let seeds = tier.pick(2u32, 16u32);
    for inbound in [false, true] {
        for referenced in [false, true] {
            for target in Other::ALL {
                for lead in [100u64, 16_000, IDLE - 3] {
                    for repeat in [1usize, 3] {
                        for rng in 0..seeds {
                            let mut ops = vec![];
                            match (inbound, referenced) {
                                (false, false) => ops.push((1, Op::DropAll)),
                                (false, true) => {}
                                (true, false) => {}
                                (true, true) => ops.push((1, Op::Msg { keep: true })),
                            }
                            ops.push((lead, Op::Probe { target }));
                            for _ in 1..repeat {
                                ops.push((20_000, Op::Probe { target }));
                            }
                            if referenced {
                                ops.push((1, Op::DropAll));
                                ops.push((20_000, Op::Probe { target }));
                            }
                            out.push(Case { inbound, ops, rng: rng as u8 });
                        }
                    }
                }
            }
        }
    }
    out
}

// ---------------------------------------------------------------------------------------------
// reference model

#[derive(Debug, Clone, Default)]
struct Model {
    /// handles the application holds on the current connection
    handles: u32,
    /// connection registered with the endpoint (not closed by peer / error / expiry)
    alive: bool,
    /// since when nobody references it
    unused_since: Option<u64>,
    /// instant the peer must see EOF because of idle expiry
    expect_eof: Option<u64>,
    /// number of connections ever opened (index of the current one)
    generation: u32,
    expected_delivered: Vec<String>,
    ambiguous: bool,
    /// since the stack last ran: the last handle was released, or the peer closed / sent garbage. What a
    /// select_transport finds in this state is not asserted (the harness lets the stack run first)
    dirty: bool,
    /// since the stack last ran: a message was written to the live connection (it will be delivered in this instant)
    msg_unsettled: bool,
    /// since the stack last ran: select_transport picked up the connection while nobody referenced it
    revived_this_instant: bool,
    /// since the stack last ran: the connection was picked up while unreferenced and released again, i.e. the
    /// registry went unused -> used -> (dead reference count) between two polls of the connection's task
    pickup_released: bool,
    /// that happened at least once in the history
    pickup_released_ever: bool,
    /// since the stack last ran: bytes of a message / an end of stream or garbage wait to be read by the task
    task_has_message: bool,
    task_has_close: bool,
    /// the connection's task was polled with a pick-up + release AND a message (a close) pending
    pickup_with_message_ever: bool,
    pickup_with_close_ever: bool,
    /// connections the history has moved away from: (peer conn id, instant their own idle period ends)
    left: Vec<(u32, u64)>,
}

impl Model {
    fn expire_if_due(&mut self, t: u64) {
        if let (true, Some(u)) = (self.alive, self.unused_since) {
            if self.handles == 0 {
                if t.abs_diff(u + IDLE) <= 2 {
                    self.ambiguous = true;
                } else if t > u + IDLE {
                    self.alive = false;
                    self.expect_eof = Some(u + IDLE);
                }
            }
        }
    }
    fn released_last(&mut self, t: u64) {
        self.unused_since = Some(t);
        self.dirty = true;
        if self.revived_this_instant {
            self.pickup_released = true;
            self.pickup_released_ever = true;
        }
    }
    /// the stack ran
    fn settled(&mut self) {
        if self.pickup_released && self.task_has_message {
            self.pickup_with_message_ever = true;
        }
        if self.pickup_released && self.task_has_close {
            self.pickup_with_close_ever = true;
        }
        self.dirty = false;
        self.revived_this_instant = false;
        self.pickup_released = false;
        self.task_has_message = false;
        self.task_has_close = false;
    }
}

/// which generator shapes the case really reached (depends on the model state, so collected while running)
#[derive(Debug, Clone, Default)]
pub struct Facts {
    pub select_while_message_pending: bool,
    pub probe_while_unreferenced: Vec<Other>,
    pub probe_while_referenced: bool,
    pub probe_refused: bool,
    pub probe_side_connection: bool,
}

// ---------------------------------------------------------------------------------------------

pub struct Observed {
    pub delivered: Vec<(u64, String, u32)>,
    pub problems: Vec<String>,
    /// (peer conn id, instant the peer saw ezk close) of the connection under test at the end of the history
    pub eof: Option<(u32, Option<u64>)>,
    /// the same for every connection of the case
    pub all_eof: Vec<(u32, Option<u64>)>,
    pub final_count: usize,
}

enum PeerAct {
    Write(Vec<u8>),
    Close,
}

/// act on the peer end of connection `id` (taken out of its list while the peer writes, so that no lock is held
/// across an await, and put back in place)
async fn peer_do(id: Option<u32>, inbound: &mut Vec<PeerConn>, probe: &FactoryProbe, act: PeerAct) -> bool {
    let Some(id) = id else { return false };
    let mut taken: Option<(bool, usize, PeerConn)> = None;
    if let Some(pos) = inbound.iter().position(|p| p.id == id) {
        taken = Some((true, pos, inbound.remove(pos)));
    } else {
        let mut g = probe.conns.lock();
        if let Some(pos) = g.iter().position(|p| p.id == id) {
            taken = Some((false, pos, g.remove(pos)));
        }
    }
    let Some((is_inbound, pos, mut p)) = taken else { return false };
    let ok = match act {
        PeerAct::Write(b) => p.write(&b).await,
        PeerAct::Close => {
            p.close().await;
            true
        }
    };
    if is_inbound {
        inbound.insert(pos.min(inbound.len()), p);
    } else {
        let mut g = probe.conns.lock();
        let at = pos.min(g.len());
        g.insert(at, p);
    }
    ok
}

/// connections other than `main` the peer has not seen closed yet (side connections of probes, connections the
/// history moved away from): nobody holds a handle on them, so "not closed" = still registered
fn others_open(main: Option<u32>, inbound: &[PeerConn], probe: &FactoryProbe) -> usize {
    let f = |p: &PeerConn| Some(p.id) != main && p.eof_at.lock().is_none();
    inbound.iter().filter(|p| f(p)).count() + probe.conns.lock().iter().filter(|p| f(p)).count()
}

fn options(marker: &str, via_transport: &str) -> Vec<u8> {
    request_text(
        "OPTIONS",
        "sip:ezk@10.0.0.1",
        &[format!("SIP/2.0/{via_transport} 192.0.2.5:5060;branch=z9hG4bKc15{marker}")],
        "<sip:peer@192.0.2.5>;tag=pt",
        "<sip:ezk@10.0.0.1>",
        &format!("c15-{marker}"),
        1,
        "OPTIONS",
        &[format!("X-Seq: {marker}")],
        b"",
    )
}

pub fn check(case: &Case, out: &mut CaseOut) {
    let c = case.clone();
    let (obs, model, steps, facts): (Observed, Model, Vec<String>, Facts) = run_world(case.rng as u64, |clock| async move {
        let log = WireLog::new(clock);
        let (factory, probe) = mock_factory::<false>(clock, &log);
        let (lb, dialer) = mock_listener::<false>(clock, &log, "10.0.0.1:5060");
        let rec = Recorder::new(clock);
        let (tx, mut rx) = mpsc::unbounded_channel::<IncomingRequest>();
        let mut b = offline_builder();
        b.add_transport_factory(Arc::new(factory));
        b.add_layer(ChannelLayer { rec: rec.clone(), tx });
        use sip_core::transport::streaming::StreamingListenerBuilder;
        lb.spawn(&mut b, "10.0.0.1:5060").await.unwrap();
        let endpoint = b.build();
        settle().await;
        let uri: SipUri = format!("sip:peer@{MAIN_REMOTE};transport=tcp").parse().unwrap();
        let main_remote: std::net::SocketAddr = MAIN_REMOTE.parse().unwrap();
        // newest connection the factory opened to the remote of the connection under test
        let newest_main = |probe: &FactoryProbe| probe.conns.lock().iter().filter(|p| p.peer_addr == main_remote).map(|p| p.id).max();

        let mut m = Model::default();
        let mut facts = Facts::default();
        let mut problems: Vec<String> = vec![];
        let mut steps: Vec<String> = vec![];
        let mut handles: Vec<TpHandle> = vec![];
        // peer ends of accepted connections (those of the factory live in probe.conns)
        let mut inbound_conns: Vec<PeerConn> = vec![];
        let mut delivered: Vec<(u64, String, u32)> = vec![];
        // peer conn id of the connection the history currently talks about
        let mut main_id: Option<u32>;

        // open the connection
        if c.inbound {
            let p = dialer.dial(MAIN_REMOTE);
            main_id = Some(p.id);
            inbound_conns.push(p);
            settle().await;
            m.alive = true;
            m.unused_since = Some(0);
            m.generation = 1;
        } else {
            match endpoint.select_transport(&uri).await {
                Ok((h, _)) => handles.push(h),
                Err(e) => problems.push(format!("initial select failed: {e}")),
            }
            main_id = newest_main(&probe);
            settle().await;
            m.alive = true;
            m.handles = 1;
            m.generation = 1;
        }

        let mut msg_gen: std::collections::HashMap<String, u32> = Default::default();
        let mut t = 0u64;
        let mut seq = 0;
        let n = c.ops.len();
        for (i, (gap, op)) in c.ops.iter().enumerate() {
            t += gap;
            clock.until(t).await;
            m.expire_if_due(t);
            if m.ambiguous {
                break;
            }
            match op {
                Op::Clone => {
                    if let Some(h) = handles.last().cloned() {
                        handles.push(h);
                        m.handles += 1;
                    }
                }
                Op::Drop => {
                    if handles.pop().is_some() {
                        m.handles -= 1;
                        if m.handles == 0 {
                            m.released_last(t);
                        }
                    }
                }
                Op::DropAll => {
                    if !handles.is_empty() {
                        handles.clear();
                        m.handles = 0;
                        m.released_last(t);
                    }
                }
                Op::Msg { keep } => {
                    seq += 1;
                    let marker = format!("m{seq}");
                    msg_gen.insert(marker.clone(), m.generation);
                    let bytes = options(&marker, "TCP");
                    let written = peer_do(main_id, &mut inbound_conns, &probe, PeerAct::Write(bytes)).await;
                    // the rest of this op happens after the scheduling point below
                    if m.alive {
                        m.expected_delivered.push(marker.clone());
                        if written {
                            m.msg_unsettled = true;
                            m.task_has_message = true;
                        }
                    }
                    let _ = keep;
                }
                Op::PeerClose => {
                    peer_do(main_id, &mut inbound_conns, &probe, PeerAct::Close).await;
                    if m.alive {
                        m.alive = false;
                        m.dirty = true;
                        m.task_has_close = true;
                    }
                }
                Op::Garbage => {
                    peer_do(main_id, &mut inbound_conns, &probe, PeerAct::Write(b"\x01\x02 this is not sip\r\n\r\n".to_vec())).await;
                    if m.alive {
                        m.alive = false;
                        m.dirty = true;
                        m.task_has_close = true;
                    }
                }
                Op::Select | Op::Touch => {
                    let touch = matches!(op, Op::Touch);
                    // reuse is only demanded, and a closed connection only known to be closed, after a scheduling
                    // point following the release of the last handle / the close. In every other state the
                    // selection happens right here, whatever is pending on the connection.
                    if m.dirty {
                        settle().await;
                        m.settled();
                    }
                    if m.msg_unsettled {
                        facts.select_while_message_pending = true;
                    }
                    let before = probe.connects.lock().len();
                    match endpoint.select_transport(&uri).await {
                        Ok((h, _)) => {
                            let after = probe.connects.lock().len();
                            let reusable = m.alive && !(c.inbound && m.generation == 1);
                            if reusable {
                                if after != before {
                                    problems.push(format!("t={t}: live outbound connection not reused (connect called)"));
                                }
                                if touch {
                                    drop(h);
                                    if m.handles == 0 {
                                        // picked up and released: that is a use, the idle period starts again
                                        m.revived_this_instant = true;
                                        m.released_last(t);
                                    }
                                } else {
                                    if m.handles == 0 {
                                        m.revived_this_instant = true;
                                    }
                                    m.handles += 1;
                                    m.unused_since = None;
                                    handles.push(h);
                                }
                            } else {
                                if after == before {
                                    problems.push(format!(
                                        "t={t}: select_transport handed out a connection that is {} instead of connecting anew",
                                        if c.inbound && m.generation == 1 && m.alive { "inbound" } else { "closed/expired" }
                                    ));
                                }
                                // from now on the new connection is the one the history talks about; handles on
                                // the old one are let go. The old one still has to end its own idle period on time.
                                if let Some(id) = main_id {
                                    if m.alive {
                                        let last_use = if m.handles > 0 || m.msg_unsettled { t } else { m.unused_since.unwrap_or(t) };
                                        m.left.push((id, last_use + IDLE));
                                    } else if let Some(e) = m.expect_eof {
                                        m.left.push((id, e));
                                    }
                                }
                                handles.clear();
                                if after != before {
                                    main_id = newest_main(&probe);
                                }
                                m.generation += 1;
                                m.alive = true;
                                m.expect_eof = None;
                                m.msg_unsettled = false;
                                m.settled();
                                if touch {
                                    drop(h);
                                    m.handles = 0;
                                    m.released_last(t);
                                } else {
                                    handles.push(h);
                                    m.handles = 1;
                                    m.unused_since = None;
                                }
                            }
                        }
                        Err(e) => problems.push(format!("t={t}: select_transport failed: {e}")),
                    }
                }
                Op::Probe { target } => {
                    // not a use of the connection under test, whatever state it is in; no scheduling point
                    if m.alive {
                        if m.handles == 0 {
                            if !facts.probe_while_unreferenced.contains(target) {
                                facts.probe_while_unreferenced.push(*target);
                            }
                        } else {
                            facts.probe_while_referenced = true;
                        }
                    }
                    match endpoint.select_transport(&target.uri()).await {
                        Ok((h, _)) => {
                            facts.probe_side_connection = true;
                            drop(h);
                        }
                        Err(_) => facts.probe_refused = true,
                    }
                }
            }
            let next_same_instant = c.ops.get(i + 1).map_or(false, |(g, _)| *g == 0);
            if !next_same_instant {
                // let the stack run
                settle().await;
                m.settled();
                // deliveries: keep or release the handle that came with each request
                while let Ok(req) = rx.try_recv() {
                    let marker = req
                        .headers
                        .iter()
                        .find(|(n, _)| n.as_print_str().eq_ignore_ascii_case("x-seq"))
                        .map(|(_, v)| v.to_string())
                        .unwrap_or_default();
                    delivered.push((clock.now_ms(), marker.clone(), m.generation));
                    // find the op that sent it to learn `keep`
                    let idx: usize = marker[1..].parse().unwrap_or(0);
                    let keep = c
                        .ops
                        .iter()
                        .filter_map(|(_, o)| if let Op::Msg { keep } = o { Some(*keep) } else { None })
                        .nth(idx.saturating_sub(1))
                        .unwrap_or(false);
                    if msg_gen.get(&marker) != Some(&m.generation) {
                        // arrived on a connection the history has moved away from
                        drop(req);
                        continue;
                    }
                    if keep && m.alive {
                        handles.push(req.tp_info.transport.clone());
                        m.handles += 1;
                        m.unused_since = None;
                    } else if m.alive && m.handles == 0 {
                        // traffic on an unreferenced connection restarts the idle period
                        m.unused_since = Some(t);
                    }
                    drop(req);
                }
                m.msg_unsettled = false;
                settle().await;
                let count = endpoint.verif_counts().1;
                let others = others_open(main_id, &inbound_conns, &probe);
                let count_main = count.saturating_sub(others);
                steps.push(format!("{t}ms {op:?} -> handles={} alive={} managed={count} (other open connections {others})", m.handles, m.alive));
                // registered while referenced
                if m.alive && m.handles > 0 && count_main == 0 {
                    problems.push(format!("t={t}: connection with {} live handles is not registered any more", m.handles));
                }
                // (judged while the first connection is the one the history talks about)
                if !m.alive && m.expect_eof.is_none() && count_main != 0 && i + 1 == n && m.generation == 1 {
                    problems.push(format!("t={t}: closed connection still registered ({count_main})"));
                }
            }
        }

        // wind down: drop everything, wait past every timer
        if !m.ambiguous {
            m.expire_if_due(t);
        }
        let had_handles = !handles.is_empty();
        handles.clear();
        settle().await;
        if m.alive && !m.ambiguous {
            if had_handles || m.unused_since.is_none() {
                m.unused_since = Some(t);
            }
            if let Some(u) = m.unused_since {
                m.expect_eof = Some(u + IDLE);
                m.alive = false;
            }
        }
        while let Ok(req) = rx.try_recv() {
            drop(req);
        }
        clock.advance(3 * IDLE).await;
        settle().await;
        let mut all_eof = vec![];
        for p in inbound_conns.iter() {
            all_eof.push((p.id, *p.eof_at.lock()));
        }
        for p in probe.conns.lock().iter() {
            all_eof.push((p.id, *p.eof_at.lock()));
        }
        let eof = main_id.and_then(|id| all_eof.iter().find(|e| e.0 == id).copied());
        let final_count = endpoint.verif_counts().1;
        (Observed { delivered, problems, eof, all_eof, final_count }, m, steps, facts)
    });

    out.note = Some(format!("steps={steps:?} delivered={:?} eof={:?} left={:?} all_eof={:?}", obs.delivered, obs.eof, model.left, obs.all_eof));
    out.class(if case.inbound { "inbound" } else { "outbound" });
    let mut race = false;
    for w in case.ops.windows(2) {
        let (a, b) = (&w[0].1, &w[1]);
        if b.0 <= 1 {
            let pair = (matches!(a, Op::Drop | Op::DropAll) && matches!(b.1, Op::Msg { .. })) || (matches!(a, Op::Msg { .. }) && matches!(b.1, Op::Drop | Op::DropAll));
            if pair {
                race = true;
                if b.0 == 0 {
                    out.class("drop-last-and-message-same-instant");
                }
            }
        }
    }
    let edge = case.ops.iter().any(|(g, _)| g.abs_diff(IDLE) <= 3);
    if edge {
        out.class("event-within-3ms-of-32s-edge");
    }
    if model.ambiguous {
        out.class("tie-on-32s-edge(unasserted)");
    }
    if model.pickup_released_ever {
        out.class("idle-connection-picked-up-and-released-between-polls");
    }
    if model.pickup_with_message_ever {
        out.class("pickup-release-and-message-same-instant");
    }
    if model.pickup_with_close_ever {
        out.class("pickup-release-and-close-same-instant");
    }
    if facts.select_while_message_pending {
        out.class("select-while-message-pending");
    }
    for t in &facts.probe_while_unreferenced {
        out.class(t.label());
    }
    if facts.probe_while_referenced {
        out.class("probe-while-referenced");
    }
    if facts.probe_refused {
        out.class("probe-refused(no transport for target)");
    }
    if facts.probe_side_connection {
        out.class("probe-served-by-side-connection");
    }
    if !model.left.is_empty() {
        out.class("left-connection-expiry-judged");
    }
    if race || edge || model.pickup_with_message_ever || model.pickup_with_close_ever || !facts.probe_while_unreferenced.is_empty() {
        out.nontrivial(case);
    }

    for p in &obs.problems {
        let locus = if p.contains("not reused") {
            "live-connection-not-reused"
        } else if p.contains("handed out a connection") {
            "dead-or-inbound-connection-selected"
        } else if p.contains("not registered any more") {
            "referenced-connection-unregistered"
        } else if p.contains("still registered") {
            "closed-connection-still-registered"
        } else {
            "other"
        };
        out.fail(format!("c15.lifecycle/{locus}"), p.clone());
    }
    // connections the history moved away from end their own idle period on time (decided when they were left)
    for (id, want) in &model.left {
        match obs.all_eof.iter().find(|e| e.0 == *id).and_then(|e| e.1) {
            Some(t) if t.abs_diff(*want) <= 2 => {}
            Some(t) => out.fail(
                if t < *want { "c15.expiry/left-connection-closed-too-early" } else { "c15.expiry/left-connection-closed-too-late" },
                format!("connection the application no longer uses closed at {t} ms, expected 32 s after its last use = {want} ms"),
            ),
            None => out.fail("c15.expiry/left-connection-never-closed", format!("connection the application no longer uses never closed, expected at {want} ms")),
        }
    }
    if model.ambiguous {
        return;
    }
    // every message sent while the connection was alive is delivered exactly once, in order
    let got: Vec<String> = obs.delivered.iter().map(|d| d.1.clone()).collect();
    if got != model.expected_delivered {
        let lost = model.expected_delivered.iter().any(|m| !got.contains(m));
        out.fail(
            if lost { "c15.delivery/message-on-live-connection-lost" } else { "c15.delivery/unexpected-or-duplicate" },
            format!("delivered {got:?}, expected {:?}", model.expected_delivered),
        );
    }
    // idle expiry: the connection is closed 32 s after it was last used
    if let Some(want) = model.expect_eof {
        let last = obs.eof.and_then(|e| e.1);
        match last {
            Some(t) if t.abs_diff(want) <= 2 => {}
            Some(t) => out.fail(
                if t < want { "c15.expiry/closed-too-early" } else { "c15.expiry/closed-too-late" },
                format!("connection closed at {t} ms, expected 32 s after last use = {want} ms"),
            ),
            None => out.fail("c15.expiry/never-closed", format!("connection never closed, expected at {want} ms")),
        }
    }
    if obs.final_count != 0 {
        out.fail("c15.expiry/still-registered-at-end", format!("{} managed transports left after everything was dropped and 96 s passed", obs.final_count));
    }
}

pub fn property() -> Property {
    Property {
        fuzz: vec![],
        id: "C15",
        rule: "a case = one mock connection under test (outbound via a mock factory + select_transport, or inbound via a mock listener) and a history of 1..8 ops {clone handle, drop handle, drop all, inbound message (application keeps / releases the handle that comes with it), peer close, garbage bytes, select_transport to the same remote (handle kept), touch = select_transport to the same remote + release of the handle with no scheduling point in between, probe = select_transport for a target the connection must not serve (sips: on the same address, other port, other host; handle released at once)} with gaps from {0 (same instant, no scheduling point: all ops of an instant are pending when the connection's task is polled), 1, 100, 16000, 32000-3, 32000-1, 32000+1, 32000+3, 64000} ms under a paused clock and a tokio select seed. race sub-check enumerates the race named by the property (last handle dropped and a message in the same instant, both orders, around idle periods on the 32 s edge) under 64 (thorough 256) select seeds. pickup sub-check enumerates an idle outbound connection picked up and released between two polls of its task together with message(s) / peer close / garbage in the same instant (7 shapes with a message x keep, 2 without, x idle time before x 32 s -3/+3 ms after) under 32 (thorough 256) select seeds. probe sub-check enumerates selections for the three other targets, once and every 20 s, while the connection is idle / silent / referenced. Oracle = lifecycle reference model: registered while referenced; delivered exactly once while alive; closed 32 s after last use (selections for other targets are no use); unregistered at once on peer close / framing error and never selected afterwards; live outbound connection reused; inbound connections never selected; a connection the history moved away from still expires 32 s after its own last use. Non-trivial = a drop-last and a message within 1 ms, or an event within 3 ms of a 32 s edge, or a pick-up + release of an unreferenced connection sharing its instant with a message / close, or a probe while the connection is unreferenced.",
        assumptions: vec![
            "events exactly on the 32 s edge (within 2 ms) stop the comparison (tie is a don't-care)",
            "reuse is only demanded, and a peer close / framing error only has to be known, after a scheduling point (settle) following the release of the last handle / the close; in every other state select_transport is called with whatever is pending",
            "the peer observes the close as EOF on the in-memory duplex pipe",
            "only a non-secure (TCP) factory is registered: a sips: target has no transport and select_transport may refuse it; what a probe returns is not judged",
            "managed-transport count is attributed to the connection under test after subtracting the other connections of the case the peer has not seen closed (nobody holds handles on those)",
        ],
        explanation: "race, pickup and probe sub-checks exhaustive over their small products x seeds; random histories sampled",
        subs: vec![
            enum_sub("race", race_cases, check),
            enum_sub("pickup", pickup_cases, check),
            enum_sub("probe", probe_cases, check),
            prop_sub("history", strategy, 1500, 30000, check),
        ],
    }
}
