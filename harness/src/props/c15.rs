//! C15 — Connections live while referenced, expire 32 s after last use, never reused dead
//!
//! What is generated
//! * a case = one mock connection ("the connection under test": outbound through a mock TCP factory and
//!   `select_transport`, or inbound through a mock listener), a history of ops with gaps on a grid
//!   {0 = same instant and NO scheduling point in between, 1, 100, 16 s, 32 s -3/-1/+1/+3 ms, 64 s} under a paused
//!   clock, and a tokio seed (decides the poll order inside the receive task's `select!`).
//! * ops on the connection under test: clone / drop / drop-all of handles, inbound message (application keeps or
//!   releases the handle that comes with it), peer close, garbage bytes, `Select` (select_transport to the same
//!   remote, handle kept), `Touch` (select_transport to the same remote and release of the returned handle with no
//!   scheduling point in between: the registry is changed twice between two polls of the connection's task),
//!   `Partial` (the peer writes the beginning of a request - 10 bytes, 90 bytes, head without the empty line, head
//!   without body, head and half the body - or CRLF CR, or a lone CR, and stops; the next `Msg` writes the rest, a
//!   further `Partial` half of the rest), `KeepAlive` (a whole CRLF CRLF).
//!   Ops that share an instant are executed back to back, the stack runs only after the last of them, so a
//!   pick-up, a release, a message, a close can all be pending when the task is polled next. In particular a
//!   `Select` / `Touch` that shares its instant with the release of the last handle finds the connection with a
//!   run-out reference count its task has not yet noticed.
//! * ops that must NOT concern the connection under test: `Probe` = select_transport for another target whose
//!   registry scan passes over the connection (sips: URI on the same address = security level too low; other port;
//!   other host). The returned handle (a side connection, or an error when nothing can serve the target) is
//!   released at once.
//! * sub-checks: `race` (drop-last + message in one instant, enumerated x seeds), `pickup` (pick-up + release of an
//!   idle connection between two polls together with message / close / garbage in the same instant, enumerated x
//!   seeds), `probe` (selections for other targets while the connection is idle / silent / referenced, once and
//!   periodically, enumerated), `reselect` (last handle released and select_transport to the same remote in one
//!   instant, 5 ways to release x 5 continuations of the instant, the handle then held across 32 s, a later
//!   pick-up and released, enumerated x seeds), `fragment` (beginning of a message / half or whole keep-alive on a
//!   silent accepted, a released accepted, a released outbound, a still referenced connection x arrival instant x
//!   {nothing, the rest, another piece, peer close, pick-up held across the idle period, selection after the idle
//!   period}, enumerated), `history` (random histories over all ops).
//!
//! Oracle (lifecycle reference model, written from the property statement, never asks ezk what it expects)
//! * registered while referenced; every message written while the connection is alive is delivered exactly once,
//!   in order; closed (EOF seen by the peer) 32 s after the last use = last handle release or last message on an
//!   unreferenced connection; unregistered at once on peer close / framing error and never selected afterwards;
//!   a live outbound connection is reused by select_transport; inbound connections are never selected;
//!   a connection the history has moved away from (inbound one after a Select) still expires 32 s after its own
//!   last use; selections for other targets are not a use of the connection (its expiry instant is unchanged).
//! * select_transport in the instant the last handle was released, before the stack ran: it may hand out the old
//!   connection or open a new one (the model follows what `connect` calls show); whichever it hands out is
//!   referenced from then on and has to stay registered, deliver and not expire like any other referenced connection;
//!   an old connection that was not handed out expires 32 s after the release.
//! * bytes that are no whole message (fragment, keep-alive): "32 s without traffic" is read both ways, the close is
//!   accepted 32 s after the last use (last release / last whole message) or 32 s after any later arrival of such
//!   bytes; later than the last of these instants the connection has to be closed, unregistered and not selectable.
//!   A message completed while the connection is certainly alive is delivered like any other.
//!
//! Not asserted
//! * anything within 2 ms of a 32 s edge (tie); any history with an op between the earliest and the latest accepted
//!   expiry instant of a connection holding a fragment (alive under one reading, closed under the other);
//!   whether select_transport reuses or reconnects in the very instant the last handle was released;
//!   what it returns in the very instant the peer closed, before the stack ran (the harness inserts a scheduling
//!   point there); which of two live outbound connections to the remote a selection picks (after a reconnect in
//!   the instant of the release the old connection idles for 32 s: selections to the remote are left out meanwhile);
//!   garbage behind a fragment (would be read as part of the message: the op is left out);
//!   what a `Probe` returns (error, new or pooled side connection) and the lifetime of side connections;
//!   TLS connections (only a non-secure factory is registered, so a sips: target has no transport).

use super::c06::ChannelLayer;
use crate::engine::*;
use crate::world::stream::*;
use crate::world::*;
use proptest::prelude::*;
use serde::{Deserialize, Serialize};
use sip_core::transport::TpHandle;
use sip_core::IncomingRequest;
use sip_types::uri::sip::SipUri;
use std::sync::Arc;
use tokio::sync::mpsc;

const IDLE: u64 = 32_000;
const MAIN_REMOTE: &str = "192.0.2.5:5060";

/// a selection target the connection under test must not serve
#[derive(Serialize, Deserialize, Clone, Copy, Debug, Hash, PartialEq, Eq)]
pub enum Other {
    /// sips: URI resolving to the very address the (non-secure) connection is connected to
    SecureSameAddr,
    /// same host, other port
    OtherPort,
    /// other host, same port
    OtherHost,
}

impl Other {
    const ALL: [Other; 3] = [Other::SecureSameAddr, Other::OtherPort, Other::OtherHost];
    fn uri(self) -> SipUri {
        match self {
            Other::SecureSameAddr => "sips:peer@192.0.2.5:5060;transport=tcp",
            Other::OtherPort => "sip:peer@192.0.2.5:5070;transport=tcp",
            Other::OtherHost => "sip:peer@192.0.2.6:5060;transport=tcp",
        }
        .parse()
        .unwrap()
    }
    fn label(self) -> &'static str {
        match self {
            Other::SecureSameAddr => "probe:sips-same-address-while-unreferenced",
            Other::OtherPort => "probe:other-port-while-unreferenced",
            Other::OtherHost => "probe:other-host-while-unreferenced",
        }
    }
}

#[derive(Serialize, Deserialize, Clone, Copy, Debug, Hash, PartialEq, Eq)]
pub enum Op {
    /// application clones a handle it holds
    Clone,
    /// application drops one handle
    Drop,
    /// application drops every handle it holds
    DropAll,
    /// peer sends a request on the connection; the application keeps the handle that comes with it (or not)
    Msg { keep: bool },
    /// peer closes its side
    PeerClose,
    /// peer sends bytes that are not SIP
    Garbage,
    /// application asks for a transport to the same remote (select_transport) and keeps the handle
    Select,
    /// application asks for a transport to the same remote and releases the handle again before anything else runs
    Touch,
    /// application asks for a transport to another target; the handle (if any) is released at once
    Probe { target: Other },
    /// peer writes the beginning of a request (or half of a CRLF keep-alive) and stops; the rest is written by the
    /// next `Msg` op on the same connection (a further `Partial` writes half of what is left)
    Partial { kind: Frag },
    /// peer writes a whole CRLF CRLF keep-alive
    KeepAlive,
}

/// where the peer stops in the middle of what it sends
#[derive(Serialize, Deserialize, Clone, Copy, Debug, Hash, PartialEq, Eq)]
pub enum Frag {
    /// 10 bytes: inside the request line
    HeadStart,
    /// 90 bytes: inside a header line
    HeadMid,
    /// the whole head except the empty line that ends it
    HeadNoTerminator,
    /// the whole head (Content-Length: 20), no byte of the body
    BodyMissing,
    /// the whole head and 10 of the 20 bytes of the body
    BodyHalf,
    /// CRLF CR: one CRLF is consumed, a lone CR stays in the read buffer
    HalfCrlf,
    /// CR
    LoneCr,
}

impl Frag {
    pub const ALL: [Frag; 7] = [Frag::HeadStart, Frag::HeadMid, Frag::HeadNoTerminator, Frag::BodyMissing, Frag::BodyHalf, Frag::HalfCrlf, Frag::LoneCr];
    fn label(self) -> &'static str {
        match self {
            Frag::HeadStart => "fragment-while-unreferenced:request-line-part",
            Frag::HeadMid => "fragment-while-unreferenced:head-part",
            Frag::HeadNoTerminator => "fragment-while-unreferenced:head-without-empty-line",
            Frag::BodyMissing => "fragment-while-unreferenced:head-without-body",
            Frag::BodyHalf => "fragment-while-unreferenced:head-and-half-body",
            Frag::HalfCrlf => "fragment-while-unreferenced:crlf-cr",
            Frag::LoneCr => "fragment-while-unreferenced:lone-cr",
        }
    }
    /// (bytes written now, bytes that complete it, does a request come out of it)
    fn split(self, marker: &str) -> (Vec<u8>, Vec<u8>, bool) {
        let body: &[u8] = if matches!(self, Frag::BodyMissing | Frag::BodyHalf) { b"01234567890123456789" } else { b"" };
        let full = options_with_body(marker, "TCP", body);
        let head_len = full.len() - body.len();
        let cut = match self {
            Frag::HeadStart => 10,
            Frag::HeadMid => 90,
            Frag::HeadNoTerminator => head_len - 2,
            Frag::BodyMissing => head_len,
            Frag::BodyHalf => head_len + 10,
            Frag::HalfCrlf => return (b"\r\n\r".to_vec(), b"\n".to_vec(), false),
            Frag::LoneCr => return (b"\r".to_vec(), b"\n".to_vec(), false),
        };
        (full[..cut].to_vec(), full[cut..].to_vec(), true)
    }
}

#[derive(Serialize, Deserialize, Clone, Debug, Hash)]
pub struct Case {
    pub inbound: bool,
    /// (gap in ms to the previous op; 0 = same instant, no scheduling point in between)
    pub ops: Vec<(u64, Op)>,
    pub rng: u8,
}

const GAPS: &[u64] = &[0, 0, 0, 0, 1, 1, 100, 16_000, 16_000, IDLE - 3, IDLE - 1, IDLE + 1, IDLE + 3, IDLE - 1, IDLE + 1, 2 * IDLE];

pub fn strategy() -> BoxedStrategy<Case> {
    let op = prop_oneof![
        2 => Just(Op::Clone),
        4 => Just(Op::Drop),
        2 => Just(Op::DropAll),
        3 => Just(Op::Msg { keep: false }),
        2 => Just(Op::Msg { keep: true }),
        1 => Just(Op::PeerClose),
        1 => Just(Op::Garbage),
        2 => Just(Op::Select),
        3 => Just(Op::Touch),
        1 => Just(Op::Probe { target: Other::SecureSameAddr }),
        1 => Just(Op::Probe { target: Other::OtherPort }),
        1 => Just(Op::Probe { target: Other::OtherHost }),
        3 => any::<u16>().prop_map(|k| Op::Partial { kind: Frag::ALL[pick_idx(k, Frag::ALL.len())] }),
        1 => Just(Op::KeepAlive),
    ];
    (any::<bool>(), prop::collection::vec((any::<u16>(), op), 1..9), any::<u8>())
        .prop_map(|(inbound, ops, rng)| Case {
            inbound,
            ops: ops.into_iter().map(|(g, o)| (GAPS[pick_idx(g, GAPS.len())], o)).collect(),
            rng,
        })
        .boxed()
}

/// the race named by the property, enumerated: last handle dropped and a message arriving in the same
/// instant, both orders, around it idle periods on the 32 s edge; all 256 tokio seeds
pub fn race_cases(tier: Tier) -> Vec<Case> {
    let mut out = vec![];
    let seeds = tier.pick(64u32, 256u32);
    for inbound in [false, true] {
        for order in 0..2 {
            for keep in [false, true] {
                for tail in [IDLE - 1, IDLE + 1] {
                    for lead in [1u64, IDLE - 1] {
                        for rng in 0..seeds {
                            let mut ops = vec![];
                            if inbound {
                                // an inbound connection gets its first handle through a message
                                ops.push((1, Op::Msg { keep: true }));
                            }
                            ops.push((lead, Op::Clone));
                            ops.push((1, Op::Drop));
                            if order == 0 {
                                ops.push((1, Op::Drop));
                                ops.push((0, Op::Msg { keep }));
                            } else {
                                ops.push((1, Op::Msg { keep }));
                                ops.push((0, Op::DropAll));
                            }
                            ops.push((tail, Op::Msg { keep: false }));
                            ops.push((1, Op::Select));
                            out.push(Case { inbound, ops, rng: rng as u8 });
                        }
                    }
                }
            }
        }
    }
    out
}

/// an idle (unreferenced, timer running) outbound connection is picked up by select_transport and released again
/// between two polls of its task, and in the same instant something else happens on it; afterwards the
/// application holds (or does not hold) the handle that came with the message across a 32 s edge.
/// Enumerated: how the connection became outbound+idle x idle time before x shape of the instant x keep x
/// time after x tokio seeds.
pub fn pickup_cases(tier: Tier) -> Vec<Case> {
    let mut out = vec![];
    let seeds = tier.pick(32u32, 256u32);
    let clusters = |keep: bool| -> Vec<Vec<Op>> {
        let msg = Op::Msg { keep };
        let mut v = vec![
            vec![Op::Touch, msg],
            vec![msg, Op::Touch],
            vec![Op::Select, Op::Drop, msg],
            vec![Op::Select, msg, Op::Drop],
            vec![Op::Select, Op::Clone, Op::DropAll, msg],
            vec![Op::Touch, msg, msg],
            vec![Op::Touch, msg, Op::PeerClose],
        ];
        if !keep {
            // shapes without a message do not depend on `keep`
            v.push(vec![Op::Touch, Op::PeerClose]);
            v.push(vec![Op::Touch, Op::Garbage]);
        }
        v
    };
    for inbound in [false, true] {
        for lead in [1u64, IDLE - 3] {
            for keep in [false, true] {
                for cluster in clusters(keep) {
                    for tail in [IDLE - 3, IDLE + 3] {
                        for rng in 0..seeds {
                            let mut ops = vec![];
                            if inbound {
                                // the history leaves the accepted connection for an outbound one to the same remote
                                ops.push((1, Op::Select));
                            }
                            ops.push((1, Op::DropAll));
                            for (i, op) in cluster.iter().enumerate() {
                                ops.push((if i == 0 { lead } else { 0 }, *op));
                            }
                            ops.push((tail, Op::Msg { keep: false }));
                            ops.push((1, Op::Select));
                            out.push(Case { inbound, ops, rng: rng as u8 });
                        }
                    }
                }
            }
        }
    }
    out
}

/// selections for other targets (registry scans that pass over the connection under test) while it is idle
/// (outbound, last handle released), silent (inbound, never used) or referenced; once, or periodically with a
/// period below 32 s. Nothing here depends on the select order, a few seeds only.
pub fn probe_cases(tier: Tier) -> Vec<Case> {
    let mut out = vec![];
    let seeds = tier.pick(2u32, 16u32);
    for inbound in [false, true] {
        for referenced in [false, true] {
            for target in Other::ALL {
                for lead in [100u64, 16_000, IDLE - 3] {
                    for repeat in [1usize, 3] {
                        for rng in 0..seeds {
                            let mut ops = vec![];
                            match (inbound, referenced) {
                                (false, false) => ops.push((1, Op::DropAll)),
                                (false, true) => {}
                                (true, false) => {}
                                (true, true) => ops.push((1, Op::Msg { keep: true })),
                            }
                            ops.push((lead, Op::Probe { target }));
                            for _ in 1..repeat {
                                ops.push((20_000, Op::Probe { target }));
                            }
                            if referenced {
                                ops.push((1, Op::DropAll));
                                ops.push((20_000, Op::Probe { target }));
                            }
                            out.push(Case { inbound, ops, rng: rng as u8 });
                        }
                    }
                }
            }
        }
    }
    out
}

/// the last handle of an outbound connection is released and, in the same instant and with no scheduling point in
/// between (the connection's task has not yet seen the release), the application asks for a transport to the same
/// remote again; the handle it gets is held across more than 32 s, across a later pick-up, and released.
/// Enumerated: inbound/outbound start x time before x how the last handle went x what follows in the same instant
/// x time after x tokio seeds.
pub fn reselect_cases(tier: Tier) -> Vec<Case> {
    let mut out = vec![];
    let seeds = tier.pick(8u32, 64u32);
    let msg = Op::Msg { keep: false };
    // (ops before the instant [gap 1 each], ops of the instant that release the last handle)
    let releases: Vec<(Vec<Op>, Vec<Op>)> = vec![
        (vec![], vec![Op::Drop]),
        (vec![], vec![Op::Clone, Op::DropAll]),
        (vec![Op::DropAll], vec![Op::Touch]),
        (vec![Op::DropAll], vec![Op::Select, Op::Drop]),
        (vec![], vec![msg, Op::Drop]),
    ];
    let follows: Vec<Vec<Op>> = vec![
        vec![Op::Select],
        vec![Op::Select, msg],
        vec![Op::Touch, Op::Select],
        vec![Op::Select, Op::Clone, Op::Drop],
        vec![Op::Select, Op::Drop, Op::Select],
    ];
    for inbound in [false, true] {
        for lead in [1u64, IDLE - 3] {
            for (before, release) in &releases {
                for follow in &follows {
                    for tail in [IDLE - 3, IDLE + 3] {
                        for rng in 0..seeds {
                            let mut ops = vec![];
                            if inbound {
                                // the history leaves the accepted connection for an outbound one to the same remote
                                ops.push((1, Op::Select));
                            }
                            for op in before {
                                ops.push((1, *op));
                            }
                            for (i, op) in release.iter().chain(follow.iter()).enumerate() {
                                ops.push((if i == 0 { lead } else { 0 }, *op));
                            }
                            // the handle is held; the connection has to stay usable
                            ops.push((IDLE + 3, msg));
                            ops.push((tail, Op::Msg { keep: true }));
                            ops.push((1, Op::DropAll));
                            ops.push((tail, Op::Select));
                            out.push(Case { inbound, ops, rng: rng as u8 });
                        }
                    }
                }
            }
        }
    }
    out
}

/// the peer starts a message (or half a CRLF keep-alive, or a whole one) on a connection and stops: while the
/// connection is unreferenced (accepted and silent, accepted and released, outbound and released) or shortly before
/// its last handle is released. Afterwards: nothing / the rest / another piece / peer close / a pick-up that is
/// held across the idle period / a selection long after the idle period.
/// Enumerated: situation x fragment x arrival inside the idle period x what follows x a few seeds.
pub fn fragment_cases(tier: Tier) -> Vec<Case> {
    let mut out = vec![];
    let seeds = tier.pick(2u32, 16u32);
    let mut kinds: Vec<Op> = Frag::ALL.iter().map(|k| Op::Partial { kind: *k }).collect();
    kinds.push(Op::KeepAlive);
    for situation in 0..4 {
        for frag in &kinds {
            for lead in [1u64, 16_000, IDLE - 3] {
                for tail in 0..6 {
                    // what follows comes 100 ms later: only inside the idle period for the two early arrivals
                    if lead == IDLE - 3 && !(tail == 0 || tail == 5) {
                        continue;
                    }
                    for rng in 0..seeds {
                        let mut ops = vec![];
                        let inbound = situation < 2;
                        match situation {
                            0 => ops.push((lead, *frag)),
                            1 => {
                                ops.push((1, Op::Msg { keep: true }));
                                ops.push((100, Op::DropAll));
                                ops.push((lead, *frag));
                            }
                            2 => {
                                ops.push((100, Op::DropAll));
                                ops.push((lead, *frag));
                            }
                            _ => {
                                // arrives while referenced, the last handle goes 100 ms later
                                ops.push((lead, *frag));
                                ops.push((100, Op::DropAll));
                            }
                        }
                        match tail {
                            0 => {}
                            1 => ops.push((100, Op::Msg { keep: false })),
                            2 => ops.push((100, *frag)),
                            3 => ops.push((100, Op::PeerClose)),
                            4 => {
                                ops.push((100, Op::Select));
                                ops.push((2 * IDLE, Op::Msg { keep: false }));
                            }
                            _ => {
                                ops.push((2 * IDLE + 100, Op::Select));
                                ops.push((1, Op::Msg { keep: false }));
                            }
                        }
                        out.push(Case { inbound, ops, rng: rng as u8 });
                    }
                }
            }
        }
    }
    out
}

// ---------------------------------------------------------------------------------------------
// reference model

#[derive(Debug, Clone, Default)]
struct Model {
    /// handles the application holds on the current connection
    handles: u32,
    /// connection registered with the endpoint (not closed by peer / error / expiry)
    alive: bool,
    /// since when nobody references it
    unused_since: Option<u64>,
    /// instants at which the peer may see EOF because of idle expiry: 32 s after the last use, or 32 s after a
    /// later arrival of bytes that are no whole message (both readings of "traffic" are accepted); empty = no expiry due
    expect_eof: Vec<u64>,
    /// arrival instants of such bytes (fragment of a message, CRLF keep-alive) since the connection is unreferenced
    frag_times: Vec<u64>,
    /// the expiry of the connection depends on which of the two readings is taken and an op falls in between
    disputed: bool,
    /// the idle period ended with an incomplete message in the read buffer
    fragment_pending_at_expiry: bool,
    /// the read buffer of the connection holds an incomplete message / half a CRLF
    frag_pending: bool,
    /// number of connections ever opened (index of the current one)
    generation: u32,
    expected_delivered: Vec<String>,
    ambiguous: bool,
    /// since the stack last ran: the last handle was released. A select_transport in this state may reuse the
    /// connection or connect anew, the model follows what it did
    dirty_release: bool,
    /// since the stack last ran: the peer closed / sent garbage. What a select_transport finds in this state is not
    /// asserted (the harness lets the stack run first)
    dirty_close: bool,
    /// since the stack last ran: a message was written to the live connection (it will be delivered in this instant)
    msg_unsettled: bool,
    /// since the stack last ran: select_transport picked up the connection while nobody referenced it
    revived_this_instant: bool,
    /// since the stack last ran: the connection was picked up while unreferenced and released again, i.e. the
    /// registry went unused -> used -> (dead reference count) between two polls of the connection's task
    pickup_released: bool,
    /// that happened at least once in the history
    pickup_released_ever: bool,
    /// since the stack last ran: bytes of a message / an end of stream or garbage wait to be read by the task
    task_has_message: bool,
    task_has_close: bool,
    /// the connection's task was polled with a pick-up + release AND a message (a close) pending
    pickup_with_message_ever: bool,
    pickup_with_close_ever: bool,
    /// connections the history has moved away from: (peer conn id, instants their own idle period may end)
    left: Vec<(u32, Vec<u64>)>,
    /// an outbound connection to the remote that the history moved away from while it was alive can be selected again
    /// until this instant (once the stack ran: `left_pending_until` before that)
    left_outbound_until: Option<u64>,
    left_pending_until: Option<u64>,
}

impl Model {
    /// instants at which the idle period of the unreferenced connection may end (ascending, first = 32 s after last use)
    fn candidates(&self) -> Vec<u64> {
        let Some(u) = self.unused_since else { return vec![] };
        let mut v = vec![u + IDLE];
        for x in &self.frag_times {
            if *x > u && !v.contains(&(x + IDLE)) {
                v.push(x + IDLE);
            }
        }
        v.sort();
        v
    }
    fn expire_if_due(&mut self, t: u64) {
        if self.alive && self.handles == 0 && self.unused_since.is_some() {
            let c = self.candidates();
            if c.iter().any(|w| t.abs_diff(*w) <= 2) {
                self.ambiguous = true;
            } else if t > *c.last().unwrap() {
                self.alive = false;
                self.expect_eof = c;
                self.fragment_pending_at_expiry |= self.frag_pending;
                self.frag_pending = false;
            } else if t > c[0] {
                // closed under one reading, alive under the other
                self.ambiguous = true;
                self.disputed = true;
            }
        }
    }
    fn released_last(&mut self, t: u64) {
        self.unused_since = Some(t);
        self.frag_times.clear();
        self.dirty_release = true;
        if self.revived_this_instant {
            self.pickup_released = true;
            self.pickup_released_ever = true;
        }
    }
    /// the stack ran
    fn settled(&mut self) {
        if self.pickup_released && self.task_has_message {
            self.pickup_with_message_ever = true;
        }
        if self.pickup_released && self.task_has_close {
            self.pickup_with_close_ever = true;
        }
        self.dirty_release = false;
        self.dirty_close = false;
        if let Some(p) = self.left_pending_until.take() {
            self.left_outbound_until = Some(self.left_outbound_until.map_or(p, |o| o.max(p)));
        }
        self.revived_this_instant = false;
        self.pickup_released = false;
        self.task_has_message = false;
        self.task_has_close = false;
    }
}

/// which generator shapes the case really reached (depends on the model state, so collected while running)
#[derive(Debug, Clone, Default)]
pub struct Facts {
    pub select_while_message_pending: bool,
    pub probe_while_unreferenced: Vec<Other>,
    pub probe_while_referenced: bool,
    pub probe_refused: bool,
    pub probe_side_connection: bool,
    /// select_transport in the instant the last handle was released, before the stack ran: what it did
    pub reselect_reused: bool,
    pub reselect_connected: bool,
    /// a selection was left out because two live outbound connections to the remote existed (choice unspecified)
    pub select_skipped: bool,
    pub fragment_while_unreferenced: Vec<Frag>,
    pub fragment_while_referenced: bool,
    pub keepalive_while_unreferenced: bool,
    pub fragment_completed: bool,
    pub fragment_continued: bool,
    pub garbage_skipped: bool,
    pub close_with_fragment: bool,
    pub select_with_fragment: bool,
}

/// what the peer has begun to send on the connection under test
struct PendingFrag {
    /// marker of the request it becomes (None: a CRLF keep-alive)
    marker: Option<String>,
    rest: Vec<u8>,
}

// ---------------------------------------------------------------------------------------------

pub struct Observed {
    pub delivered: Vec<(u64, String, u32)>,
    pub problems: Vec<String>,
    /// (peer conn id, instant the peer saw ezk close) of the connection under test at the end of the history
    pub eof: Option<(u32, Option<u64>)>,
    /// the same for every connection of the case
    pub all_eof: Vec<(u32, Option<u64>)>,
    pub final_count: usize,
}

enum PeerAct {
    Write(Vec<u8>),
    Close,
}

/// act on the peer end of connection `id` (taken out of its list while the peer writes, so that no lock is held
/// across an await, and put back in place)
async fn peer_do(id: Option<u32>, inbound: &mut Vec<PeerConn>, probe: &FactoryProbe, act: PeerAct) -> bool {
    let Some(id) = id else { return false };
    let mut taken: Option<(bool, usize, PeerConn)> = None;
    if let Some(pos) = inbound.iter().position(|p| p.id == id) {
        taken = Some((true, pos, inbound.remove(pos)));
    } else {
        let mut g = probe.conns.lock();
        if let Some(pos) = g.iter().position(|p| p.id == id) {
            taken = Some((false, pos, g.remove(pos)));
        }
    }
    let Some((is_inbound, pos, mut p)) = taken else { return false };
    let ok = match act {
        PeerAct::Write(b) => p.write(&b).await,
        PeerAct::Close => {
            p.close().await;
            true
        }
    };
    if is_inbound {
        inbound.insert(pos.min(inbound.len()), p);
    } else {
        let mut g = probe.conns.lock();
        let at = pos.min(g.len());
        g.insert(at, p);
    }
    ok
}

/// connections other than `main` the peer has not seen closed yet (side connections of probes, connections the
/// history moved away from): nobody holds a handle on them, so "not closed" = still registered
fn others_open(main: Option<u32>, inbound: &[PeerConn], probe: &FactoryProbe) -> usize {
    let f = |p: &PeerConn| Some(p.id) != main && p.eof_at.lock().is_none();
    inbound.iter().filter(|p| f(p)).count() + probe.conns.lock().iter().filter(|p| f(p)).count()
}

fn options(marker: &str, via_transport: &str) -> Vec<u8> {
    options_with_body(marker, via_transport, b"")
}

fn options_with_body(marker: &str, via_transport: &str, body: &[u8]) -> Vec<u8> {
    request_text(
        "OPTIONS",
        "sip:ezk@10.0.0.1",
        &[format!("SIP/2.0/{via_transport} 192.0.2.5:5060;branch=z9hG4bKc15{marker}")],
        "<sip:peer@192.0.2.5>;tag=pt",
        "<sip:ezk@10.0.0.1>",
        &format!("c15-{marker}"),
        1,
        "OPTIONS",
        &[format!("X-Seq: {marker}")],
        body,
    )
}

pub fn check(case: &Case, out: &mut CaseOut) {
    let c = case.clone();
    let (obs, model, steps, facts): (Observed, Model, Vec<String>, Facts) = run_world(case.rng as u64, |clock| async move {
        let log = WireLog::new(clock);
        let (factory, probe) = mock_factory::<false>(clock, &log);
        let (lb, dialer) = mock_listener::<false>(clock, &log, "10.0.0.1:5060");
        let rec = Recorder::new(clock);
        let (tx, mut rx) = mpsc::unbounded_channel::<IncomingRequest>();
        let mut b = offline_builder();
        b.add_transport_factory(Arc::new(factory));
        b.add_layer(ChannelLayer { rec: rec.clone(), tx });
        use sip_core::transport::streaming::StreamingListenerBuilder;
        lb.spawn(&mut b, "10.0.0.1:5060").await.unwrap();
        let endpoint = b.build();
        settle().await;
        let uri: SipUri = format!("sip:peer@{MAIN_REMOTE};transport=tcp").parse().unwrap();
        let main_remote: std::net::SocketAddr = MAIN_REMOTE.parse().unwrap();
        // newest connection the factory opened to the remote of the connection under test
        let newest_main = |probe: &FactoryProbe| probe.conns.lock().iter().filter(|p| p.peer_addr == main_remote).map(|p| p.id).max();

        let mut m = Model::default();
        let mut facts = Facts::default();
        let mut problems: Vec<String> = vec![];
        let mut steps: Vec<String> = vec![];
        let mut handles: Vec<TpHandle> = vec![];
        // peer ends of accepted connections (those of the factory live in probe.conns)
        let mut inbound_conns: Vec<PeerConn> = vec![];
        let mut delivered: Vec<(u64, String, u32)> = vec![];
        // peer conn id of the connection the history currently talks about
        let mut main_id: Option<u32>;

        // open the connection
        if c.inbound {
            let p = dialer.dial(MAIN_REMOTE);
            main_id = Some(p.id);
            inbound_conns.push(p);
            settle().await;
            m.alive = true;
            m.unused_since = Some(0);
            m.generation = 1;
        } else {
            match endpoint.select_transport(&uri).await {
                Ok((h, _)) => handles.push(h),
                Err(e) => problems.push(format!("initial select failed: {e}")),
            }
            main_id = newest_main(&probe);
            settle().await;
            m.alive = true;
            m.handles = 1;
            m.generation = 1;
        }

        let mut msg_gen: std::collections::HashMap<String, u32> = Default::default();
        // does the application keep the handle that comes with the request (decided by the op that completed it)
        let mut keep_of: std::collections::HashMap<String, bool> = Default::default();
        // what the peer has begun to send on the connection under test and not finished
        let mut pending: Option<PendingFrag> = None;
        let mut t = 0u64;
        let mut seq = 0;
        let n = c.ops.len();
        for (i, (gap, op)) in c.ops.iter().enumerate() {
            t += gap;
            clock.until(t).await;
            m.expire_if_due(t);
            if m.ambiguous {
                break;
            }
            'op: {
            match op {
                Op::Clone => {
                    if let Some(h) = handles.last().cloned() {
                        handles.push(h);
                        m.handles += 1;
                    }
                }
                Op::Drop => {
                    if handles.pop().is_some() {
                        m.handles -= 1;
                        if m.handles == 0 {
                            m.released_last(t);
                        }
                    }
                }
                Op::DropAll => {
                    if !handles.is_empty() {
                        handles.clear();
                        m.handles = 0;
                        m.released_last(t);
                    }
                }
                Op::Msg { keep } => {
                    // a request the peer has begun is finished; after half a CRLF the rest of the CRLF and a new
                    // request go out in one piece
                    let (marker, bytes) = match pending.take() {
                        Some(PendingFrag { marker: Some(marker), rest }) => {
                            if m.alive {
                                facts.fragment_completed = true;
                            }
                            (marker, rest)
                        }
                        other => {
                            seq += 1;
                            let marker = format!("m{seq}");
                            msg_gen.insert(marker.clone(), m.generation);
                            let mut bytes = other.map(|p| p.rest).unwrap_or_default();
                            bytes.extend_from_slice(&options(&marker, "TCP"));
                            (marker, bytes)
                        }
                    };
                    keep_of.insert(marker.clone(), *keep);
                    let written = peer_do(main_id, &mut inbound_conns, &probe, PeerAct::Write(bytes)).await;
                    // the rest of this op happens after the scheduling point below
                    if m.alive {
                        m.frag_pending = false;
                        m.expected_delivered.push(marker.clone());
                        if written {
                            m.msg_unsettled = true;
                            m.task_has_message = true;
                        }
                    }
                }
                Op::Partial { kind } => {
                    let (bytes, continued) = match pending.take() {
                        // a further piece of what was begun: half of what is left (the last byte is kept back)
                        Some(mut p) => {
                            let n = p.rest.len() / 2;
                            let now: Vec<u8> = p.rest.drain(..n).collect();
                            pending = Some(p);
                            (now, true)
                        }
                        None => {
                            seq += 1;
                            let marker = format!("m{seq}");
                            let (now, rest, is_request) = kind.split(&marker);
                            if is_request {
                                msg_gen.insert(marker.clone(), m.generation);
                            }
                            pending = Some(PendingFrag { marker: is_request.then_some(marker), rest });
                            (now, false)
                        }
                    };
                    if !bytes.is_empty() {
                        let written = peer_do(main_id, &mut inbound_conns, &probe, PeerAct::Write(bytes)).await;
                        if m.alive && written {
                            m.frag_pending = true;
                            if continued {
                                facts.fragment_continued = true;
                            }
                            if m.handles == 0 {
                                m.frag_times.push(t);
                                if !facts.fragment_while_unreferenced.contains(kind) {
                                    facts.fragment_while_unreferenced.push(*kind);
                                }
                            } else {
                                facts.fragment_while_referenced = true;
                            }
                        }
                    }
                }
                Op::KeepAlive => {
                    // only between messages
                    if pending.is_none() {
                        let written = peer_do(main_id, &mut inbound_conns, &probe, PeerAct::Write(b"\r\n\r\n".to_vec())).await;
                        if m.alive && written && m.handles == 0 {
                            m.frag_times.push(t);
                            facts.keepalive_while_unreferenced = true;
                        }
                    }
                }
                Op::PeerClose => {
                    peer_do(main_id, &mut inbound_conns, &probe, PeerAct::Close).await;
                    if m.alive {
                        if m.frag_pending {
                            facts.close_with_fragment = true;
                        }
                        m.alive = false;
                        m.dirty_close = true;
                        m.task_has_close = true;
                    }
                }
                Op::Garbage => {
                    if pending.is_some() {
                        // behind the beginning of a message the bytes would be read as part of that message (header
                        // value, body): no framing error is due, the op is left out
                        facts.garbage_skipped = true;
                    } else {
                        peer_do(main_id, &mut inbound_conns, &probe, PeerAct::Write(b"\x01\x02 this is not sip\r\n\r\n".to_vec())).await;
                        if m.alive {
                            m.alive = false;
                            m.dirty_close = true;
                            m.task_has_close = true;
                        }
                    }
                }
                Op::Select | Op::Touch => {
                    let touch = matches!(op, Op::Touch);
                    // a closed connection is only known to be closed after a scheduling point following the close.
                    // In every other state the selection happens right here, whatever is pending on the connection.
                    if m.dirty_close {
                        settle().await;
                        m.settled();
                    }
                    if m.left_outbound_until.map_or(false, |u| t <= u + 2) {
                        // an outbound connection to the remote that the history moved away from is idle and not
                        // yet expired (the stack ran since, so it can be picked up again): which of the connections
                        // to the remote a selection returns is not specified, the op is left out
                        facts.select_skipped = true;
                        break 'op;
                    }
                    if m.msg_unsettled {
                        facts.select_while_message_pending = true;
                    }
                    if m.alive && m.frag_pending {
                        facts.select_with_fragment = true;
                    }
                    let before = probe.connects.lock().len();
                    match endpoint.select_transport(&uri).await {
                        Ok((h, _)) => {
                            let after = probe.connects.lock().len();
                            let reusable = m.alive && !(c.inbound && m.generation == 1);
                            // the last handle went in this very instant and the stack has not run since: the
                            // connection may be reused or a new one opened; the handle has to stay good either way
                            let either = reusable && m.dirty_release && m.handles == 0;
                            if either {
                                if after == before {
                                    facts.reselect_reused = true;
                                } else {
                                    facts.reselect_connected = true;
                                }
                            }
                            if reusable && !(either && after != before) {
                                if after != before {
                                    problems.push(format!("t={t}: live outbound connection not reused (connect called)"));
                                }
                                m.dirty_release = false;
                                if touch {
                                    drop(h);
                                    if m.handles == 0 {
                                        // picked up and released: that is a use, the idle period starts again
                                        m.revived_this_instant = true;
                                        m.released_last(t);
                                    }
                                } else {
                                    if m.handles == 0 {
                                        m.revived_this_instant = true;
                                    }
                                    m.handles += 1;
                                    m.unused_since = None;
                                    handles.push(h);
                                }
                            } else {
                                if after == before && !either {
                                    problems.push(format!(
                                        "t={t}: select_transport handed out a connection that is {} instead of connecting anew",
                                        if c.inbound && m.generation == 1 && m.alive { "inbound" } else { "closed/expired" }
                                    ));
                                }
                                // from now on the new connection is the one the history talks about; handles on
                                // the old one are let go. The old one still has to end its own idle period on time.
                                let mut left_until = None;
                                if let Some(id) = main_id {
                                    if m.alive {
                                        let ends = if m.handles > 0 || m.msg_unsettled || m.unused_since.is_none() { vec![t + IDLE] } else { m.candidates() };
                                        if !(c.inbound && m.generation == 1) {
                                            left_until = ends.last().copied();
                                        }
                                        m.left.push((id, ends));
                                    } else if !m.expect_eof.is_empty() {
                                        m.left.push((id, m.expect_eof.clone()));
                                    }
                                }
                                // what the peer had begun on the old connection is never finished
                                pending = None;
                                m.frag_pending = false;
                                m.frag_times.clear();
                                handles.clear();
                                if after != before {
                                    main_id = newest_main(&probe);
                                }
                                m.generation += 1;
                                m.alive = true;
                                m.expect_eof = vec![];
                                m.msg_unsettled = false;
                                // (connections left earlier in this instant stay unselectable until the stack runs)
                                let earlier = m.left_pending_until.take();
                                m.settled();
                                m.left_pending_until = earlier;
                                if let Some(u) = left_until {
                                    m.left_pending_until = Some(m.left_pending_until.map_or(u, |o| o.max(u)));
                                }
                                if touch {
                                    drop(h);
                                    m.handles = 0;
                                    m.released_last(t);
                                } else {
                                    handles.push(h);
                                    m.handles = 1;
                                    m.unused_since = None;
                                }
                            }
                        }
                        Err(e) => problems.push(format!("t={t}: select_transport failed: {e}")),
                    }
                }
                Op::Probe { target } => {
                    // not a use of the connection under test, whatever state it is in; no scheduling point
                    if m.alive {
                        if m.handles == 0 {
                            if !facts.probe_while_unreferenced.contains(target) {
                                facts.probe_while_unreferenced.push(*target);
                            }
                        } else {
                            facts.probe_while_referenced = true;
                        }
                    }
                    match endpoint.select_transport(&target.uri()).await {
                        Ok((h, _)) => {
                            facts.probe_side_connection = true;
                            drop(h);
                        }
                        Err(_) => facts.probe_refused = true,
                    }
                }
            }
            }
            let next_same_instant = c.ops.get(i + 1).map_or(false, |(g, _)| *g == 0);
            if !next_same_instant {
                // let the stack run
                settle().await;
                m.settled();
                // deliveries: keep or release the handle that came with each request
                while let Ok(req) = rx.try_recv() {
                    let marker = req
                        .headers
                        .iter()
                        .find(|(n, _)| n.as_print_str().eq_ignore_ascii_case("x-seq"))
                        .map(|(_, v)| v.to_string())
                        .unwrap_or_default();
                    delivered.push((clock.now_ms(), marker.clone(), m.generation));
                    let keep = keep_of.get(&marker).copied().unwrap_or(false);
                    if msg_gen.get(&marker) != Some(&m.generation) {
                        // arrived on a connection the history has moved away from
                        drop(req);
                        continue;
                    }
                    if keep && m.alive {
                        handles.push(req.tp_info.transport.clone());
                        m.handles += 1;
                        m.unused_since = None;
                    } else if m.alive && m.handles == 0 {
                        // traffic on an unreferenced connection restarts the idle period
                        m.unused_since = Some(t);
                    }
                    drop(req);
                }
                m.msg_unsettled = false;
                settle().await;
                let count = endpoint.verif_counts().1;
                let others = others_open(main_id, &inbound_conns, &probe);
                let count_main = count.saturating_sub(others);
                steps.push(format!("{t}ms {op:?} -> handles={} alive={} managed={count} (other open connections {others})", m.handles, m.alive));
                // registered while referenced
                if m.alive && m.handles > 0 && count_main == 0 {
                    problems.push(format!("t={t}: connection with {} live handles is not registered any more", m.handles));
                }
                // (judged while the first connection is the one the history talks about)
                if !m.alive && m.expect_eof.is_empty() && count_main != 0 && i + 1 == n && m.generation == 1 {
                    problems.push(format!("t={t}: closed connection still registered ({count_main})"));
                }
            }
        }

        // wind down: drop everything, wait past every timer
        if !m.ambiguous {
            m.expire_if_due(t);
        }
        let had_handles = !handles.is_empty();
        handles.clear();
        settle().await;
        if m.alive && !m.ambiguous {
            if had_handles || m.unused_since.is_none() {
                m.unused_since = Some(t);
                m.frag_times.clear();
            }
            m.expect_eof = m.candidates();
            m.fragment_pending_at_expiry |= m.frag_pending;
            m.alive = false;
        }
        while let Ok(req) = rx.try_recv() {
            drop(req);
        }
        clock.advance(3 * IDLE).await;
        settle().await;
        let mut all_eof = vec![];
        for p in inbound_conns.iter() {
            all_eof.push((p.id, *p.eof_at.lock()));
        }
        for p in probe.conns.lock().iter() {
            all_eof.push((p.id, *p.eof_at.lock()));
        }
        let eof = main_id.and_then(|id| all_eof.iter().find(|e| e.0 == id).copied());
        let final_count = endpoint.verif_counts().1;
        (Observed { delivered, problems, eof, all_eof, final_count }, m, steps, facts)
    });

    out.note = Some(format!("steps={steps:?} delivered={:?} eof={:?} left={:?} all_eof={:?}", obs.delivered, obs.eof, model.left, obs.all_eof));
    out.class(if case.inbound { "inbound" } else { "outbound" });
    let mut race = false;
    for w in case.ops.windows(2) {
        let (a, b) = (&w[0].1, &w[1]);
        if b.0 <= 1 {
            let pair = (matches!(a, Op::Drop | Op::DropAll) && matches!(b.1, Op::Msg { .. })) || (matches!(a, Op::Msg { .. }) && matches!(b.1, Op::Drop | Op::DropAll));
            if pair {
                race = true;
                if b.0 == 0 {
                    out.class("drop-last-and-message-same-instant");
                }
            }
        }
    }
    let edge = case.ops.iter().any(|(g, _)| g.abs_diff(IDLE) <= 3);
    if edge {
        out.class("event-within-3ms-of-32s-edge");
    }
    if model.ambiguous {
        out.class("tie-on-32s-edge(unasserted)");
    }
    if model.pickup_released_ever {
        out.class("idle-connection-picked-up-and-released-between-polls");
    }
    if model.pickup_with_message_ever {
        out.class("pickup-release-and-message-same-instant");
    }
    if model.pickup_with_close_ever {
        out.class("pickup-release-and-close-same-instant");
    }
    if facts.select_while_message_pending {
        out.class("select-while-message-pending");
    }
    for t in &facts.probe_while_unreferenced {
        out.class(t.label());
    }
    if facts.probe_while_referenced {
        out.class("probe-while-referenced");
    }
    if facts.probe_refused {
        out.class("probe-refused(no transport for target)");
    }
    if facts.probe_side_connection {
        out.class("probe-served-by-side-connection");
    }
    if !model.left.is_empty() {
        out.class("left-connection-expiry-judged");
    }
    if facts.reselect_reused {
        out.class("select-in-the-instant-of-last-release:connection-reused");
    }
    if facts.reselect_connected {
        out.class("select-in-the-instant-of-last-release:new-connection");
    }
    if facts.select_skipped {
        out.class("select-left-out(two live connections to the remote)");
    }
    for k in &facts.fragment_while_unreferenced {
        out.class(k.label());
    }
    if facts.fragment_while_referenced {
        out.class("fragment-while-referenced");
    }
    if facts.keepalive_while_unreferenced {
        out.class("keep-alive-while-unreferenced");
    }
    if facts.fragment_completed {
        out.class("fragment-completed-later");
    }
    if facts.fragment_continued {
        out.class("fragment-continued-by-another-piece");
    }
    if facts.close_with_fragment {
        out.class("peer-close-with-fragment-in-buffer");
    }
    if facts.select_with_fragment {
        out.class("select-with-fragment-in-buffer");
    }
    if facts.garbage_skipped {
        out.class("garbage-left-out(behind a fragment)");
    }
    if model.fragment_pending_at_expiry {
        out.class("idle-period-ends-with-fragment-in-buffer");
    }
    if model.expect_eof.len() > 1 || model.left.iter().any(|l| l.1.len() > 1) {
        out.class("expiry-judged-against-both-readings-of-traffic");
    }
    if model.disputed {
        out.class("op-between-the-two-readings-of-traffic(unasserted)");
    }
    let reselect = facts.reselect_reused || facts.reselect_connected;
    let fragment = !facts.fragment_while_unreferenced.is_empty() || facts.keepalive_while_unreferenced || model.fragment_pending_at_expiry;
    if race || edge || model.pickup_with_message_ever || model.pickup_with_close_ever || !facts.probe_while_unreferenced.is_empty() || reselect || fragment {
        out.nontrivial(case);
    }

    for p in &obs.problems {
        let locus = if p.contains("not reused") {
            "live-connection-not-reused"
        } else if p.contains("handed out a connection") {
            "dead-or-inbound-connection-selected"
        } else if p.contains("not registered any more") {
            "referenced-connection-unregistered"
        } else if p.contains("still registered") {
            "closed-connection-still-registered"
        } else {
            "other"
        };
        out.fail(format!("c15.lifecycle/{locus}"), p.clone());
    }
    // connections the history moved away from end their own idle period on time (decided when they were left)
    for (id, want) in &model.left {
        let got = obs.all_eof.iter().find(|e| e.0 == *id).and_then(|e| e.1);
        if let Some((locus, msg)) = judge_close(got, want) {
            out.fail(format!("c15.expiry/left-connection-{locus}"), format!("connection the application no longer uses {msg}"));
        }
    }
    if model.ambiguous {
        return;
    }
    // every message sent while the connection was alive is delivered exactly once, in order
    let got: Vec<String> = obs.delivered.iter().map(|d| d.1.clone()).collect();
    if got != model.expected_delivered {
        let lost = model.expected_delivered.iter().any(|m| !got.contains(m));
        out.fail(
            if lost { "c15.delivery/message-on-live-connection-lost" } else { "c15.delivery/unexpected-or-duplicate" },
            format!("delivered {got:?}, expected {:?}", model.expected_delivered),
        );
    }
    // idle expiry: the connection is closed 32 s after it was last used
    if !model.expect_eof.is_empty() {
        if let Some((locus, msg)) = judge_close(obs.eof.and_then(|e| e.1), &model.expect_eof) {
            out.fail(format!("c15.expiry/{locus}"), format!("connection {msg}"));
        }
    }
    if obs.final_count != 0 {
        out.fail("c15.expiry/still-registered-at-end", format!("{} managed transports left after everything was dropped and 96 s passed", obs.final_count));
    }
}

/// idle expiry against the accepted instants (ascending; the first = 32 s after the last use, further ones = 32 s
/// after bytes that are no whole message arrived later than that)
fn judge_close(got: Option<u64>, want: &[u64]) -> Option<(&'static str, String)> {
    let text = if want.len() == 1 {
        format!("expected 32 s after last use = {} ms", want[0])
    } else {
        format!("expected 32 s after last use = {} ms, or 32 s after later bytes of an unfinished message / keep-alive = one of {:?} ms", want[0], &want[1..])
    };
    match got {
        Some(t) if want.iter().any(|w| t.abs_diff(*w) <= 2) => None,
        Some(t) if t < want[0] => Some(("closed-too-early", format!("closed at {t} ms, {text}"))),
        Some(t) if t > *want.last().unwrap() => Some(("closed-too-late", format!("closed at {t} ms, {text}"))),
        Some(t) => Some(("closed-off-schedule", format!("closed at {t} ms, {text}"))),
        None => Some(("never-closed", format!("never closed, {text}"))),
    }
}

pub fn property() -> Property {
    Property {
        fuzz: vec![],
        id: "C15",
        rule: "a case = one mock connection under test (outbound via a mock factory + select_transport, or inbound via a mock listener) and a history of 1..8 ops {clone handle, drop handle, drop all, inbound message (application keeps / releases the handle that comes with it), peer close, garbage bytes, select_transport to the same remote (handle kept), touch = select_transport to the same remote + release of the handle with no scheduling point in between, probe = select_transport for a target the connection must not serve (sips: on the same address, other port, other host; handle released at once), partial = the peer writes the beginning of a request (10 bytes / 90 bytes / head without the empty line / head without body / head and half the body) or CRLF CR or a lone CR and stops (the next message op writes the rest, a further partial half of the rest), keep-alive = a whole CRLF CRLF} with gaps from {0 (same instant, no scheduling point: all ops of an instant are pending when the connection's task is polled), 1, 100, 16000, 32000-3, 32000-1, 32000+1, 32000+3, 64000} ms under a paused clock and a tokio select seed. race sub-check enumerates the race named by the property (last handle dropped and a message in the same instant, both orders, around idle periods on the 32 s edge) under 64 (thorough 256) select seeds. pickup sub-check enumerates an idle outbound connection picked up and released between two polls of its task together with message(s) / peer close / garbage in the same instant (7 shapes with a message x keep, 2 without, x idle time before x 32 s -3/+3 ms after) under 32 (thorough 256) select seeds. probe sub-check enumerates selections for the three other targets, once and every 20 s, while the connection is idle / silent / referenced. reselect sub-check enumerates the release of the last handle (5 ways) and a select_transport to the same remote in the same instant with no scheduling point in between (5 continuations of the instant), the handle then held across 32 s +3 ms, a message, another 32 s -3/+3 ms, released, selected again, under 8 (thorough 64) select seeds. fragment sub-check enumerates 7 fragments + whole keep-alive x {accepted and silent, accepted and released, outbound and released, still referenced and released 100 ms later} x arrival 1 ms / 16 s / 32 s -3 ms into the idle period x {nothing, rest, another piece, peer close, pick-up held 64 s then rest, selection 64 s later}. Oracle = lifecycle reference model: registered while referenced; delivered exactly once while alive; closed 32 s after last use (selections for other targets are no use); unregistered at once on peer close / framing error and never selected afterwards; live outbound connection reused; inbound connections never selected; a connection the history moved away from still expires 32 s after its own last use; a selection in the instant of the last release may reuse or reconnect, the connection it returns is referenced from then on; with bytes that are no whole message the close is accepted 32 s after the last use or 32 s after any later such arrival, and is due after the last of these. Non-trivial = a selection in the instant of the last release, or a fragment / keep-alive on an unreferenced connection, or an idle period ending with a fragment in the read buffer, or a drop-last and a message within 1 ms, or an event within 3 ms of a 32 s edge, or a pick-up + release of an unreferenced connection sharing its instant with a message / close, or a probe while the connection is unreferenced.",
        assumptions: vec![
            "events exactly on the 32 s edge (within 2 ms) stop the comparison (tie is a don't-care)",
            "a peer close / framing error only has to be known after a scheduling point (settle) following it; in every other state select_transport is called with whatever is pending. Reuse is demanded whenever the connection is alive, except in the instant its last handle was released (before the stack ran): there reuse and reconnect are both accepted",
            "'32 s without traffic': bytes that are no whole message (fragment of a request, CRLF keep-alive) may or may not count as traffic; a history with an op between the two resulting expiry instants is not judged",
            "while an outbound connection the history moved away from alive can still be idle (32 s), selections to the remote are left out (which of two live connections is picked is unspecified and depends on hash map order)",
            "garbage is only sent between messages (behind a fragment it would be read as part of the message)",
            "the peer observes the close as EOF on the in-memory duplex pipe",
            "only a non-secure (TCP) factory is registered: a sips: target has no transport and select_transport may refuse it; what a probe returns is not judged",
            "managed-transport count is attributed to the connection under test after subtracting the other connections of the case the peer has not seen closed (nobody holds handles on those)",
        ],
        explanation: "race, pickup, probe, reselect and fragment sub-checks exhaustive over their small products x seeds; random histories sampled",
        subs: vec![
            enum_sub("race", race_cases, check),
            enum_sub("pickup", pickup_cases, check),
            enum_sub("probe", probe_cases, check),
            enum_sub("reselect", reselect_cases, check),
            enum_sub("fragment", fragment_cases, check),
            prop_sub("history", strategy, 1500, 30000, check),
        ],
    }
}
