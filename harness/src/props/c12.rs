//! C12 — UAS INVITE: one final response under any CANCEL/BYE/accept race; 2xx until ACK

use crate::engine::*;
use crate::refmodel::ref_tsx::{self, T1, T2, TIMEOUT};
use crate::world::*;
use parking_lot::Mutex;
use proptest::prelude::*;
use serde::{Deserialize, Serialize};
use sip_core::{Endpoint, IncomingRequest, Layer, LayerKey, MayTake};
use sip_types::header::typed::Contact;
use sip_types::uri::sip::SipUri;
use sip_types::uri::NameAddr;
use sip_types::{Code, Method};
use sip_ua::dialog::{Dialog, DialogLayer};
use sip_ua::invite::acceptor::Acceptor;
use sip_ua::invite::session::Event;
use sip_ua::invite::InviteLayer;
use std::net::SocketAddr;
use std::sync::Arc;
use tokio::sync::mpsc;

const BRANCH: &str = "z9hG4bKc12invite";
const INVITE_CSEQ: u32 = 314;

#[derive(Serialize, Deserialize, Clone, Copy, Debug, Hash, PartialEq, Eq)]
pub enum AppOp {
    Prov180,
    Rel183,
    Accept,
    Reject(u16),
    Drop,
}

#[derive(Serialize, Deserialize, Clone, Copy, Debug, Hash, PartialEq, Eq)]
pub enum NetOp {
    /// CANCEL; flags: branch matches the INVITE, CSeq number matches the INVITE
    Cancel { branch_ok: bool, cseq_ok: bool },
    /// BYE inside the (early) dialog
    Bye,
    /// byte-identical copy of the INVITE
    DupInvite,
    /// PRACK for the reliable provisional; flags: RAck rseq matches, RAck cseq matches
    Prack { rack_ok: bool, cseq_ok: bool },
    /// ACK for the 2xx; flag: CSeq number matches the INVITE
    Ack { cseq_ok: bool },
    /// re-INVITE inside the dialog (next CSeq); the application answers it 488 when it gets to it
    ReInvite,
}

#[derive(Serialize, Deserialize, Clone, Debug, Hash, Default)]
pub struct Case {
    /// application ops on the acceptor, executed in this order, each not before its time
    pub app: Vec<(u64, AppOp)>,
    /// network events at absolute times (same instant: list order)
    pub net: Vec<(u64, NetOp)>,
    /// network events are injected before (true) or after (false) the application ops that share their instant
    pub net_first: bool,
    pub rng: u8,
    /// the transport reports itself reliable (a 2xx and a reliable 1xx are retransmitted end-to-end all the same:
    /// RFC 3261 13.3.1.4, RFC 3262 3)
    #[serde(default)]
    pub reliable: bool,
    /// everything after the INVITE arrives from another source port of the peer (a CANCEL, ACK, BYE or copy of the
    /// INVITE belongs to its transaction / dialog by its header fields, not by the packet's source)
    #[serde(default)]
    pub alt_source: bool,
    /// the application starts driving the established session only this long after `respond_success` returned
    #[serde(default)]
    pub session_busy_ms: u64,
}

// ---------------------------------------------------------------------------------------------
// world

struct AcceptLayer {
    dialog_layer: LayerKey<DialogLayer>,
    invite_layer: LayerKey<InviteLayer>,
    tx: mpsc::UnboundedSender<(Acceptor, String)>,
    rec: Recorder,
}

#[async_trait::async_trait]
impl Layer for AcceptLayer {
    fn name(&self) -> &'static str {
        "accept"
    }
    async fn receive(&self, endpoint: &Endpoint, request: MayTake<'_, IncomingRequest>) {
        self.rec.note(0, &request);
        if request.line.method != Method::INVITE {
            return;
        }
        let invite = request.take();
        let contact: SipUri = "sip:uas@10.0.0.1".parse().unwrap();
        let contact = Contact::new(NameAddr::uri(contact));
        let Ok(dialog) = Dialog::new_server(endpoint.clone(), self.dialog_layer, &invite, contact) else { return };
        let tag = dialog.local_fromto.tag.as_ref().map(|t| t.to_string()).unwrap_or_default();
        if let Ok(acceptor) = Acceptor::new(dialog, self.invite_layer, invite) {
            let _ = self.tx.send((acceptor, tag));
        }
    }
}

#[derive(Clone, Debug)]
pub struct AppResult {
    pub op: AppOp,
    pub started: u64,
    pub ended: u64,
    /// "ok", "terminated", "timeout", or other error text
    pub outcome: String,
}

pub struct Observed {
    pub wire: Vec<(Sent, Option<WireMsg>)>,
    pub app: Vec<AppResult>,
    pub seen: Vec<Seen>,
    pub session_events: Vec<(u64, String)>,
    pub rseq: Option<u32>,
    pub cancellables_end: usize,
    pub dialogs_end: usize,
}

fn invite_bytes() -> Vec<u8> {
    request_text(
        "INVITE",
        "sip:uas@10.0.0.1",
        &[format!("SIP/2.0/UDP 192.0.2.9:5060;branch={BRANCH}")],
        "<sip:peer@192.0.2.9>;tag=peertag",
        "<sip:uas@10.0.0.1>",
        "c12-call",
        INVITE_CSEQ,
        "INVITE",
        &["Contact: <sip:peer@192.0.2.9>".into(), "Supported: 100rel".into()],
        b"",
    )
}

fn in_dialog(method: &str, branch: &str, cseq: u32, local_tag: &str, extra: &[String]) -> Vec<u8> {
    request_text(
        method,
        "sip:uas@10.0.0.1",
        &[format!("SIP/2.0/UDP 192.0.2.9:5060;branch={branch}")],
        "<sip:peer@192.0.2.9>;tag=peertag",
        &format!("<sip:uas@10.0.0.1>;tag={local_tag}"),
        "c12-call",
        cseq,
        method,
        extra,
        b"",
    )
}

fn classify_err(e: &str) -> String {
    if e.contains("cancelled") || e.contains("terminated") {
        "terminated".into()
    } else if e.contains("timed out") {
        "timeout".into()
    } else {
        e.to_string()
    }
}

pub fn run(case: &Case, horizon: u64) -> Observed {
    let case = case.clone();
    run_world(case.rng as u64, |clock| async move {
        let log = WireLog::new(clock);
        let (tp, _) = mock_datagram(&log, "UDP", false, case.reliable, "10.0.0.1:5060");
        let rec = Recorder::new(clock);
        let (tx, mut rx) = mpsc::unbounded_channel();
        let mut b = offline_builder();
        let dl = b.add_layer(DialogLayer::default());
        let il = b.add_layer(InviteLayer::default());
        b.add_layer(AcceptLayer { dialog_layer: dl, invite_layer: il, tx, rec: rec.clone() });
        let endpoint = b.build();
        let peer: SocketAddr = "192.0.2.9:5060".parse().unwrap();
        let later_source: SocketAddr = if case.alt_source { "192.0.2.9:5099".parse().unwrap() } else { peer };
        let inv = invite_bytes();
        inject(&endpoint, &tp, peer, &inv);
        settle().await;
        let app_results: Arc<Mutex<Vec<AppResult>>> = Default::default();
        let session_events: Arc<Mutex<Vec<(u64, String)>>> = Default::default();
        let Ok((acceptor, local_tag)) = rx.try_recv() else {
            return Observed { wire: log.parsed(), app: vec![], seen: rec.snapshot(), session_events: vec![], rseq: None, cancellables_end: 0, dialogs_end: 0 };
        };

        // application task: ops in order
        {
            let app_results = app_results.clone();
            let session_events = session_events.clone();
            let ops = case.app.clone();
            let endpoint = endpoint.clone();
            let case = case.clone();
            tokio::spawn(async move {
                let mut acceptor = Some(acceptor);
                for (t, op) in ops {
                    clock.until(t).await;
                    let started = clock.now_ms();
                    let Some(acc) = acceptor.as_mut() else {
                        app_results.lock().push(AppResult { op, started, ended: started, outcome: "no-acceptor".into() });
                        continue;
                    };
                    let outcome: String = match op {
                        AppOp::Drop => {
                            acceptor = None;
                            "ok".into()
                        }
                        AppOp::Prov180 => match acc.create_response(Code::from(180), None).await {
                            Err(e) => classify_err(&e.to_string()),
                            Ok(r) => match acc.respond_provisional(r).await {
                                Ok(()) => "ok".into(),
                                Err(e) => classify_err(&e.to_string()),
                            },
                        },
                        AppOp::Rel183 => match acc.create_response(Code::from(183), None).await {
                            Err(e) => classify_err(&e.to_string()),
                            Ok(r) => match acc.respond_provisional_reliable(r).await {
                                Ok(_prack) => "ok".into(),
                                Err(e) => classify_err(&e.to_string()),
                            },
                        },
                        AppOp::Reject(code) => match acc.create_response(Code::from(code), None).await {
                            Err(e) => classify_err(&e.to_string()),
                            Ok(r) => {
                                let acc = acceptor.take().unwrap();
                                match acc.respond_failure(r).await {
                                    Ok(()) => "ok".into(),
                                    Err(e) => classify_err(&e.to_string()),
                                }
                            }
                        },
                        AppOp::Accept => match acc.create_response(Code::from(200), None).await {
                            Err(e) => classify_err(&e.to_string()),
                            Ok(r) => {
                                let acc = acceptor.take().unwrap();
                                match acc.respond_success(r).await {
                                    Ok((mut session, _ack)) => {
                                        let session_events = session_events.clone();
                                        let endpoint = endpoint.clone();
                                        let busy = case.session_busy_ms;
                                        tokio::spawn(async move {
                                            if busy > 0 {
                                                clock.advance(busy).await;
                                            }
                                            loop {
                                                match session.drive().await {
                                                    Ok(Event::Bye(ev)) => {
                                                        session_events.lock().push((clock.now_ms(), "bye".into()));
                                                        let _ = ev.process_default().await;
                                                    }
                                                    Ok(Event::ReInviteReceived(ev)) => {
                                                        session_events.lock().push((clock.now_ms(), "reinvite".into()));
                                                        // declined; the 488 is retransmitted by its transaction while
                                                        // the application goes on driving the session
                                                        let sip_ua::invite::session::ReInviteReceived { invite, transaction, .. } = ev;
                                                        let response = endpoint.create_response(&invite, Code::from(488), None);
                                                        tokio::spawn(async move {
                                                            let _ = transaction.respond_failure(response).await;
                                                            drop(invite);
                                                        });
                                                    }
                                                    Ok(Event::RefreshNeeded(_)) => {}
                                                    Ok(Event::Terminated) => {
                                                        session_events.lock().push((clock.now_ms(), "terminated".into()));
                                                        break;
                                                    }
                                                    Err(_) => break,
                                                }
                                            }
                                        });
                                        "ok".into()
                                    }
                                    Err(e) => classify_err(&e.to_string()),
                                }
                            }
                        },
                    };
                    app_results.lock().push(AppResult { op, started, ended: clock.now_ms(), outcome });
                }
                // an acceptor the script never finished with stays with the application
                if let Some(a) = acceptor {
                    std::future::pending::<()>().await;
                    drop(a);
                }
            });
        }
        if !case.net_first {
            settle().await;
        }

        let mut rseq: Option<u32> = None;
        let mut n = 0;
        let mut next_cseq = INVITE_CSEQ; // the peer numbers its in-dialog requests consecutively
        for (t, op) in case.net.iter() {
            clock.until(*t).await;
            if !case.net_first {
                settle().await;
            }
            n += 1;
            // the peer learns RSeq from the 183 on the wire
            if rseq.is_none() {
                for (_, m) in log.parsed() {
                    if let Some(m) = m {
                        if m.status() == Some(183) {
                            rseq = m.header("rseq").and_then(|v| v.trim().parse().ok());
                        }
                    }
                }
            }
            let bytes = match op {
                NetOp::DupInvite => inv.clone(),
                NetOp::Cancel { branch_ok, cseq_ok } => request_text(
                    "CANCEL",
                    "sip:uas@10.0.0.1",
                    &[format!("SIP/2.0/UDP 192.0.2.9:5060;branch={}", if *branch_ok { BRANCH.to_string() } else { format!("{BRANCH}x") })],
                    "<sip:peer@192.0.2.9>;tag=peertag",
                    "<sip:uas@10.0.0.1>",
                    "c12-call",
                    if *cseq_ok { INVITE_CSEQ } else { INVITE_CSEQ + 1 },
                    "CANCEL",
                    &[format!("X-Seq: n{n}")],
                    b"",
                ),
                NetOp::Bye => {
                    next_cseq += 1;
                    in_dialog("BYE", &format!("z9hG4bKc12bye{n}"), next_cseq, &local_tag, &[format!("X-Seq: n{n}")])
                }
                NetOp::ReInvite => {
                    next_cseq += 1;
                    in_dialog("INVITE", &format!("z9hG4bKc12reinv{n}"), next_cseq, &local_tag, &[format!("X-Seq: n{n}"), "Contact: <sip:peer@192.0.2.9>".into()])
                }
                NetOp::Prack { rack_ok, cseq_ok } => {
                    let r = rseq.unwrap_or(1);
                    next_cseq += 1;
                    in_dialog(
                        "PRACK",
                        &format!("z9hG4bKc12prack{n}"),
                        next_cseq,
                        &local_tag,
                        &[
                            format!("RAck: {} {} INVITE", if *rack_ok { r } else { r.wrapping_add(1) }, if *cseq_ok { INVITE_CSEQ } else { INVITE_CSEQ + 7 }),
                            format!("X-Seq: n{n}"),
                        ],
                    )
                }
                NetOp::Ack { cseq_ok } => in_dialog(
                    "ACK",
                    &format!("z9hG4bKc12ack{n}"),
                    if *cseq_ok { INVITE_CSEQ } else { INVITE_CSEQ - 1 },
                    &local_tag,
                    &[format!("X-Seq: n{n}")],
                ),
            };
            inject(&endpoint, &tp, later_source, &bytes);
            settle().await;
        }
        clock.until(horizon).await;
        settle().await;
        let out = Observed {
            wire: log.parsed(),
            app: app_results.lock().clone(),
            seen: rec.snapshot(),
            session_events: session_events.lock().clone(),
            rseq,
            cancellables_end: endpoint[il].verif_counts(),
            dialogs_end: endpoint[dl].verif_counts().0,
        };
        out
    })
}

fn responses_for<'a>(obs: &'a Observed, branch: &str, cseq: u32, method: &str) -> Vec<(&'a Sent, &'a WireMsg)> {
    // cseq == 0: any number (the peer's in-dialog requests are numbered consecutively at run time)
    obs.wire
        .iter()
        .filter_map(|(s, m)| m.as_ref().map(|m| (s, m)))
        .filter(|(_, m)| {
            !m.is_request()
                && m.via_branch().as_deref() == Some(branch)
                && m.cseq().map_or(false, |(n, mm)| mm == method && (cseq == 0 || n == cseq))
        })
        .collect()
}

fn describe(obs: &Observed) -> String {
    format!(
        "wire={:?} app={:?}",
        obs.wire
            .iter()
            .map(|(s, m)| format!("{}:{}{}", s.t_ms, m.as_ref().map(|m| m.start.clone()).unwrap_or_default(), m.as_ref().and_then(|m| m.cseq()).map(|c| format!("[{} {}]", c.0, c.1)).unwrap_or_default()))
            .collect::<Vec<_>>(),
        obs.app.iter().map(|a| format!("{:?}@{}..{}={}", a.op, a.started, a.ended, a.outcome)).collect::<Vec<_>>()
    )
}

// ---------------------------------------------------------------------------------------------
// (a) accepted INVITE: 2xx retransmitted until the ACK

/// 2xx retransmission instants relative to the first transmission: T1 doubling capped at T2
fn accept_schedule() -> Vec<u64> {
    ref_tsx::server_inv_timer_g_schedule()
}

#[derive(Serialize, Deserialize, Clone, Debug, Hash)]
pub struct AcceptCase {
    pub accept_at: u64,
    /// (time after accept, cseq matches)
    pub acks: Vec<(u64, bool)>,
    pub prov_first: bool,
    pub rng: u8,
    #[serde(default)]
    pub reliable: bool,
    #[serde(default)]
    pub alt_source: bool,
}

fn ack_grid() -> Vec<u64> {
    let mut g = vec![1, 250];
    for s in accept_schedule() {
        g.push(s - 1);
        g.push(s + 1);
    }
    g.extend([TIMEOUT - 1, TIMEOUT + 1, TIMEOUT + T2 + 1]);
    g
}

pub fn accept_cases(tier: Tier) -> Vec<AcceptCase> {
    let mut out = vec![];
    for (reliable, alt_source) in [(false, false), (true, false), (false, true), (true, true)] {
        for mut c in accept_cases_base(tier) {
            if (reliable || alt_source) && tier == Tier::Quick && c.acks.len() > 1 {
                continue;
            }
            c.reliable = reliable;
            c.alt_source = alt_source;
            out.push(c);
        }
    }
    out
}

fn accept_cases_base(tier: Tier) -> Vec<AcceptCase> {
    let mut out = vec![AcceptCase { accept_at: 0, acks: vec![], prov_first: false, rng: 0, reliable: false, alt_source: false }, AcceptCase { accept_at: 30, acks: vec![], prov_first: true, rng: 1, reliable: false, alt_source: false }];
    for (i, a) in ack_grid().into_iter().enumerate() {
        for accept_at in [0u64, 30] {
            out.push(AcceptCase { accept_at, acks: vec![(a, true)], prov_first: i % 2 == 0, rng: i as u8, reliable: false, alt_source: false });
            // an ACK with another CSeq first: changes nothing
            out.push(AcceptCase { accept_at, acks: vec![(a, false)], prov_first: false, rng: i as u8, reliable: false, alt_source: false });
            if tier == Tier::Thorough || i % 3 == 0 {
                out.push(AcceptCase { accept_at, acks: vec![(a.saturating_sub(200).max(1), false), (a, true)], prov_first: false, rng: i as u8, reliable: false, alt_source: false });
            }
        }
    }
    out
}

pub fn check_accept(c: &AcceptCase, out: &mut CaseOut) {
    let mut app = vec![];
    if c.prov_first {
        app.push((0, AppOp::Prov180));
    }
    app.push((c.accept_at, AppOp::Accept));
    let mut net: Vec<(u64, NetOp)> = c.acks.iter().map(|(t, ok)| (c.accept_at + t, NetOp::Ack { cseq_ok: *ok })).collect();
    net.sort_by_key(|n| n.0);
    let case = Case { app, net, net_first: false, rng: c.rng, reliable: c.reliable, alt_source: c.alt_source, session_busy_ms: 0 };
    let horizon = c.accept_at + TIMEOUT + T2 + 3000;
    let obs = run(&case, horizon);
    out.note = Some(describe(&obs));

    let finals: Vec<u64> = responses_for(&obs, BRANCH, INVITE_CSEQ, "INVITE")
        .iter()
        .filter(|(_, m)| m.status() == Some(200))
        .map(|(s, _)| s.t_ms)
        .collect();
    let good_ack = c.acks.iter().filter(|(_, ok)| *ok).map(|(t, _)| c.accept_at + *t).find(|t| *t < c.accept_at + TIMEOUT);
    let end = good_ack.unwrap_or(c.accept_at + TIMEOUT);
    let mut want = vec![c.accept_at];
    for s in accept_schedule() {
        if c.accept_at + s < end {
            want.push(c.accept_at + s);
        }
    }
    if finals != want {
        let locus = if finals.first() != Some(&c.accept_at) {
            "first-transmission"
        } else if finals.iter().any(|t| *t >= end) {
            "continues-after-ack-or-64T1"
        } else {
            "interval"
        };
        out.fail(
            format!("c12.2xx-retransmit/{locus}"),
            format!("2xx transmissions at {finals:?}, expected {want:?} (accept at {}, matching ACK at {good_ack:?})", c.accept_at),
        );
    }
    let res = obs.app.iter().find(|a| a.op == AppOp::Accept);
    // a matching ACK inside [64*T1, 64*T1+T2]: the call may already have given up or may still take it
    let fuzzy_ack = c.acks.iter().filter(|(_, ok)| *ok).map(|(t, _)| c.accept_at + *t).find(|t| *t >= c.accept_at + TIMEOUT && *t <= c.accept_at + TIMEOUT + T2);
    if let (None, Some(f), Some(r)) = (good_ack, fuzzy_ack, res) {
        if r.outcome == "ok" && r.ended == f {
            out.class("ack-in-give-up-window");
            out.nontrivial(c);
            return;
        }
    }
    match (good_ack, res) {
        (Some(a), Some(r)) if r.outcome == "ok" && r.ended == a => {}
        (Some(a), r) => out.fail("c12.accept/result-with-ack", format!("ACK at {a}: respond_success gave {r:?}")),
        (None, Some(r)) if r.outcome == "timeout" && r.ended >= c.accept_at + TIMEOUT && r.ended <= c.accept_at + TIMEOUT + T2 => {}
        (None, r) => out.fail(
            "c12.accept/abandoned-not-after-64T1",
            format!("no matching ACK: expected RequestTimedOut within [{},{}], got {r:?}", c.accept_at + TIMEOUT, c.accept_at + TIMEOUT + T2),
        ),
    }
    out.class(if good_ack.is_some() { "acked" } else { "ack-lost" });
    if c.reliable {
        out.class("reliable transport");
    }
    if c.alt_source {
        out.class("ACK from another source port");
    }
    if c.acks.iter().any(|(_, ok)| !*ok) {
        out.class("ack-with-other-cseq");
    }
    out.nontrivial(c);
}

// ---------------------------------------------------------------------------------------------
// (b) reliable provisional response

#[derive(Serialize, Deserialize, Clone, Debug, Hash)]
pub struct RelCase {
    /// (time after the 183, rack matches, cseq matches)
    pub pracks: Vec<(u64, bool, bool)>,
    pub rng: u8,
    #[serde(default)]
    pub reliable: bool,
    #[serde(default)]
    pub alt_source: bool,
}

pub fn rel_cases(tier: Tier) -> Vec<RelCase> {
    let mut out = vec![];
    for (reliable, alt_source) in [(false, false), (true, false), (false, true)] {
        for (i, mut c) in rel_cases_base(tier).into_iter().enumerate() {
            if (reliable || alt_source) && tier == Tier::Quick && i % 2 == 1 {
                continue;
            }
            c.reliable = reliable;
            c.alt_source = alt_source;
            out.push(c);
        }
    }
    out
}

fn rel_cases_base(tier: Tier) -> Vec<RelCase> {
    let mut grid = vec![1u64, 250];
    for s in ref_tsx::rel1xx_schedule().into_iter().skip(1) {
        grid.push(s - 1);
        grid.push(s + 1);
    }
    let mut out = vec![RelCase { pracks: vec![], rng: 0, reliable: false, alt_source: false }];
    for (i, t) in grid.iter().enumerate() {
        if *t > 16_000 && tier == Tier::Quick && i % 2 == 0 {
            continue;
        }
        out.push(RelCase { pracks: vec![(*t, true, true)], rng: i as u8, reliable: false, alt_source: false });
        out.push(RelCase { pracks: vec![(*t, false, true)], rng: i as u8, reliable: false, alt_source: false });
        out.push(RelCase { pracks: vec![(*t, true, false)], rng: i as u8, reliable: false, alt_source: false });
        out.push(RelCase { pracks: vec![(t.saturating_sub(100).max(1), false, true), (*t, true, true)], rng: i as u8, reliable: false, alt_source: false });
    }
    out
}

pub fn check_rel(c: &RelCase, out: &mut CaseOut) {
    let mut net: Vec<(u64, NetOp)> = c.pracks.iter().map(|(t, r, s)| (*t, NetOp::Prack { rack_ok: *r, cseq_ok: *s })).collect();
    net.sort_by_key(|n| n.0);
    let case = Case { app: vec![(0, AppOp::Rel183)], net: net.clone(), net_first: false, rng: c.rng, reliable: c.reliable, alt_source: c.alt_source, session_busy_ms: 0 };
    let obs = run(&case, TIMEOUT + 5000);
    out.note = Some(describe(&obs));
    let sends: Vec<u64> = responses_for(&obs, BRANCH, INVITE_CSEQ, "INVITE").iter().filter(|(_, m)| m.status() == Some(183)).map(|(s, _)| s.t_ms).collect();
    if sends.is_empty() || sends[0] != 0 {
        out.fail("c12.rel1xx/not-sent", format!("183 transmissions {sends:?}"));
        return;
    }
    let all183: Vec<&WireMsg> = obs.wire.iter().filter_map(|(_, m)| m.as_ref()).filter(|m| m.status() == Some(183)).collect();
    if all183.iter().any(|m| m.header("rseq").is_none() || !m.list_values("require").iter().any(|r| r.eq_ignore_ascii_case("100rel"))) {
        out.fail("c12.rel1xx/missing-rseq-or-require", "reliable provisional without RSeq / Require: 100rel");
    }
    let good = c.pracks.iter().filter(|(_, r, s)| *r && *s).map(|(t, _, _)| *t).min();
    // gaps between successive copies double from T1 (RFC 3262) until the matching PRACK
    let sched = ref_tsx::rel1xx_schedule();
    let stop = good.unwrap_or(u64::MAX);
    let observed_before: Vec<u64> = sends.iter().copied().filter(|t| *t < stop).collect();
    let want_prefix: Vec<u64> = sched.iter().copied().filter(|t| *t < stop).collect();
    // total duration of the retransmission is not asserted: the observed instants must be a prefix of the schedule,
    // and complete up to the PRACK when one arrives within the first 7.5 s (5 copies)
    let is_prefix = observed_before.len() <= want_prefix.len() && observed_before == want_prefix[..observed_before.len()];
    let must_have = want_prefix.iter().filter(|t| **t <= 3500).count();
    if !is_prefix || observed_before.len() < must_have {
        out.fail(
            "c12.rel1xx/interval-not-doubling",
            format!("183 transmissions before the matching PRACK ({good:?}) at {observed_before:?}, RFC 3262 schedule {want_prefix:?}"),
        );
    }
    if let Some(g) = good {
        if sends.iter().any(|t| *t > g) {
            out.fail("c12.rel1xx/continues-after-prack", format!("183 re-sent after the matching PRACK at {g}: {sends:?}"));
        }
    }
    // only the matching PRACK is answered 200 (by the usage)
    for (i, (t, r, s)) in c.pracks.iter().enumerate() {
        let n = net.iter().position(|(nt, op)| nt == t && *op == NetOp::Prack { rack_ok: *r, cseq_ok: *s }).unwrap_or(i) as u32 + 1;
        let branch = format!("z9hG4bKc12prack{n}");
        let resp = responses_for(&obs, &branch, 0, "PRACK");
        let codes: Vec<u16> = resp.iter().filter_map(|(_, m)| m.status()).collect();
        let still_waiting = sends.last().map_or(false, |l| *t <= l + 16_000) && good.map_or(true, |g| *t <= g);
        if *r && *s && Some(*t) == good {
            if still_waiting && codes != vec![200] {
                out.fail("c12.prack/matching-not-answered-200", format!("matching PRACK at {t} answered {codes:?}"));
            }
        } else if codes.contains(&200) {
            out.fail("c12.prack/mismatching-answered-200", format!("PRACK at {t} (rack_ok={r}, cseq_ok={s}) answered 200"));
        }
    }
    let res = obs.app.iter().find(|a| a.op == AppOp::Rel183);
    if let (Some(g), Some(r)) = (good, res) {
        let copies_when = sends.iter().filter(|t| **t < g).count();
        // (when the call gives up is not asserted: only a PRACK that arrives before the last copy must complete it)
        if copies_when >= 1 && sends.last().map_or(false, |l| g < *l) && !(r.outcome == "ok" && r.ended == g) {
            out.fail("c12.rel1xx/result", format!("matching PRACK at {g}: respond_provisional_reliable gave {r:?}"));
        }
    }
    out.class(if good.is_some() { "prack-matching" } else { "prack-missing-or-wrong" });
    if c.pracks.iter().any(|(_, r, s)| !(*r && *s)) {
        out.class("prack-mismatch");
    }
    out.nontrivial(c);
}

// ---------------------------------------------------------------------------------------------
// (c) races

const RACE_TIMES: &[u64] = &[5, 5, 5, 6, 7, 505, 506, 1505, 4000];

pub fn race_strategy() -> BoxedStrategy<Case> {
    let app_op = prop_oneof![
        3 => Just(AppOp::Prov180),
        4 => Just(AppOp::Accept),
        3 => prop_oneof![Just(486u16), Just(603u16), Just(404u16)].prop_map(AppOp::Reject),
        1 => Just(AppOp::Drop),
    ];
    let net_op = prop_oneof![
        5 => Just(NetOp::Cancel { branch_ok: true, cseq_ok: true }),
        1 => Just(NetOp::Cancel { branch_ok: false, cseq_ok: true }),
        1 => Just(NetOp::Cancel { branch_ok: true, cseq_ok: false }),
        3 => Just(NetOp::Bye),
        2 => Just(NetOp::DupInvite),
        3 => Just(NetOp::Ack { cseq_ok: true }),
        1 => Just(NetOp::Ack { cseq_ok: false }),
    ];
    (
        prop::collection::vec((any::<u16>(), app_op), 1..4),
        prop::collection::vec((any::<u16>(), net_op), 1..5),
        any::<bool>(),
        any::<u8>(),
        prop_oneof![3 => Just(false), 1 => Just(true)],
        prop_oneof![2 => Just(false), 1 => Just(true)],
    )
        .prop_map(|(app, net, net_first, rng, reliable, alt_source)| {
            let mut app: Vec<(u64, AppOp)> = app.into_iter().map(|(s, o)| (RACE_TIMES[pick_idx(s, RACE_TIMES.len())], o)).collect();
            app.sort_by_key(|a| a.0);
            let mut net: Vec<(u64, NetOp)> = net.into_iter().map(|(s, o)| (RACE_TIMES[pick_idx(s, RACE_TIMES.len())], o)).collect();
            net.sort_by_key(|a| a.0);
            if reliable {
                // over a reliable transport the peer never sends a request twice (no copy of the INVITE, one CANCEL
                // per branch): a second copy would find its transaction gone and be a new request
                let mut seen_cancel = [false; 2];
                net.retain(|(_, o)| match o {
                    NetOp::DupInvite => false,
                    NetOp::Cancel { branch_ok, .. } => !std::mem::replace(&mut seen_cancel[*branch_ok as usize], true),
                    _ => true,
                });
            }
            Case { app, net, net_first, rng, reliable, alt_source, session_busy_ms: 0 }
        })
        .boxed()
}

pub fn check_race(case: &Case, out: &mut CaseOut) {
    let last = case.app.iter().map(|a| a.0).chain(case.net.iter().map(|n| n.0)).max().unwrap_or(0);
    let obs = run(case, last + 2 * TIMEOUT + T2 + 2000);
    out.note = Some(describe(&obs));

    // INVITE finals
    let inv: Vec<(&Sent, &WireMsg)> = responses_for(&obs, BRANCH, INVITE_CSEQ, "INVITE");
    let finals: Vec<&(&Sent, &WireMsg)> = inv.iter().filter(|(_, m)| m.status().unwrap_or(0) >= 200).collect();
    let mut codes: Vec<u16> = finals.iter().filter_map(|(_, m)| m.status()).collect();
    codes.sort();
    codes.dedup();

    // decisive events in time order; same-instant events may be processed in either order
    #[derive(Clone, Copy, PartialEq, Debug)]
    enum D {
        Accept,
        Reject(u16),
        Cancel,
        Bye,
        Drop,
    }
    let mut dec: Vec<(u64, D)> = vec![];
    for (t, op) in &case.app {
        match op {
            AppOp::Accept => dec.push((*t, D::Accept)),
            AppOp::Reject(c) => dec.push((*t, D::Reject(*c))),
            AppOp::Drop => dec.push((*t, D::Drop)),
            _ => {}
        }
    }
    // (a CANCEL on the INVITE's branch that follows an earlier CANCEL on that branch is, for RFC 3261
    // matching, a retransmission of the earlier one whatever its CSeq: only the first one can decide)
    let first_cancel_on_branch = case.net.iter().position(|(_, o)| matches!(o, NetOp::Cancel { branch_ok: true, .. }));
    for (i, (t, op)) in case.net.iter().enumerate() {
        match op {
            NetOp::Cancel { branch_ok: true, cseq_ok: true } if first_cancel_on_branch == Some(i) => dec.push((*t, D::Cancel)),
            NetOp::Bye => dec.push((*t, D::Bye)),
            _ => {}
        }
    }
    dec.sort_by_key(|d| d.0);
    // application ops run strictly in list order; an op can start late when the previous one blocks
    // (e.g. a reject waiting for its ACK); so "time" of an app decisive op is a lower bound.
    let first_t = dec.first().map(|d| d.0);
    // admissible first decisive events: every event not later than the first app-op completion chain allows;
    // conservative: all events sharing the earliest instant, plus (because app ops may start late) any
    // network decisive event that comes before the app's first decisive op actually started
    let mut admissible: Vec<D> = vec![];
    if let Some(ft) = first_t {
        for (t, d) in &dec {
            if *t == ft {
                admissible.push(*d);
            }
        }
        let first_app_dec_started = obs
            .app
            .iter()
            .find(|a| matches!(a.op, AppOp::Accept | AppOp::Reject(_) | AppOp::Drop))
            .map(|a| a.started);
        if let Some(st) = first_app_dec_started {
            for (t, d) in &dec {
                if matches!(d, D::Cancel | D::Bye) && *t <= st && !admissible.contains(d) {
                    admissible.push(*d);
                }
            }
        }
    }
    let dropped_first = admissible.contains(&D::Drop);
    let want_codes: Vec<u16> = admissible
        .iter()
        .filter_map(|d| match d {
            D::Accept => Some(200),
            D::Reject(c) => Some(*c),
            D::Cancel | D::Bye => Some(487),
            D::Drop => None,
        })
        .collect();

    // an application that drops the acceptor undecided abandons the transaction; a copy of the INVITE arriving
    // afterwards is then legitimately a new call: nothing about "the" INVITE is asserted in that combination
    let has_drop = case.app.iter().any(|(_, o)| *o == AppOp::Drop);
    let has_dup = case.net.iter().any(|(_, o)| *o == NetOp::DupInvite);
    if has_drop && has_dup {
        out.class("drop+duplicate-invite(unasserted)");
        return;
    }
    if codes.len() > 1 {
        out.fail("c12.final/two-different-finals", format!("INVITE got final responses {codes:?}"));
    }
    if !dec.is_empty() && !dropped_first {
        if codes.is_empty() {
            out.fail("c12.final/none", format!("decisive events {dec:?} but the INVITE got no final response"));
        } else if !want_codes.contains(&codes[0]) {
            out.fail(
                "c12.final/wrong-winner",
                format!("INVITE answered {}, admissible by the first decisive event(s) {admissible:?}: {want_codes:?}", codes[0]),
            );
        }
    }
    let winner = codes.first().copied();

    // CANCELs and BYEs: answered with their own Via / CSeq
    let mut n = 0u32;
    for (t, op) in &case.net {
        n += 1;
        match op {
            NetOp::Cancel { branch_ok, cseq_ok } => {
                let branch = if *branch_ok { BRANCH.to_string() } else { format!("{BRANCH}x") };
                let cseq = if *cseq_ok { INVITE_CSEQ } else { INVITE_CSEQ + 1 };
                // CANCELs sharing a branch are one transaction for RFC 3261 matching (a later one is absorbed as a
                // retransmission of the first, whatever its CSeq): judge them by branch
                let same_branch = case.net.iter().filter(|(_, o)| matches!(o, NetOp::Cancel { branch_ok: b, .. } if b == branch_ok)).count();
                let resp = responses_for(&obs, &branch, if same_branch > 1 { 0 } else { cseq }, "CANCEL");
                let mut c: Vec<u16> = resp.iter().filter_map(|(_, m)| m.status()).filter(|c| *c >= 200).collect();
                c.sort();
                c.dedup();
                let matching = *branch_ok && *cseq_ok;
                // several CANCELs for the same transaction share branch+CSeq: judged together
                if c.is_empty() {
                    out.fail("c12.cancel/unanswered", format!("CANCEL at {t} (branch_ok={branch_ok}, cseq_ok={cseq_ok}) got no final response"));
                } else if c.len() > 1 && same_branch == 1 {
                    out.fail("c12.cancel/two-finals", format!("CANCEL at {t} got {c:?}"));
                } else if matching && winner == Some(487) && admissible == vec![D::Cancel] && c != vec![200] {
                    out.fail("c12.cancel/matching-not-200", format!("CANCEL that terminated the INVITE answered {c:?}"));
                } else if c.iter().any(|x| *x != 200 && *x != 481) {
                    out.fail("c12.cancel/unexpected-code", format!("CANCEL at {t} answered {c:?} (allowed: 200, 481)"));
                } else if !matching && winner == Some(487) && !admissible.iter().any(|d| matches!(d, D::Cancel | D::Bye)) {
                    out.fail("c12.cancel/non-matching-cancelled-invite", "INVITE got 487 although only a non-matching CANCEL arrived");
                }
            }
            NetOp::Bye => {
                let branch = format!("z9hG4bKc12bye{n}");
                let resp = responses_for(&obs, &branch, 0, "BYE");
                let c: Vec<u16> = resp.iter().filter_map(|(_, m)| m.status()).filter(|c| *c >= 200).collect();
                let first_bye = case.net.iter().position(|(_, o)| *o == NetOp::Bye) == Some(n as usize - 1);
                let by_bye = first_bye && winner == Some(487) && admissible == vec![D::Bye];
                if by_bye && c != vec![200] {
                    // look for the misdirected 200 (built from the INVITE)
                    let stray_200 = inv.iter().any(|(_, m)| m.status() == Some(200));
                    out.fail(
                        if stray_200 { "c12.bye/200-carries-invite-via-and-cseq" } else { "c12.bye/not-answered-200" },
                        format!("BYE at {t} terminated the pending INVITE but was answered {c:?} with its own Via/CSeq (a 200 with the INVITE's Via/CSeq on the wire: {stray_200})"),
                    );
                }
                if c.len() > 1 {
                    out.fail("c12.bye/two-finals", format!("BYE at {t} got {c:?}"));
                }
            }
            _ => {}
        }
    }

    // acceptor calls after termination report it
    let term_at = dec.iter().find(|(_, d)| matches!(d, D::Cancel | D::Bye)).map(|d| d.0);
    if let (Some(tt), Some(487)) = (term_at, winner) {
        for a in &obs.app {
            if a.started > tt && matches!(a.op, AppOp::Accept | AppOp::Reject(_) | AppOp::Prov180) && a.outcome != "terminated" && a.outcome != "no-acceptor" {
                out.fail("c12.after-termination/call-did-not-report-termination", format!("{:?} started at {} after CANCEL/BYE at {tt} returned {}", a.op, a.started, a.outcome));
            }
        }
    }

    // classes / non-triviality
    let close = case.app.iter().any(|(ta, _)| case.net.iter().any(|(tn, _)| ta.abs_diff(*tn) <= 1));
    if close {
        out.class("network-and-application-op-within-1ms");
    }
    if admissible.len() > 1 {
        out.class("same-instant-decisive-race");
    }
    match winner {
        Some(200) => out.class("won-by-accept"),
        Some(487) => out.class("won-by-cancel-or-bye"),
        Some(_) => out.class("won-by-reject"),
        None => out.class("no-final"),
    }
    if case.net.iter().any(|(_, o)| matches!(o, NetOp::Ack { .. })) && winner == Some(200) {
        out.class("2xx-with-ack");
    }
    if case.reliable {
        out.class("reliable transport");
    }
    if case.alt_source {
        out.class("CANCEL/BYE/ACK/copies from another source port");
    }
    if close || admissible.len() > 1 {
        out.nontrivial(case);
    }
    let _ = (T1, obs.cancellables_end, obs.dialogs_end, &obs.seen, &obs.session_events);
}

pub fn property() -> Property {
    Property {
        fuzz: vec![],
        id: "C12",
        rule: "three sub-checks around one incoming INVITE handled by Dialog::new_server + Acceptor under a paused clock. accept_retransmit (enumerated): accept at 0/30 ms x ACK arrival on the grid {+-1 ms around every T1-doubling-capped-at-T2 instant, 64*T1 +-1, never} x ACK CSeq matching / not. reliable_provisional (enumerated): PRACK arrival +-1 ms around every RFC 3262 instant x RAck matching / wrong rseq / wrong cseq. races (random): 1..3 application ops {180, accept, reject, drop} and 1..4 network ops {CANCEL matching / wrong branch / wrong CSeq, BYE, duplicate INVITE, ACK} at instants from {5,6,7,505,506,1505,4000} ms (same instant in both orders), tokio select seed. Non-trivial (races) = a network op and an application op within 1 ms, or two decisive events at one instant.",
        assumptions: vec![
            "same-instant decisive events may be processed in either order: the INVITE's final code must come from one of them",
            "application ops run in list order; an op may start late because the previous call is still waiting (e.g. for an ACK)",
            "total duration of reliable-provisional retransmission is not asserted (observed instants must be a prefix of the RFC 3262 schedule covering at least the first 3.5 s)",
            "which of 200/481 an unmatched CANCEL receives is not asserted; a Drop of the acceptor before any decision removes the exactly-one obligation",
        ],
        explanation: "accept_retransmit and reliable_provisional enumerate their grids completely; races are sampled",
        subs: vec![
            enum_sub("accept_retransmit", accept_cases, check_accept),
            enum_sub("reliable_provisional", rel_cases, check_rel),
            prop_sub("races", race_strategy, 1500, 30000, check_race),
        ],
    }
}
