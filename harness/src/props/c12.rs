//! C12 — UAS INVITE: one final response under any CANCEL/BYE/accept race; 2xx until ACK
//!
//! World (`run`, also driven by two sub-checks of C08): one INVITE handed to Dialog::new_server + Acceptor, a scripted
//! application (180 / reliable 183 / reliable 180 / reliable 183 abandoned after N ms / accept / reject / drop, in
//! order; after an accept it drives the session: BYE -> 200, re-INVITE -> 488) and a scripted peer (CANCEL, BYE,
//! PRACK for the first or for the n-th reliable provisional seen on the wire, ACK of the 2xx, ACK of the non-2xx
//! final response, copy of the INVITE, re-INVITE at absolute instants). Dimensions of the
//! world besides the two scripts: transport reliability, source port of later messages, how long the application
//! leaves the session undriven, a send latency (every `Transport::send` stays pending N ms after its bytes went
//! out, so the receive path runs while a responding call is suspended), a send-fault plan (the k-th send call
//! is refused with an io::Error; the refused bytes are kept so that the oracle knows whose answer it was), the
//! kind of client (`legacy_branch`: an RFC 2543 client whose Via branches lack the magic cookie, so that INVITE,
//! CANCEL and ACK are matched by the RFC 2543 rules) and the extension headers of the INVITE (`invite_ext`:
//! session-timer negotiation in every wire-legal shape of `INVITE_EXT`, including Min-SE / Session-Expires values
//! beyond 32 bit or with generic-params, with and without `Supported: timer`).
//! Oracle: the wire log grouped by (branch, CSeq method), the results of the acceptor calls, virtual timestamps, and
//! what the application sees of the session after an accept ("a CANCEL that no longer matches a pending INVITE
//! changes nothing": the session does not end before the peer's BYE, the first BYE reaches the application and
//! gets its 200). Several reliable provisionals of one INVITE are told apart by their RSeq value on the wire; each
//! one's call may complete only with a PRACK whose RAck names it, and is retransmitted until then.
//! Not asserted: when a reliable provisional is given up; what a PRACK gets whose response nobody waits for any
//! more (given up / abandoned); which of 200/481 an unmatched CANCEL gets; anything
//! about a request whose own final response the transport refused (it counts as answered with the refused code);
//! exact instants under send latency (copy k may leave up to (k+1)*latency after its nominal instant, never
//! before; nothing may leave after the ACK / PRACK).

use crate::engine::*;
use crate::refmodel::ref_tsx::{self, T1, T2, TIMEOUT};
use crate::world::*;
use parking_lot::Mutex;
use proptest::prelude::*;
use serde::{Deserialize, Serialize};
use sip_core::{Endpoint, IncomingRequest, Layer, LayerKey, MayTake};
use sip_types::header::typed::Contact;
use sip_types::uri::sip::SipUri;
use sip_types::uri::NameAddr;
use sip_types::{Code, Method};
use sip_ua::dialog::{Dialog, DialogLayer};
use sip_ua::invite::acceptor::Acceptor;
use sip_ua::invite::session::Event;
use sip_ua::invite::InviteLayer;
use sip_core::transport::{Direction, TpHandle, Transport};
use std::collections::BTreeSet;
use std::net::SocketAddr;
use std::sync::Arc;
use std::time::Duration;
use tokio::sync::mpsc;

const BRANCH: &str = "z9hG4bKc12invite";
const INVITE_CSEQ: u32 = 314;

#[derive(Serialize, Deserialize, Clone, Copy, Debug, Hash, PartialEq, Eq)]
pub enum AppOp {
    Prov180,
    Rel183,
    Accept,
    Reject(u16),
    Drop,
    /// reliable 183 whose future the application abandons (drops) after this many ms without a PRACK
    Rel183Abandon(u64),
    /// reliable 180 (a further reliable provisional response of the same INVITE, with its own RSeq)
    Rel180,
}

#[derive(Serialize, Deserialize, Clone, Copy, Debug, Hash, PartialEq, Eq)]
pub enum NetOp {
    /// CANCEL; flags: branch matches the INVITE, CSeq number matches the INVITE
    Cancel { branch_ok: bool, cseq_ok: bool },
    /// BYE inside the (early) dialog
    Bye,
    /// byte-identical copy of the INVITE
    DupInvite,
    /// PRACK for the reliable provisional; flags: RAck rseq matches, RAck cseq matches
    Prack { rack_ok: bool, cseq_ok: bool },
    /// ACK for the 2xx; flag: CSeq number matches the INVITE
    Ack { cseq_ok: bool },
    /// re-INVITE inside the dialog (next CSeq); the application answers it 488 when it gets to it
    ReInvite,
    /// ACK for the non-2xx final response of the INVITE as RFC 3261 17.1.1.3 builds it: the INVITE's top Via
    /// (branch), Request-URI, From, Call-ID and CSeq number, the To of the response (skipped while no such final
    /// response is on the wire)
    AckFinal,
    /// PRACK whose RAck names the `nth` (0-based, in order of first appearance on the wire) reliable provisional
    /// response of this INVITE (skipped while the peer has not seen that response)
    PrackOf { nth: u8 },
}

#[derive(Serialize, Deserialize, Clone, Debug, Hash, Default)]
pub struct Case {
    /// application ops on the acceptor, executed in this order, each not before its time
    pub app: Vec<(u64, AppOp)>,
    /// network events at absolute times (same instant: list order)
    pub net: Vec<(u64, NetOp)>,
    /// network events are injected before (true) or after (false) the application ops that share their instant
    pub net_first: bool,
    pub rng: u8,
    /// the transport reports itself reliable (a 2xx and a reliable 1xx are retransmitted end-to-end all the same:
    /// RFC 3261 13.3.1.4, RFC 3262 3)
    #[serde(default)]
    pub reliable: bool,
    /// everything after the INVITE arrives from another source port of the peer (a CANCEL, ACK, BYE or copy of the
    /// INVITE belongs to its transaction / dialog by its header fields, not by the packet's source)
    #[serde(default)]
    pub alt_source: bool,
    /// the application starts driving the established session only this long after `respond_success` returned
    #[serde(default)]
    pub session_busy_ms: u64,
    /// every `Transport::send` stays pending this long (virtual ms) after its bytes went out, like a socket under
    /// back-pressure: other tasks (the receive path) run while the sending call is suspended
    #[serde(default)]
    pub send_delay_ms: u64,
    /// ordinals (0-based, counted over every `Transport::send` call of the case) of sends the transport refuses
    /// with an io::Error without suspending (e.g. a pending ICMP error reported on the next UDP send); nothing
    /// reaches the wire for such a call
    #[serde(default)]
    pub fail_sends: Vec<u8>,
    /// the INVITE and the peer's in-dialog requests (BYE, PRACK, re-INVITE, ACK of the 2xx) carry this many (0..2)
    /// further Via values below the top one (they came through proxies); CANCEL and the ACK of a non-2xx are
    /// hop-by-hop and carry one Via
    #[serde(default)]
    pub via_hops: u8,
    /// the peer is an RFC 2543 client: the branch parameters of its Via values lack the magic cookie `z9hG4bK`
    /// (RFC 3261 17.2.3: the server then matches on Request-URI / To / From / Call-ID / CSeq / top Via instead);
    /// the CANCEL and the ACK of a non-2xx carry the INVITE's top Via all the same
    #[serde(default)]
    pub legacy_branch: bool,
    /// extension headers of the INVITE: index into `INVITE_EXT` (0 = none): session-timer negotiation (RFC 4028)
    /// in its wire-legal shapes, including values a typed decoder does not take
    #[serde(default)]
    pub invite_ext: u8,
}

/// Header sets an INVITE may carry besides `Supported: 100rel` (all legal by the RFC 4028 grammar: `Min-SE` and
/// `Session-Expires` are delta-seconds = 1*DIGIT followed by generic-params; nothing bounds the digits to 32 bit)
pub const INVITE_EXT: &[&[&str]] = &[
    &[],
    &["Supported: timer"],
    &["Supported: timer", "Session-Expires: 1800", "Min-SE: 90"],
    &["Supported: timer", "Min-SE: 4294967296"],
    &["Supported: timer", "Min-SE: 90;purpose=test"],
    &["Min-SE: 4294967296", "Session-Expires: 1800"],
    &["Supported: timer", "Session-Expires: 3600;refresher=uas", "Min-SE: 120"],
    &["Supported: timer", "Session-Expires: 99999999999;refresher=uac"],
    &["Supported: timer, replaces", "Session-Expires: 1800;refresher=uac;x=1", "Min-SE: 00000000000000090"],
];

/// does header set `ext` offer the timer extension together with a `Min-SE` / `Session-Expires` value outside
/// 32 bit or with a generic-param (class label only)
fn ext_is_unusual(ext: u8) -> bool {
    matches!(ext as usize % INVITE_EXT.len(), 3 | 4 | 7 | 8)
}

/// top-Via branch of the INVITE of a case
pub fn inv_branch(case: &Case) -> String {
    br(case, "invite")
}

/// branch parameter the peer of `case` uses for the request named `name`
pub fn br(case: &Case, name: &str) -> String {
    if case.legacy_branch {
        format!("c12{name}")
    } else {
        format!("z9hG4bKc12{name}")
    }
}

// ---------------------------------------------------------------------------------------------
// world

struct AcceptLayer {
    dialog_layer: LayerKey<DialogLayer>,
    invite_layer: LayerKey<InviteLayer>,
    tx: mpsc::UnboundedSender<(Acceptor, String)>,
    rec: Recorder,
}

#[async_trait::async_trait]
impl Layer for AcceptLayer {
    fn name(&self) -> &'static str {
        "accept"
    }
    async fn receive(&self, endpoint: &Endpoint, request: MayTake<'_, IncomingRequest>) {
        self.rec.note(0, &request);
        if request.line.method != Method::INVITE {
            return;
        }
        let invite = request.take();
        let contact: SipUri = "sip:uas@10.0.0.1".parse().unwrap();
        let contact = Contact::new(NameAddr::uri(contact));
        let Ok(dialog) = Dialog::new_server(endpoint.clone(), self.dialog_layer, &invite, contact) else { return };
        let tag = dialog.local_fromto.tag.as_ref().map(|t| t.to_string()).unwrap_or_default();
        if let Ok(acceptor) = Acceptor::new(dialog, self.invite_layer, invite) {
            let _ = self.tx.send((acceptor, tag));
        }
    }
}

/// The datagram transport of this world: writes to the `WireLog` like `world::MockDatagram`, and additionally
/// (a) keeps every send pending for `delay_ms` after the bytes went out, (b) refuses the sends whose ordinal is in
/// the plan with an io::Error *and keeps the refused bytes*, so that the oracle knows which request's response the
/// transport would not take.
pub struct PlanDatagram {
    pub reliable: bool,
    pub bound: SocketAddr,
    pub log: WireLog,
    pub delay_ms: u64,
    pub plan: Arc<Mutex<SendPlan>>,
}

#[derive(Default)]
pub struct SendPlan {
    pub calls: usize,
    pub fail: BTreeSet<usize>,
    pub refused: Vec<Sent>,
}

impl std::fmt::Debug for PlanDatagram {
    fn fmt(&self, f: &mut std::fmt::Formatter<'_>) -> std::fmt::Result {
        write!(f, "PlanDatagram({})", self.bound)
    }
}
impl std::fmt::Display for PlanDatagram {
    fn fmt(&self, f: &mut std::fmt::Formatter<'_>) -> std::fmt::Result {
        write!(f, "mock:UDP:{}", self.bound)
    }
}

#[async_trait::async_trait]
impl Transport for PlanDatagram {
    fn name(&self) -> &'static str {
        "UDP"
    }
    fn secure(&self) -> bool {
        false
    }
    fn reliable(&self) -> bool {
        self.reliable
    }
    fn bound(&self) -> SocketAddr {
        self.bound
    }
    fn sent_by(&self) -> SocketAddr {
        self.bound
    }
    fn direction(&self) -> Direction {
        Direction::None
    }
    async fn send(&self, message: &[u8], target: SocketAddr) -> std::io::Result<()> {
        let sent = Sent { t_ms: self.log.clock.now_ms(), tp: 7, dest: target, bytes: bytes::Bytes::copy_from_slice(message) };
        {
            let mut plan = self.plan.lock();
            let n = plan.calls;
            plan.calls += 1;
            if plan.fail.contains(&n) {
                plan.refused.push(sent);
                return Err(std::io::Error::new(std::io::ErrorKind::ConnectionRefused, "mock transient send failure"));
            }
        }
        self.log.sent.lock().push(sent);
        if self.delay_ms > 0 {
            tokio::time::sleep(Duration::from_millis(self.delay_ms)).await;
        }
        Ok(())
    }
}

#[derive(Clone, Debug)]
pub struct AppResult {
    pub op: AppOp,
    pub started: u64,
    pub ended: u64,
    /// "ok", "terminated", "timeout", or other error text
    pub outcome: String,
}

pub struct Observed {
    pub wire: Vec<(Sent, Option<WireMsg>)>,
    pub app: Vec<AppResult>,
    pub seen: Vec<Seen>,
    pub session_events: Vec<(u64, String)>,
    pub rseq: Option<u32>,
    /// RSeq values of the reliable provisional responses in order of first appearance on the wire
    pub rseqs: Vec<u32>,
    /// network events that were not generated (an ACK / PRACK for a response the peer had not seen), by index
    pub skipped_net: Vec<usize>,
    pub cancellables_end: usize,
    pub dialogs_end: usize,
    /// messages the transport refused (send-fault plan), in call order
    pub refused: Vec<(Sent, Option<WireMsg>)>,
}

/// Via list of a request with top branch `branch` that came through `hops` proxies
fn via_list(branch: &str, hops: u8) -> Vec<String> {
    let mut v = vec![format!("SIP/2.0/UDP 192.0.2.9:5060;branch={branch}")];
    for h in 0..hops.min(2) {
        v.push(format!("SIP/2.0/UDP 198.51.100.{}:5062;branch={branch}hop{h}", 7 + h));
    }
    v
}

fn invite_bytes(case: &Case) -> Vec<u8> {
    let mut extra: Vec<String> = vec!["Contact: <sip:peer@192.0.2.9>".into(), "Supported: 100rel".into()];
    extra.extend(INVITE_EXT[case.invite_ext as usize % INVITE_EXT.len()].iter().map(|h| h.to_string()));
    request_text(
        "INVITE",
        "sip:uas@10.0.0.1",
        &via_list(&inv_branch(case), case.via_hops),
        "<sip:peer@192.0.2.9>;tag=peertag",
        "<sip:uas@10.0.0.1>",
        "c12-call",
        INVITE_CSEQ,
        "INVITE",
        &extra,
        b"",
    )
}

fn in_dialog(hops: u8, method: &str, branch: &str, cseq: u32, local_tag: &str, extra: &[String]) -> Vec<u8> {
    request_text(
        method,
        "sip:uas@10.0.0.1",
        &via_list(branch, hops),
        "<sip:peer@192.0.2.9>;tag=peertag",
        &format!("<sip:uas@10.0.0.1>;tag={local_tag}"),
        "c12-call",
        cseq,
        method,
        extra,
        b"",
    )
}

fn classify_err(e: &str) -> String {
    if e.contains("cancelled") || e.contains("terminated") {
        "terminated".into()
    } else if e.contains("timed out") {
        "timeout".into()
    } else {
        e.to_string()
    }
}

pub fn run(case: &Case, horizon: u64) -> Observed {
    let case = case.clone();
    run_world(case.rng as u64, |clock| async move {
        let log = WireLog::new(clock);
        let plan: Arc<Mutex<SendPlan>> = Default::default();
        plan.lock().fail = case.fail_sends.iter().map(|n| *n as usize).collect();
        let tp = TpHandle::new(PlanDatagram {
            reliable: case.reliable,
            bound: "10.0.0.1:5060".parse().unwrap(),
            log: log.clone(),
            delay_ms: case.send_delay_ms,
            plan: plan.clone(),
        });
        let refused_of = move || -> Vec<(Sent, Option<WireMsg>)> {
            plan.lock().refused.iter().map(|s| (s.clone(), WireMsg::parse(&s.bytes))).collect()
        };
        let rec = Recorder::new(clock);
        let (tx, mut rx) = mpsc::unbounded_channel();
        let mut b = offline_builder();
        let dl = b.add_layer(DialogLayer::default());
        let il = b.add_layer(InviteLayer::default());
        b.add_layer(AcceptLayer { dialog_layer: dl, invite_layer: il, tx, rec: rec.clone() });
        let endpoint = b.build();
        let peer: SocketAddr = "192.0.2.9:5060".parse().unwrap();
        let later_source: SocketAddr = if case.alt_source { "192.0.2.9:5099".parse().unwrap() } else { peer };
        let inv = invite_bytes(&case);
        let ib = inv_branch(&case);
        inject(&endpoint, &tp, peer, &inv);
        settle().await;
        let app_results: Arc<Mutex<Vec<AppResult>>> = Default::default();
        let session_events: Arc<Mutex<Vec<(u64, String)>>> = Default::default();
        let Ok((acceptor, local_tag)) = rx.try_recv() else {
            return Observed { wire: log.parsed(), app: vec![], seen: rec.snapshot(), session_events: vec![], rseq: None, rseqs: vec![], skipped_net: vec![], cancellables_end: 0, dialogs_end: 0, refused: refused_of() };
        };

        // application task: ops in order
        {
            let app_results = app_results.clone();
            let session_events = session_events.clone();
            let ops = case.app.clone();
            let endpoint = endpoint.clone();
            let case = case.clone();
            tokio::spawn(async move {
                let mut acceptor = Some(acceptor);
                for (t, op) in ops {
                    clock.until(t).await;
                    let started = clock.now_ms();
                    let Some(acc) = acceptor.as_mut() else {
                        app_results.lock().push(AppResult { op, started, ended: started, outcome: "no-acceptor".into() });
                        continue;
                    };
                    let outcome: String = match op {
                        AppOp::Drop => {
                            acceptor = None;
                            "ok".into()
                        }
                        AppOp::Prov180 => match acc.create_response(Code::from(180), None).await {
                            Err(e) => classify_err(&e.to_string()),
                            Ok(r) => match acc.respond_provisional(r).await {
                                Ok(()) => "ok".into(),
                                Err(e) => classify_err(&e.to_string()),
                            },
                        },
                        AppOp::Rel183 | AppOp::Rel180 => match acc.create_response(Code::from(if op == AppOp::Rel180 { 180 } else { 183 }), None).await {
                            Err(e) => classify_err(&e.to_string()),
                            Ok(r) => match acc.respond_provisional_reliable(r).await {
                                Ok(_prack) => "ok".into(),
                                Err(e) => classify_err(&e.to_string()),
                            },
                        },
                        AppOp::Rel183Abandon(ms) => match acc.create_response(Code::from(183), None).await {
                            Err(e) => classify_err(&e.to_string()),
                            Ok(r) => match tokio::time::timeout(Duration::from_millis(ms), acc.respond_provisional_reliable(r)).await {
                                Err(_) => "abandoned".into(),
                                Ok(Ok(_prack)) => "ok".into(),
                                Ok(Err(e)) => classify_err(&e.to_string()),
                            },
                        },
                        AppOp::Reject(code) => match acc.create_response(Code::from(code), None).await {
                            Err(e) => classify_err(&e.to_string()),
                            Ok(r) => {
                                let acc = acceptor.take().unwrap();
                                match acc.respond_failure(r).await {
                                    Ok(()) => "ok".into(),
                                    Err(e) => classify_err(&e.to_string()),
                                }
                            }
                        },
                        AppOp::Accept => match acc.create_response(Code::from(200), None).await {
                            Err(e) => classify_err(&e.to_string()),
                            Ok(r) => {
                                let acc = acceptor.take().unwrap();
                                match acc.respond_success(r).await {
                                    Ok((mut session, _ack)) => {
                                        let session_events = session_events.clone();
                                        let endpoint = endpoint.clone();
                                        let busy = case.session_busy_ms;
                                        tokio::spawn(async move {
                                            if busy > 0 {
                                                clock.advance(busy).await;
                                            }
                                            loop {
                                                match session.drive().await {
                                                    Ok(Event::Bye(ev)) => {
                                                        session_events.lock().push((clock.now_ms(), "bye".into()));
                                                        let _ = ev.process_default().await;
                                                    }
                                                    Ok(Event::ReInviteReceived(ev)) => {
                                                        session_events.lock().push((clock.now_ms(), "reinvite".into()));
                                                        // declined; the 488 is retransmitted by its transaction while
                                                        // the application goes on driving the session
                                                        let sip_ua::invite::session::ReInviteReceived { invite, transaction, .. } = ev;
                                                        let response = endpoint.create_response(&invite, Code::from(488), None);
                                                        tokio::spawn(async move {
                                                            let _ = transaction.respond_failure(response).await;
                                                            drop(invite);
                                                        });
                                                    }
                                                    Ok(Event::RefreshNeeded(_)) => {}
                                                    Ok(Event::Terminated) => {
                                                        session_events.lock().push((clock.now_ms(), "terminated".into()));
                                                        break;
                                                    }
                                                    Err(_) => break,
                                                }
                                            }
                                        });
                                        "ok".into()
                                    }
                                    Err(e) => classify_err(&e.to_string()),
                                }
                            }
                        },
                    };
                    app_results.lock().push(AppResult { op, started, ended: clock.now_ms(), outcome });
                }
                // an acceptor the script never finished with stays with the application
                if let Some(a) = acceptor {
                    std::future::pending::<()>().await;
                    drop(a);
                }
            });
        }
        if !case.net_first {
            settle().await;
        }

        let mut rseq: Option<u32> = None;
        let mut skipped_net: Vec<usize> = vec![];
        // RSeq values of the reliable provisional responses the peer has seen so far, in order of first appearance
        let rseqs_of = |log: &WireLog| -> Vec<u32> {
            let mut out: Vec<u32> = vec![];
            for (_, m) in log.parsed() {
                if let Some(m) = m {
                    if matches!(m.status(), Some(101..=199)) {
                        if let Some(r) = m.header("rseq").and_then(|v| v.trim().parse().ok()) {
                            if !out.contains(&r) {
                                out.push(r);
                            }
                        }
                    }
                }
            }
            out
        };
        let mut n = 0;
        let mut next_cseq = INVITE_CSEQ; // the peer numbers its in-dialog requests consecutively
        for (t, op) in case.net.iter() {
            clock.until(*t).await;
            if !case.net_first {
                settle().await;
            }
            n += 1;
            // the peer learns RSeq from the 183 on the wire
            if rseq.is_none() {
                for (_, m) in log.parsed() {
                    if let Some(m) = m {
                        if m.status() == Some(183) {
                            rseq = m.header("rseq").and_then(|v| v.trim().parse().ok());
                        }
                    }
                }
            }
            let bytes = match op {
                NetOp::DupInvite => inv.clone(),
                NetOp::Cancel { branch_ok, cseq_ok } => request_text(
                    "CANCEL",
                    "sip:uas@10.0.0.1",
                    &[format!("SIP/2.0/UDP 192.0.2.9:5060;branch={}", if *branch_ok { ib.clone() } else { format!("{ib}x") })],
                    "<sip:peer@192.0.2.9>;tag=peertag",
                    "<sip:uas@10.0.0.1>",
                    "c12-call",
                    if *cseq_ok { INVITE_CSEQ } else { INVITE_CSEQ + 1 },
                    "CANCEL",
                    &[format!("X-Seq: n{n}")],
                    b"",
                ),
                NetOp::Bye => {
                    next_cseq += 1;
                    in_dialog(case.via_hops, "BYE", &br(&case, &format!("bye{n}")), next_cseq, &local_tag, &[format!("X-Seq: n{n}")])
                }
                NetOp::ReInvite => {
                    next_cseq += 1;
                    in_dialog(case.via_hops, "INVITE", &br(&case, &format!("reinv{n}")), next_cseq, &local_tag, &[format!("X-Seq: n{n}"), "Contact: <sip:peer@192.0.2.9>".into()])
                }
                NetOp::Prack { rack_ok, cseq_ok } => {
                    let r = rseq.unwrap_or(1);
                    next_cseq += 1;
                    in_dialog(
                        case.via_hops,
                        "PRACK",
                        &br(&case, &format!("prack{n}")),
                        next_cseq,
                        &local_tag,
                        &[
                            format!("RAck: {} {} INVITE", if *rack_ok { r } else { r.wrapping_add(1) }, if *cseq_ok { INVITE_CSEQ } else { INVITE_CSEQ + 7 }),
                            format!("X-Seq: n{n}"),
                        ],
                    )
                }
                NetOp::Ack { cseq_ok } => in_dialog(
                    case.via_hops,
                    "ACK",
                    &br(&case, &format!("ack{n}")),
                    if *cseq_ok { INVITE_CSEQ } else { INVITE_CSEQ - 1 },
                    &local_tag,
                    &[format!("X-Seq: n{n}")],
                ),
                NetOp::AckFinal => {
                    let to = log
                        .parsed()
                        .into_iter()
                        .filter_map(|(_, m)| m)
                        .find(|m| !m.is_request() && m.status().unwrap_or(0) >= 300 && m.via_branch().as_deref() == Some(ib.as_str()) && m.cseq().map_or(false, |c| c.1 == "INVITE"))
                        .and_then(|m| m.header("to").map(str::to_string));
                    let Some(to) = to else {
                        skipped_net.push(n - 1);
                        continue;
                    };
                    request_text(
                        "ACK",
                        "sip:uas@10.0.0.1",
                        &[format!("SIP/2.0/UDP 192.0.2.9:5060;branch={ib}")],
                        "<sip:peer@192.0.2.9>;tag=peertag",
                        &to,
                        "c12-call",
                        INVITE_CSEQ,
                        "ACK",
                        &[format!("X-Seq: n{n}")],
                        b"",
                    )
                }
                NetOp::PrackOf { nth } => {
                    let Some(r) = rseqs_of(&log).get(*nth as usize).copied() else {
                        skipped_net.push(n - 1);
                        continue;
                    };
                    next_cseq += 1;
                    in_dialog(case.via_hops, "PRACK", &br(&case, &format!("prack{n}")), next_cseq, &local_tag, &[format!("RAck: {r} {INVITE_CSEQ} INVITE"), format!("X-Seq: n{n}")])
                }
            };
            inject(&endpoint, &tp, later_source, &bytes);
            settle().await;
        }
        clock.until(horizon).await;
        settle().await;
        let out = Observed {
            wire: log.parsed(),
            app: app_results.lock().clone(),
            seen: rec.snapshot(),
            session_events: session_events.lock().clone(),
            rseq,
            rseqs: rseqs_of(&log),
            skipped_net,
            cancellables_end: endpoint[il].verif_counts(),
            dialogs_end: endpoint[dl].verif_counts().0,
            refused: refused_of(),
        };
        out
    })
}

fn responses_for<'a>(obs: &'a Observed, branch: &str, cseq: u32, method: &str) -> Vec<(&'a Sent, &'a WireMsg)> {
    // cseq == 0: any number (the peer's in-dialog requests are numbered consecutively at run time)
    obs.wire
        .iter()
        .filter_map(|(s, m)| m.as_ref().map(|m| (s, m)))
        .filter(|(_, m)| {
            !m.is_request()
                && m.via_branch().as_deref() == Some(branch)
                && m.cseq().map_or(false, |(n, mm)| mm == method && (cseq == 0 || n == cseq))
        })
        .collect()
}

fn describe(obs: &Observed) -> String {
    format!(
        "wire={:?} app={:?}",
        obs.wire
            .iter()
            .map(|(s, m)| format!("{}:{}{}", s.t_ms, m.as_ref().map(|m| m.start.clone()).unwrap_or_default(), m.as_ref().and_then(|m| m.cseq()).map(|c| format!("[{} {}]", c.0, c.1)).unwrap_or_default()))
            .collect::<Vec<_>>(),
        obs.app.iter().map(|a| format!("{:?}@{}..{}={}", a.op, a.started, a.ended, a.outcome)).collect::<Vec<_>>()
    )
}

// ---------------------------------------------------------------------------------------------
// (a) accepted INVITE: 2xx retransmitted until the ACK

/// 2xx retransmission instants relative to the first transmission: T1 doubling capped at T2
fn accept_schedule() -> Vec<u64> {
    ref_tsx::server_inv_timer_g_schedule()
}

#[derive(Serialize, Deserialize, Clone, Debug, Hash)]
pub struct AcceptCase {
    pub accept_at: u64,
    /// (time after accept, cseq matches)
    pub acks: Vec<(u64, bool)>,
    pub prov_first: bool,
    pub rng: u8,
    #[serde(default)]
    pub reliable: bool,
    #[serde(default)]
    pub alt_source: bool,
    /// every send of the transport stays pending this long (see `Case::send_delay_ms`)
    #[serde(default)]
    pub send_delay_ms: u64,
}

fn ack_grid() -> Vec<u64> {
    let mut g = vec![1, 250];
    for s in accept_schedule() {
        g.push(s - 1);
        g.push(s + 1);
    }
    g.extend([TIMEOUT - 1, TIMEOUT + 1, TIMEOUT + T2 + 1]);
    g
}

pub fn accept_cases(tier: Tier) -> Vec<AcceptCase> {
    let mut out = vec![];
    for (reliable, alt_source) in [(false, false), (true, false), (false, true), (true, true)] {
        for mut c in accept_cases_base(tier) {
            if (reliable || alt_source) && tier == Tier::Quick && c.acks.len() > 1 {
                continue;
            }
            c.reliable = reliable;
            c.alt_source = alt_source;
            out.push(c);
        }
    }
    // a transport whose send stays pending for d ms (back-pressure): the ACK may be processed while the call that
    // sent the 2xx (or one of its copies) is still suspended inside `Transport::send`. ACK instants: inside the
    // first send, just after it, inside the send of the first / second copy, in the middle of the intervals, never
    for d in [2u64, 20] {
        for (reliable, alt_source) in [(false, false), (true, false), (false, true)] {
            if (reliable || alt_source) && (tier == Tier::Quick && d != 2) {
                continue;
            }
            let mut acks: Vec<Option<u64>> = vec![None, Some(1), Some(d - 1), Some(d + 1), Some(250), Some(T1 + d + 1), Some(1000), Some(3 * T1 + 2 * d + 1), Some(2500), Some(5500)];
            if tier == Tier::Thorough {
                acks.extend([Some(9500), Some(13_500), Some(29_500), Some(TIMEOUT - 200), Some(TIMEOUT + 600)]);
            }
            acks.dedup();
            for (i, a) in acks.into_iter().enumerate() {
                for accept_at in [0u64, 30] {
                    let mk = |acks: Vec<(u64, bool)>| AcceptCase { accept_at, acks, prov_first: accept_at > 0 && i % 2 == 1, rng: (i as u8).wrapping_mul(3).wrapping_add(d as u8), reliable, alt_source, send_delay_ms: d };
                    match a {
                        None => out.push(mk(vec![])),
                        Some(a) => {
                            out.push(mk(vec![(a, true)]));
                            // an ACK with another CSeq at that instant, the right one later / never
                            out.push(mk(vec![(a, false), (a + 700, true)]));
                            if tier == Tier::Thorough {
                                out.push(mk(vec![(a, false)]));
                            }
                        }
                    }
                }
            }
        }
    }
    out
}

/// Transmission instants of a message whose copies are due `sched` ms after the first one, sent by a caller whose
/// every send stays pending `d` ms: the timers are (re)armed by a caller that got control back late, so copy k may
/// leave up to (k+1)*d after its nominal instant, never before it. `stop` = instant after which nothing more may be
/// sent (the acknowledgement, or the give-up instant). Returns (locus, text) of the first deviation.
fn check_drifting(times: &[u64], t0: u64, sched: &[u64], d: u64, stop: u64) -> Option<(&'static str, String)> {
    if times.first() != Some(&t0) {
        return Some(("first-transmission", format!("first transmission {:?}, expected {t0}", times.first())));
    }
    if let Some(t) = times.iter().find(|t| **t > stop) {
        return Some(("continues-after-ack-or-64T1", format!("transmission at {t} after {stop}: {times:?}")));
    }
    let mut sure = 1usize; // copies that must have left before `stop`
    let mut maybe = 1usize; // copies that may have left before `stop`
    for (k, s) in sched.iter().enumerate() {
        let k = k as u64 + 1;
        let (lo, hi) = (t0 + s, t0 + s + (k + 1) * d);
        if hi < stop {
            sure += 1;
        }
        if lo <= stop {
            maybe += 1;
        }
        if let Some(t) = times.get(k as usize) {
            if *t < lo || *t > hi {
                return Some(("interval", format!("copy {k} sent at {t}, expected within [{lo},{hi}]: {times:?}")));
            }
        }
    }
    if times.len() < sure || times.len() > maybe {
        return Some(("interval", format!("{} transmissions {times:?}, expected {sure}..={maybe} before {stop}", times.len())));
    }
    None
}

/// accept_retransmit over a transport whose sends stay pending
fn check_accept_slow(c: &AcceptCase, obs: &Observed, out: &mut CaseOut) {
    let d = c.send_delay_ms;
    let finals: Vec<u64> = responses_for(obs, BRANCH, INVITE_CSEQ, "INVITE").iter().filter(|(_, m)| m.status() == Some(200)).map(|(s, _)| s.t_ms).collect();
    let sched = accept_schedule();
    // (no ACK is generated inside the give-up window here)
    let good_ack = c.acks.iter().filter(|(_, ok)| *ok).map(|(t, _)| c.accept_at + *t).find(|t| *t < c.accept_at + TIMEOUT);
    let late_ack = c.acks.iter().any(|(t, ok)| *ok && *t >= TIMEOUT);
    let stop = good_ack.unwrap_or(c.accept_at + TIMEOUT);
    if let Some((locus, text)) = check_drifting(&finals, c.accept_at, &sched, d, stop) {
        out.fail(format!("c12.2xx-retransmit/{locus}"), format!("send latency {d} ms, accept at {}, matching ACK at {good_ack:?}: {text}", c.accept_at));
    }
    let res = obs.app.iter().find(|a| a.op == AppOp::Accept);
    let slack = (sched.len() as u64 + 2) * d;
    match (good_ack, res) {
        // the call returns when the ACK is there and the send it was suspended in (if any) has completed
        (Some(a), Some(r)) if r.outcome == "ok" && r.ended >= a.max(c.accept_at + d) && r.ended <= a.max(c.accept_at + d) + d => {}
        (Some(a), r) => out.fail("c12.accept/result-with-ack", format!("send latency {d} ms, ACK at {a}: respond_success gave {r:?}")),
        (None, Some(r)) if late_ack && r.outcome == "ok" => {}
        (None, Some(r)) if r.outcome == "timeout" && r.ended >= c.accept_at + TIMEOUT && r.ended <= c.accept_at + TIMEOUT + T2 + slack => {}
        (None, r) => out.fail(
            "c12.accept/abandoned-not-after-64T1",
            format!("send latency {d} ms, no matching ACK: expected RequestTimedOut within [{},{}], got {r:?}", c.accept_at + TIMEOUT, c.accept_at + TIMEOUT + T2 + slack),
        ),
    }
    out.class("send stays pending (back-pressure)");
    if let Some(a) = good_ack {
        let rel = a - c.accept_at;
        if rel < d {
            out.class("ACK while the first 2xx send is pending");
        } else if sched.iter().enumerate().any(|(k, s)| rel >= *s && rel <= *s + (k as u64 + 2) * d) {
            out.class("ACK while a 2xx copy is being sent");
        }
        out.class("acked");
    } else {
        out.class("ack-lost");
    }
    if c.acks.iter().any(|(_, ok)| !*ok) {
        out.class("ack-with-other-cseq");
    }
    out.nontrivial(c);
}

fn accept_cases_base(tier: Tier) -> Vec<AcceptCase> {
    let mut out = vec![AcceptCase { accept_at: 0, acks: vec![], prov_first: false, rng: 0, reliable: false, alt_source: false, send_delay_ms: 0 }, AcceptCase { accept_at: 30, acks: vec![], prov_first: true, rng: 1, reliable: false, alt_source: false, send_delay_ms: 0 }];
    for (i, a) in ack_grid().into_iter().enumerate() {
        for accept_at in [0u64, 30] {
            out.push(AcceptCase { accept_at, acks: vec![(a, true)], prov_first: i % 2 == 0, rng: i as u8, reliable: false, alt_source: false, send_delay_ms: 0 });
            // an ACK with another CSeq first: changes nothing
            out.push(AcceptCase { accept_at, acks: vec![(a, false)], prov_first: false, rng: i as u8, reliable: false, alt_source: false, send_delay_ms: 0 });
            if tier == Tier::Thorough || i % 3 == 0 {
                out.push(AcceptCase { accept_at, acks: vec![(a.saturating_sub(200).max(1), false), (a, true)], prov_first: false, rng: i as u8, reliable: false, alt_source: false, send_delay_ms: 0 });
            }
        }
    }
    out
}

pub fn check_accept(c: &AcceptCase, out: &mut CaseOut) {
    let mut app = vec![];
    if c.prov_first {
        app.push((0, AppOp::Prov180));
    }
    app.push((c.accept_at, AppOp::Accept));
    let mut net: Vec<(u64, NetOp)> = c.acks.iter().map(|(t, ok)| (c.accept_at + t, NetOp::Ack { cseq_ok: *ok })).collect();
    net.sort_by_key(|n| n.0);
    let case = Case { app, net, net_first: false, rng: c.rng, reliable: c.reliable, alt_source: c.alt_source, send_delay_ms: c.send_delay_ms, ..Default::default() };
    let horizon = c.accept_at + TIMEOUT + T2 + 3000;
    let obs = run(&case, horizon);
    out.note = Some(describe(&obs));
    if c.send_delay_ms > 0 {
        check_accept_slow(c, &obs, out);
        return;
    }

    let finals: Vec<u64> = responses_for(&obs, BRANCH, INVITE_CSEQ, "INVITE")
        .iter()
        .filter(|(_, m)| m.status() == Some(200))
        .map(|(s, _)| s.t_ms)
        .collect();
    let good_ack = c.acks.iter().filter(|(_, ok)| *ok).map(|(t, _)| c.accept_at + *t).find(|t| *t < c.accept_at + TIMEOUT);
    let end = good_ack.unwrap_or(c.accept_at + TIMEOUT);
    let mut want = vec![c.accept_at];
    for s in accept_schedule() {
        if c.accept_at + s < end {
            want.push(c.accept_at + s);
        }
    }
    if finals != want {
        let locus = if finals.first() != Some(&c.accept_at) {
            "first-transmission"
        } else if finals.iter().any(|t| *t >= end) {
            "continues-after-ack-or-64T1"
        } else {
            "interval"
        };
        out.fail(
            format!("c12.2xx-retransmit/{locus}"),
            format!("2xx transmissions at {finals:?}, expected {want:?} (accept at {}, matching ACK at {good_ack:?})", c.accept_at),
        );
    }
    let res = obs.app.iter().find(|a| a.op == AppOp::Accept);
    // a matching ACK inside [64*T1, 64*T1+T2]: the call may already have given up or may still take it
    let fuzzy_ack = c.acks.iter().filter(|(_, ok)| *ok).map(|(t, _)| c.accept_at + *t).find(|t| *t >= c.accept_at + TIMEOUT && *t <= c.accept_at + TIMEOUT + T2);
    if let (None, Some(f), Some(r)) = (good_ack, fuzzy_ack, res) {
        if r.outcome == "ok" && r.ended == f {
            out.class("ack-in-give-up-window");
            out.nontrivial(c);
            return;
        }
    }
    match (good_ack, res) {
        (Some(a), Some(r)) if r.outcome == "ok" && r.ended == a => {}
        (Some(a), r) => out.fail("c12.accept/result-with-ack", format!("ACK at {a}: respond_success gave {r:?}")),
        (None, Some(r)) if r.outcome == "timeout" && r.ended >= c.accept_at + TIMEOUT && r.ended <= c.accept_at + TIMEOUT + T2 => {}
        (None, r) => out.fail(
            "c12.accept/abandoned-not-after-64T1",
            format!("no matching ACK: expected RequestTimedOut within [{},{}], got {r:?}", c.accept_at + TIMEOUT, c.accept_at + TIMEOUT + T2),
        ),
    }
    out.class(if good_ack.is_some() { "acked" } else { "ack-lost" });
    if c.reliable {
        out.class("reliable transport");
    }
    if c.alt_source {
        out.class("ACK from another source port");
    }
    if c.acks.iter().any(|(_, ok)| !*ok) {
        out.class("ack-with-other-cseq");
    }
    out.nontrivial(c);
}

// ---------------------------------------------------------------------------------------------
// (b) reliable provisional response

#[derive(Serialize, Deserialize, Clone, Debug, Hash)]
pub struct RelCase {
    /// (time after the 183, rack matches, cseq matches)
    pub pracks: Vec<(u64, bool, bool)>,
    pub rng: u8,
    #[serde(default)]
    pub reliable: bool,
    #[serde(default)]
    pub alt_source: bool,
    #[serde(default)]
    pub send_delay_ms: u64,
}

pub fn rel_cases(tier: Tier) -> Vec<RelCase> {
    let mut out = vec![];
    for (reliable, alt_source) in [(false, false), (true, false), (false, true)] {
        for (i, mut c) in rel_cases_base(tier).into_iter().enumerate() {
            if (reliable || alt_source) && tier == Tier::Quick && i % 2 == 1 {
                continue;
            }
            c.reliable = reliable;
            c.alt_source = alt_source;
            out.push(c);
        }
    }
    // sends that stay pending for d ms: the PRACK may be processed while the call that sent the 183 (or a copy of
    // it) is still suspended inside `Transport::send`
    for d in [2u64, 20] {
        let mut at: Vec<u64> = vec![1, d - 1, d + 1, 250, T1 + d + 1, 1000, 3 * T1 + 2 * d + 1, 2500];
        if tier == Tier::Thorough {
            at.extend([5500, 11_500]);
        }
        at.dedup();
        out.push(RelCase { pracks: vec![], rng: d as u8, reliable: false, alt_source: false, send_delay_ms: d });
        for (i, t) in at.into_iter().enumerate() {
            let rng = (i as u8).wrapping_mul(5).wrapping_add(d as u8);
            out.push(RelCase { pracks: vec![(t, true, true)], rng, reliable: false, alt_source: false, send_delay_ms: d });
            out.push(RelCase { pracks: vec![(t, false, true), (t + 300, true, true)], rng, reliable: i % 2 == 1, alt_source: false, send_delay_ms: d });
            if tier == Tier::Thorough {
                out.push(RelCase { pracks: vec![(t, true, false)], rng, reliable: false, alt_source: i % 2 == 1, send_delay_ms: d });
            }
        }
    }
    out
}

/// reliable_provisional over a transport whose sends stay pending
fn check_rel_slow(c: &RelCase, net: &[(u64, NetOp)], obs: &Observed, out: &mut CaseOut) {
    let d = c.send_delay_ms;
    let sends: Vec<u64> = responses_for(obs, BRANCH, INVITE_CSEQ, "INVITE").iter().filter(|(_, m)| m.status() == Some(183)).map(|(s, _)| s.t_ms).collect();
    if sends.is_empty() {
        out.fail("c12.rel1xx/not-sent", format!("183 transmissions {sends:?}"));
        return;
    }
    let good = c.pracks.iter().filter(|(_, r, s)| *r && *s).map(|(t, _, _)| *t).min();
    // as without latency only the first 3.5 s (5 copies) of the schedule are demanded, the rest is optional
    let sched: Vec<u64> = ref_tsx::rel1xx_schedule().into_iter().skip(1).collect();
    let demanded: Vec<u64> = sched.iter().copied().filter(|t| *t <= 3500).collect();
    let stop = good.unwrap_or(u64::MAX);
    let upto = sends.len().min(demanded.len() + 1);
    if let Some((locus, text)) = check_drifting(&sends[..upto], 0, &demanded, d, stop.min(3500 + 5 * d + 1)) {
        let sig = match locus {
            "first-transmission" => "c12.rel1xx/not-sent",
            "continues-after-ack-or-64T1" if good.is_some() => "c12.rel1xx/continues-after-prack",
            _ => "c12.rel1xx/interval-not-doubling",
        };
        out.fail(sig, format!("send latency {d} ms, matching PRACK at {good:?}: {text}"));
    }
    // the optional tail: never before its nominal instant, never after the PRACK
    for (k, t) in sends.iter().enumerate().skip(demanded.len() + 1) {
        match sched.get(k - 1) {
            Some(s) if *t >= *s && *t <= *s + (k as u64 + 1) * d => {}
            other => out.fail("c12.rel1xx/interval-not-doubling", format!("send latency {d} ms: copy {k} at {t}, nominal {other:?}: {sends:?}")),
        }
    }
    if let Some(g) = good {
        if sends.iter().any(|t| *t > g) {
            out.fail("c12.rel1xx/continues-after-prack", format!("send latency {d} ms: 183 re-sent after the matching PRACK at {g}: {sends:?}"));
        }
    }
    for (i, (t, r, s)) in c.pracks.iter().enumerate() {
        let n = net.iter().position(|(nt, op)| nt == t && *op == NetOp::Prack { rack_ok: *r, cseq_ok: *s }).unwrap_or(i) as u32 + 1;
        let codes: Vec<u16> = responses_for(obs, &format!("z9hG4bKc12prack{n}"), 0, "PRACK").iter().filter_map(|(_, m)| m.status()).collect();
        if *r && *s && Some(*t) == good {
            // (every matching PRACK generated here arrives while the call still waits)
            if codes != vec![200] {
                out.fail("c12.prack/matching-not-answered-200", format!("send latency {d} ms: matching PRACK at {t} answered {codes:?}"));
            }
        } else if codes.contains(&200) {
            out.fail("c12.prack/mismatching-answered-200", format!("PRACK at {t} (rack_ok={r}, cseq_ok={s}) answered 200"));
        }
    }
    if let (Some(g), Some(r)) = (good, obs.app.iter().find(|a| a.op == AppOp::Rel183)) {
        let lo = g.max(d);
        if !(r.outcome == "ok" && r.ended >= lo && r.ended <= lo + d) {
            out.fail("c12.rel1xx/result", format!("send latency {d} ms, matching PRACK at {g}: respond_provisional_reliable gave {r:?}"));
        }
    }
    out.class("send stays pending (back-pressure)");
    if good.map_or(false, |g| g < d) {
        out.class("PRACK while the first 183 send is pending");
    }
    out.class(if good.is_some() { "prack-matching" } else { "prack-missing-or-wrong" });
    if c.pracks.iter().any(|(_, r, s)| !(*r && *s)) {
        out.class("prack-mismatch");
    }
    out.nontrivial(c);
}

fn rel_cases_base(tier: Tier) -> Vec<RelCase> {
    let mut grid = vec![1u64, 250];
    for s in ref_tsx::rel1xx_schedule().into_iter().skip(1) {
        grid.push(s - 1);
        grid.push(s + 1);
    }
    let mut out = vec![RelCase { pracks: vec![], rng: 0, reliable: false, alt_source: false, send_delay_ms: 0 }];
    for (i, t) in grid.iter().enumerate() {
        if *t > 16_000 && tier == Tier::Quick && i % 2 == 0 {
            continue;
        }
        out.push(RelCase { pracks: vec![(*t, true, true)], rng: i as u8, reliable: false, alt_source: false, send_delay_ms: 0 });
        out.push(RelCase { pracks: vec![(*t, false, true)], rng: i as u8, reliable: false, alt_source: false, send_delay_ms: 0 });
        out.push(RelCase { pracks: vec![(*t, true, false)], rng: i as u8, reliable: false, alt_source: false, send_delay_ms: 0 });
        out.push(RelCase { pracks: vec![(t.saturating_sub(100).max(1), false, true), (*t, true, true)], rng: i as u8, reliable: false, alt_source: false, send_delay_ms: 0 });
    }
    out
}

pub fn check_rel(c: &RelCase, out: &mut CaseOut) {
    let mut net: Vec<(u64, NetOp)> = c.pracks.iter().map(|(t, r, s)| (*t, NetOp::Prack { rack_ok: *r, cseq_ok: *s })).collect();
    net.sort_by_key(|n| n.0);
    let case = Case { app: vec![(0, AppOp::Rel183)], net: net.clone(), net_first: false, rng: c.rng, reliable: c.reliable, alt_source: c.alt_source, send_delay_ms: c.send_delay_ms, ..Default::default() };
    let obs = run(&case, TIMEOUT + 5000);
    out.note = Some(describe(&obs));
    if c.send_delay_ms > 0 {
        check_rel_slow(c, &net, &obs, out);
        return;
    }
    let sends: Vec<u64> = responses_for(&obs, BRANCH, INVITE_CSEQ, "INVITE").iter().filter(|(_, m)| m.status() == Some(183)).map(|(s, _)| s.t_ms).collect();
    if sends.is_empty() || sends[0] != 0 {
        out.fail("c12.rel1xx/not-sent", format!("183 transmissions {sends:?}"));
        return;
    }
    let all183: Vec<&WireMsg> = obs.wire.iter().filter_map(|(_, m)| m.as_ref()).filter(|m| m.status() == Some(183)).collect();
    if all183.iter().any(|m| m.header("rseq").is_none() || !m.list_values("require").iter().any(|r| r.eq_ignore_ascii_case("100rel"))) {
        out.fail("c12.rel1xx/missing-rseq-or-require", "reliable provisional without RSeq / Require: 100rel");
    }
    let good = c.pracks.iter().filter(|(_, r, s)| *r && *s).map(|(t, _, _)| *t).min();
    // gaps between successive copies double from T1 (RFC 3262) until the matching PRACK
    let sched = ref_tsx::rel1xx_schedule();
    let stop = good.unwrap_or(u64::MAX);
    let observed_before: Vec<u64> = sends.iter().copied().filter(|t| *t < stop).collect();
    let want_prefix: Vec<u64> = sched.iter().copied().filter(|t| *t < stop).collect();
    // total duration of the retransmission is not asserted: the observed instants must be a prefix of the schedule,
    // and complete up to the PRACK when one arrives within the first 7.5 s (5 copies)
    let is_prefix = observed_before.len() <= want_prefix.len() && observed_before == want_prefix[..observed_before.len()];
    let must_have = want_prefix.iter().filter(|t| **t <= 3500).count();
    if !is_prefix || observed_before.len() < must_have {
        out.fail(
            "c12.rel1xx/interval-not-doubling",
            format!("183 transmissions before the matching PRACK ({good:?}) at {observed_before:?}, RFC 3262 schedule {want_prefix:?}"),
        );
    }
    if let Some(g) = good {
        if sends.iter().any(|t| *t > g) {
            out.fail("c12.rel1xx/continues-after-prack", format!("183 re-sent after the matching PRACK at {g}: {sends:?}"));
        }
    }
    // only the matching PRACK is answered 200 (by the usage)
    for (i, (t, r, s)) in c.pracks.iter().enumerate() {
        let n = net.iter().position(|(nt, op)| nt == t && *op == NetOp::Prack { rack_ok: *r, cseq_ok: *s }).unwrap_or(i) as u32 + 1;
        let branch = format!("z9hG4bKc12prack{n}");
        let resp = responses_for(&obs, &branch, 0, "PRACK");
        let codes: Vec<u16> = resp.iter().filter_map(|(_, m)| m.status()).collect();
        let still_waiting = sends.last().map_or(false, |l| *t <= l + 16_000) && good.map_or(true, |g| *t <= g);
        if *r && *s && Some(*t) == good {
            if still_waiting && codes != vec![200] {
                out.fail("c12.prack/matching-not-answered-200", format!("matching PRACK at {t} answered {codes:?}"));
            }
        } else if codes.contains(&200) {
            out.fail("c12.prack/mismatching-answered-200", format!("PRACK at {t} (rack_ok={r}, cseq_ok={s}) answered 200"));
        }
    }
    let res = obs.app.iter().find(|a| a.op == AppOp::Rel183);
    if let (Some(g), Some(r)) = (good, res) {
        let copies_when = sends.iter().filter(|t| **t < g).count();
        // (when the call gives up is not asserted: only a PRACK that arrives before the last copy must complete it)
        if copies_when >= 1 && sends.last().map_or(false, |l| g < *l) && !(r.outcome == "ok" && r.ended == g) {
            out.fail("c12.rel1xx/result", format!("matching PRACK at {g}: respond_provisional_reliable gave {r:?}"));
        }
    }
    out.class(if good.is_some() { "prack-matching" } else { "prack-missing-or-wrong" });
    if c.pracks.iter().any(|(_, r, s)| !(*r && *s)) {
        out.class("prack-mismatch");
    }
    out.nontrivial(c);
}

// ---------------------------------------------------------------------------------------------
// (c) races

const RACE_TIMES: &[u64] = &[5, 5, 5, 6, 7, 505, 506, 1505, 4000];

pub fn race_strategy() -> BoxedStrategy<Case> {
    let app_op = prop_oneof![
        3 => Just(AppOp::Prov180),
        4 => Just(AppOp::Accept),
        3 => prop_oneof![Just(486u16), Just(603u16), Just(404u16)].prop_map(AppOp::Reject),
        1 => Just(AppOp::Drop),
    ];
    let net_op = prop_oneof![
        5 => Just(NetOp::Cancel { branch_ok: true, cseq_ok: true }),
        1 => Just(NetOp::Cancel { branch_ok: false, cseq_ok: true }),
        1 => Just(NetOp::Cancel { branch_ok: true, cseq_ok: false }),
        3 => Just(NetOp::Bye),
        2 => Just(NetOp::DupInvite),
        3 => Just(NetOp::Ack { cseq_ok: true }),
        1 => Just(NetOp::Ack { cseq_ok: false }),
    ];
    (
        prop::collection::vec((any::<u16>(), app_op), 1..4),
        prop::collection::vec((any::<u16>(), net_op), 1..5),
        any::<bool>(),
        any::<u8>(),
        prop_oneof![3 => Just(false), 1 => Just(true)],
        prop_oneof![2 => Just(false), 1 => Just(true)],
        // sends stay pending 2 ms (an event 1 ms later is processed while the sending call is suspended)
        prop_oneof![3 => Just(0u64), 1 => Just(2u64)],
        // the transport refuses one send (any of the first six of the case)
        prop_oneof![3 => Just(None), 1 => (0u8..6).prop_map(Some)],
        (
            // the peer is an RFC 2543 client (no magic cookie in its Via branches)
            prop_oneof![3 => Just(false), 1 => Just(true)],
            // the INVITE carries session-timer headers
            prop_oneof![2 => Just(0u8), 1 => 1u8..(INVITE_EXT.len() as u8)],
        ),
    )
        .prop_map(|(app, net, net_first, rng, reliable, alt_source, send_delay_ms, fault, (legacy_branch, invite_ext))| {
            let mut app: Vec<(u64, AppOp)> = app.into_iter().map(|(s, o)| (RACE_TIMES[pick_idx(s, RACE_TIMES.len())], o)).collect();
            app.sort_by_key(|a| a.0);
            let mut net: Vec<(u64, NetOp)> = net.into_iter().map(|(s, o)| (RACE_TIMES[pick_idx(s, RACE_TIMES.len())], o)).collect();
            net.sort_by_key(|a| a.0);
            if reliable || fault.is_some() {
                // over a reliable transport the peer never sends a request twice (no copy of the INVITE, one CANCEL
                // per branch): a second copy would find its transaction gone and be a new request. The same holds
                // when the transport refuses a send: a refused final response ends its transaction unanswered, a
                // copy of that request arriving afterwards is legitimately a new request (a new call for the INVITE,
                // as after a Drop; a CANCEL that now may cancel although "its" first copy did not match)
                let mut seen_cancel = [false; 2];
                net.retain(|(_, o)| match o {
                    NetOp::DupInvite => false,
                    NetOp::Cancel { branch_ok, .. } => !std::mem::replace(&mut seen_cancel[*branch_ok as usize], true),
                    _ => true,
                });
            }
            if legacy_branch {
                // RFC 2543 matching has no branch to tell two Via values of one client apart: a CANCEL that is to
                // miss the INVITE differs in the CSeq number here (see assumptions)
                net.retain(|(_, o)| !matches!(o, NetOp::Cancel { branch_ok: false, .. }));
                // an ACK with the INVITE's CSeq number from such a client is, by the RFC 2543 rules, the ACK of
                // whatever final response the INVITE got (or gets); a copy of the INVITE after it is a new request
                // (ezk keeps no Confirmed state, see C08): no copies of the INVITE next to such an ACK
                if net.iter().any(|(_, o)| *o == NetOp::Ack { cseq_ok: true }) {
                    net.retain(|(_, o)| *o != NetOp::DupInvite);
                }
                if net.is_empty() {
                    net.push((5, NetOp::Cancel { branch_ok: true, cseq_ok: true }));
                }
            }
            Case { app, net, net_first, rng, reliable, alt_source, session_busy_ms: 0, send_delay_ms, fail_sends: fault.into_iter().collect(), via_hops: 0, legacy_branch, invite_ext }
        })
        .boxed()
}

/// Every shape of "a CANCEL / BYE meets the pending INVITE" x the transport refusing exactly one of the sends
/// involved (the 180, the 487, the 200 of the CANCEL / BYE, a copy of the 487), judged by `check_race`
pub fn fault_cases(tier: Tier) -> Vec<Case> {
    let cancel = NetOp::Cancel { branch_ok: true, cseq_ok: true };
    let nets: Vec<Vec<(u64, NetOp)>> = vec![
        vec![(5, cancel)],
        vec![(5, NetOp::Bye)],
        vec![(5, cancel), (6, NetOp::Bye)],
        vec![(5, NetOp::Bye), (6, cancel)],
        vec![(5, NetOp::Cancel { branch_ok: false, cseq_ok: true }), (6, NetOp::Bye)],
    ];
    let apps: Vec<Vec<(u64, AppOp)>> = vec![vec![], vec![(1, AppOp::Prov180)], vec![(1, AppOp::Prov180), (7, AppOp::Accept)], vec![(1, AppOp::Prov180), (5, AppOp::Reject(486))]];
    let mut out = vec![];
    for (i, net) in nets.iter().enumerate() {
        for (j, app) in apps.iter().enumerate() {
            for fault in 0u8..5 {
                for net_first in [false, true] {
                    for (reliable, send_delay_ms) in [(false, 0u64), (true, 0), (false, 2)] {
                        if tier == Tier::Quick && (reliable || send_delay_ms > 0) && net_first {
                            continue;
                        }
                        out.push(Case { app: app.clone(), net: net.clone(), net_first, rng: (i * 16 + j * 4) as u8 + fault, reliable, send_delay_ms, fail_sends: vec![fault], ..Default::default() });
                    }
                }
            }
        }
    }
    out
}

/// An accepted INVITE (optionally after a 180) whose 2xx is ACKed after 1 / 250 / 700 ms, disturbed by CANCELs that
/// can no longer cancel anything (between the 2xx and its ACK: same instant as the accept in both orders, 1 ms, 100 ms
/// and one retransmission interval later; matching, with another branch / CSeq, twice, together with a copy of the
/// INVITE; after the ACK), and then USED: the peer sends a re-INVITE and / or its BYE soon after or after 64*T1.
/// Judged by `check_race` (the late CANCEL gets 200 / 481 and changes nothing: one 2xx, the session lives until the
/// BYE, the BYE reaches the application and gets its 200).
pub fn established_cases(tier: Tier) -> Vec<Case> {
    let cancel = NetOp::Cancel { branch_ok: true, cseq_ok: true };
    let mut out = vec![];
    let mut k = 0u8;
    for accept_at in [0u64, 30] {
        for ack in [1u64, 250, 700] {
            // disturbances as (offset from the accept, op); offsets >= ack lie behind the ACK
            let mut dist: Vec<Vec<(u64, NetOp)>> = vec![
                vec![],
                vec![(0, cancel)],
                vec![(ack + 1, cancel)],
                vec![(ack + 600, cancel)],
            ];
            if ack > 1 {
                dist.push(vec![(1, cancel)]);
                dist.push(vec![(100, cancel)]);
                dist.push(vec![(1, NetOp::Cancel { branch_ok: true, cseq_ok: false })]);
                dist.push(vec![(1, NetOp::Cancel { branch_ok: false, cseq_ok: true })]);
                dist.push(vec![(1, cancel), (2, cancel)]);
                dist.push(vec![(1, NetOp::DupInvite), (2, cancel)]);
                dist.push(vec![(100, cancel), (ack + 1, cancel)]);
            }
            if ack > 501 {
                dist.push(vec![(501, cancel)]);
                dist.push(vec![(499, cancel), (502, NetOp::DupInvite)]);
            }
            for d in dist {
                let follow: Vec<Vec<(u64, NetOp)>> = vec![
                    vec![(ack + 1000, NetOp::Bye)],
                    vec![(ack + 900, NetOp::ReInvite), (ack + 1000, NetOp::Bye)],
                    vec![(TIMEOUT + 5000, NetOp::Bye)],
                ];
                for (fi, f) in follow.into_iter().enumerate() {
                    for (reliable, alt_source, net_first) in [(false, false, false), (false, false, true), (true, false, false), (false, true, false)] {
                        if tier == Tier::Quick && (reliable || alt_source || net_first) && fi != 0 {
                            continue;
                        }
                        if reliable && d.iter().any(|(_, o)| *o == NetOp::DupInvite || d.iter().filter(|(_, x)| x == o).count() > 1) {
                            // (over a reliable transport nothing is sent twice)
                            continue;
                        }
                        k = k.wrapping_add(37);
                        let mut net: Vec<(u64, NetOp)> = d.iter().map(|(t, o)| (accept_at + t, *o)).collect();
                        net.push((accept_at + ack, NetOp::Ack { cseq_ok: true }));
                        net.extend(f.iter().map(|(t, o)| (accept_at + t, *o)));
                        net.sort_by_key(|n| n.0);
                        let mut app = vec![];
                        if accept_at > 0 {
                            app.push((1, AppOp::Prov180));
                        }
                        app.push((accept_at, AppOp::Accept));
                        out.push(Case { app, net, net_first, rng: k, reliable, alt_source, ..Default::default() });
                    }
                }
            }
        }
    }
    out
}

/// The pending-INVITE and accept histories of `send_faults` / `established_then_used` (without faults) for the other
/// shapes an INVITE arrives in: from an RFC 2543 client (no magic cookie in any Via branch of the peer; CANCEL and
/// ACK carry the INVITE's Via), and / or with session-timer headers (each entry of `INVITE_EXT`). Judged by
/// `check_race`: the CANCEL / BYE still terminates the pending INVITE (200 + 487), an accept still sends its one 2xx
/// and the session lives until the BYE.
pub fn variant_cases(tier: Tier) -> Vec<Case> {
    let cancel = NetOp::Cancel { branch_ok: true, cseq_ok: true };
    let ack = NetOp::Ack { cseq_ok: true };
    // (application ops, network ops)
    let shapes: Vec<(Vec<(u64, AppOp)>, Vec<(u64, NetOp)>)> = vec![
        (vec![], vec![(5, cancel)]),
        (vec![(1, AppOp::Prov180)], vec![(5, cancel)]),
        (vec![(1, AppOp::Prov180)], vec![(5, NetOp::Bye)]),
        (vec![(1, AppOp::Prov180)], vec![(5, cancel), (6, NetOp::Bye)]),
        (vec![(1, AppOp::Prov180)], vec![(5, NetOp::DupInvite), (6, cancel), (506, cancel)]),
        (vec![(1, AppOp::Prov180)], vec![(5, NetOp::Cancel { branch_ok: true, cseq_ok: false }), (6, cancel)]),
        (vec![(1, AppOp::Prov180), (7, AppOp::Accept)], vec![(5, cancel)]),
        (vec![(1, AppOp::Prov180), (5, AppOp::Reject(486))], vec![(5, cancel), (300, NetOp::AckFinal)]),
        (vec![(1, AppOp::Prov180), (5, AppOp::Reject(603))], vec![(1505, NetOp::AckFinal), (1600, cancel)]),
        (vec![(0, AppOp::Accept)], vec![(1, ack), (1000, NetOp::Bye)]),
        (vec![(1, AppOp::Prov180), (30, AppOp::Accept)], vec![(280, ack), (900, NetOp::ReInvite), (1000, NetOp::Bye)]),
        (vec![(1, AppOp::Prov180), (30, AppOp::Accept)], vec![(31, cancel), (730, ack), (1700, NetOp::Bye)]),
        (vec![(0, AppOp::Accept)], vec![(0, cancel), (250, ack), (TIMEOUT + 5000, NetOp::Bye)]),
        (vec![(0, AppOp::Accept)], vec![(1000, NetOp::Bye)]),
    ];
    let mut variants: Vec<(bool, u8)> = vec![(true, 0)];
    for e in 1..INVITE_EXT.len() as u8 {
        variants.push((false, e));
    }
    variants.extend([(true, 2), (true, 3)]);
    let mut out = vec![];
    let mut k = 0u8;
    for (legacy_branch, invite_ext) in variants {
        for (app, net) in &shapes {
            for (reliable, net_first, alt_source) in [(false, false, false), (false, true, false), (true, false, false), (false, false, true)] {
                if tier == Tier::Quick && (net_first || alt_source) && !legacy_branch {
                    continue;
                }
                if reliable && (net.iter().any(|(_, o)| *o == NetOp::DupInvite) || net.iter().filter(|(_, o)| matches!(o, NetOp::Cancel { .. })).count() > 1) {
                    // (over a reliable transport nothing is sent twice)
                    continue;
                }
                k = k.wrapping_add(29);
                out.push(Case { app: app.clone(), net: net.clone(), net_first, rng: k, reliable, alt_source, legacy_branch, invite_ext, ..Default::default() });
            }
        }
    }
    out
}

// ---------------------------------------------------------------------------------------------
// (d) several reliable provisional responses of one INVITE, one after the other

/// Histories of two / three reliable provisional responses (183, 180) on one INVITE: the first one given up by
/// the stack (no PRACK for 31*T1) or abandoned by the application (its future dropped after 700 / 3000 ms) or
/// acknowledged in time; its PRACK arriving in time, late (before or while the next one waits), twice or never;
/// the next one acknowledged after 250 / 1400 ms or never.
pub fn relseq_cases(_tier: Tier) -> Vec<Case> {
    let p = |nth: u8| NetOp::PrackOf { nth };
    let mut shapes: Vec<(Vec<(u64, AppOp)>, Vec<(u64, NetOp)>)> = vec![];
    for second in [AppOp::Rel180, AppOp::Rel183] {
        // the first one times out (sent at 0, given up 31*T1 later)
        let app = vec![(0, AppOp::Rel183), (17_000, second)];
        for net in [
            vec![],
            vec![(16_000, p(0))],
            vec![(16_000, p(0)), (17_250, p(1))],
            vec![(16_000, p(0)), (18_400, p(1))],
            vec![(17_100, p(0)), (17_250, p(1))],
            vec![(17_250, p(1))],
            vec![(16_000, p(0)), (16_010, p(0)), (17_250, p(1))],
            vec![(16_990, p(0)), (19_000, p(0))],
        ] {
            shapes.push((app.clone(), net));
        }
        // the application abandons the first one
        for (ms, next_at) in [(700u64, 2000u64), (3000, 4000)] {
            let app = vec![(0, AppOp::Rel183Abandon(ms)), (next_at, second)];
            for net in [
                vec![],
                vec![(ms + 300, p(0))],
                vec![(ms + 300, p(0)), (next_at + 250, p(1))],
                vec![(ms + 300, p(0)), (next_at + 1400, p(1))],
                vec![(next_at + 100, p(0)), (next_at + 250, p(1))],
                vec![(next_at + 250, p(1))],
                vec![(250, p(0)), (next_at + 250, p(1))],
            ] {
                shapes.push((app.clone(), net));
            }
        }
        // each one acknowledged in time; a second copy of an earlier PRACK in between
        let app = vec![(0, AppOp::Rel183), (300, second), (900, AppOp::Rel183)];
        for net in [
            vec![(250, p(0)), (550, p(1)), (1150, p(2))],
            vec![(250, p(0)), (400, p(0)), (550, p(1)), (1000, p(1)), (2300, p(2))],
            vec![(600, p(0)), (1300, p(1))],
            vec![(250, p(0)), (2000, p(1)), (2100, p(0)), (2250, p(2))],
        ] {
            shapes.push((app.clone(), net));
        }
    }
    let mut out = vec![];
    for (i, (app, net)) in shapes.into_iter().enumerate() {
        for reliable in [false, true] {
            out.push(Case { app: app.clone(), net: net.clone(), net_first: false, rng: (i as u8).wrapping_mul(11).wrapping_add(reliable as u8), reliable, ..Default::default() });
        }
    }
    out
}

pub fn check_relseq(case: &Case, out: &mut CaseOut) {
    let last = case.app.iter().map(|a| a.0).chain(case.net.iter().map(|n| n.0)).max().unwrap_or(0);
    let obs = run(case, last + TIMEOUT + 5000);
    out.note = Some(describe(&obs));
    let sched = ref_tsx::rel1xx_schedule();
    // PRACKs that were really sent: (instant, which reliable provisional its RAck names, index of the network op)
    let pracks: Vec<(u64, usize, usize)> = case
        .net
        .iter()
        .enumerate()
        .filter(|(i, _)| !obs.skipped_net.contains(i))
        .filter_map(|(i, (t, o))| match o {
            NetOp::PrackOf { nth } => Some((*t, *nth as usize, i)),
            _ => None,
        })
        .collect();
    if !obs.skipped_net.is_empty() {
        out.class("a PRACK for a response the peer never saw (not generated)");
    }
    let rel_ops: Vec<&AppResult> = obs.app.iter().filter(|a| matches!(a.op, AppOp::Rel183 | AppOp::Rel180 | AppOp::Rel183Abandon(_))).collect();
    // per reliable provisional: the window in which its call certainly still waits for the PRACK
    let mut sure: Vec<(u64, u64)> = vec![];
    for (k, r) in rel_ops.iter().enumerate() {
        let want_status = if r.op == AppOp::Rel180 { 180 } else { 183 };
        let Some(rseq) = obs.rseqs.get(k).copied() else {
            out.fail("c12.rel1xx/not-sent", format!("reliable provisional #{k} ({:?}) never appeared on the wire", r.op));
            sure.push((0, 0));
            continue;
        };
        let copies: Vec<(&Sent, &WireMsg)> = responses_for(&obs, BRANCH, INVITE_CSEQ, "INVITE")
            .into_iter()
            .filter(|(_, m)| m.header("rseq").and_then(|v| v.trim().parse::<u32>().ok()) == Some(rseq))
            .collect();
        let sends: Vec<u64> = copies.iter().map(|(s, _)| s.t_ms).collect();
        if sends.first() != Some(&r.started) || copies.iter().any(|(_, m)| m.status() != Some(want_status)) {
            out.fail("c12.rel1xx/not-sent", format!("reliable provisional #{k} ({:?}) started at {}: transmissions {sends:?}", r.op, r.started));
            sure.push((0, 0));
            continue;
        }
        if copies.iter().any(|(_, m)| !m.list_values("require").iter().any(|x| x.eq_ignore_ascii_case("100rel"))) {
            out.fail("c12.rel1xx/missing-rseq-or-require", format!("reliable provisional #{k} without Require: 100rel"));
        }
        let s = r.started;
        let abandon_at = match r.op {
            AppOp::Rel183Abandon(ms) => Some(s + ms),
            _ => None,
        };
        // (when the call gives up is not asserted beyond the first 3.5 s)
        let wait_end = abandon_at.unwrap_or(u64::MAX).min(s + 3500);
        let mine: Vec<u64> = pracks.iter().filter(|(t, nth, _)| *nth == k && *t > s).map(|(t, _, _)| *t).collect();
        let first_mine = mine.first().copied();
        sure.push((s, wait_end.min(first_mine.unwrap_or(u64::MAX))));
        // the call completes only with the PRACK whose RAck names THIS response
        if r.outcome == "ok" && !mine.iter().any(|t| *t <= r.ended) {
            out.fail(
                "c12.rel1xx/completed-without-matching-prack",
                format!("reliable provisional #{k} ({:?}, RSeq {rseq}) sent at {s}: the call returned Ok at {} although no PRACK with its RAck had arrived (PRACKs (instant, for #) {:?}); transmissions {sends:?}", r.op, r.ended, pracks.iter().map(|p| (p.0, p.1)).collect::<Vec<_>>()),
            );
            continue;
        }
        // retransmitted on the RFC 3262 schedule until the matching PRACK (or until the application abandons it)
        let stop = first_mine.unwrap_or(u64::MAX).min(abandon_at.unwrap_or(u64::MAX));
        let observed_before: Vec<u64> = sends.iter().copied().filter(|t| *t < stop).collect();
        let want_prefix: Vec<u64> = sched.iter().map(|t| s + *t).filter(|t| *t < stop).collect();
        let is_prefix = observed_before.len() <= want_prefix.len() && observed_before == want_prefix[..observed_before.len()];
        let must_have = want_prefix.iter().filter(|t| **t <= s + 3500).count();
        if !is_prefix || observed_before.len() < must_have {
            out.fail(
                "c12.rel1xx/interval-not-doubling",
                format!("reliable provisional #{k} ({:?}) sent at {s}, matching PRACK at {first_mine:?}, abandoned at {abandon_at:?}: transmissions {observed_before:?}, RFC 3262 schedule {want_prefix:?}", r.op),
            );
        }
        if let Some(g) = first_mine {
            if g < wait_end {
                if sends.iter().any(|t| *t > g) {
                    out.fail("c12.rel1xx/continues-after-prack", format!("reliable provisional #{k} re-sent after the matching PRACK at {g}: {sends:?}"));
                }
                if !(r.outcome == "ok" && r.ended == g) {
                    out.fail("c12.rel1xx/result", format!("reliable provisional #{k}: matching PRACK at {g}, respond_provisional_reliable gave {r:?}"));
                }
                out.class("reliable provisional acknowledged in time");
            } else {
                out.class("PRACK after the call stopped waiting (given up / abandoned)");
            }
        } else {
            out.class("reliable provisional never acknowledged");
        }
        if k > 0 {
            out.class(match rel_ops[k - 1].outcome.as_str() {
                "ok" => "a further reliable provisional after an acknowledged one",
                "abandoned" => "a further reliable provisional after an abandoned one",
                _ => "a further reliable provisional after a given-up one",
            });
            if pracks.iter().any(|(t, nth, _)| *nth < k && *t > rel_ops[k - 1].ended && *t <= s) {
                out.class("PRACK of an earlier response arrives between two reliable provisionals");
            }
        }
    }
    // only the PRACK with the matching RAck is answered 200: one that names another response than the one whose
    // call certainly waits at that instant is not
    for (t, nth, i) in &pracks {
        let codes: Vec<u16> = responses_for(&obs, &format!("z9hG4bKc12prack{}", i + 1), 0, "PRACK").iter().filter_map(|(_, m)| m.status()).filter(|c| *c >= 200).collect();
        let Some(k) = sure.iter().position(|(a, b)| *t > *a && *t <= *b && a != b) else { continue };
        if *nth == k {
            if codes != vec![200] {
                out.fail("c12.prack/matching-not-answered-200", format!("PRACK at {t} for the reliable provisional #{k} that waits for it answered {codes:?}"));
            }
        } else if obs.rseqs.get(*nth) != obs.rseqs.get(k) {
            if codes.contains(&200) {
                out.fail("c12.prack/mismatching-answered-200", format!("PRACK at {t} names reliable provisional #{nth} while #{k} waits: answered {codes:?}"));
            }
            out.class("PRACK of another reliable provisional while one waits");
        }
    }
    if case.reliable {
        out.class("reliable transport");
    }
    out.nontrivial(case);
}

pub fn check_race(case: &Case, out: &mut CaseOut) {
    let last = case.app.iter().map(|a| a.0).chain(case.net.iter().map(|n| n.0)).max().unwrap_or(0);
    let obs = run(case, last + 2 * TIMEOUT + T2 + 2000);
    out.note = Some(describe(&obs));

    // INVITE finals
    let ib = inv_branch(case);
    let inv: Vec<(&Sent, &WireMsg)> = responses_for(&obs, &ib, INVITE_CSEQ, "INVITE");
    let finals: Vec<&(&Sent, &WireMsg)> = inv.iter().filter(|(_, m)| m.status().unwrap_or(0) >= 200).collect();
    // final responses the transport refused to take (send-fault plan) count as the stack's answer: it decided and
    // tried, what a refused datagram means for "is sent" is outside the statement
    let refused_for = |branch: &str, method: &str| -> Vec<u16> {
        obs.refused
            .iter()
            .filter_map(|(_, m)| m.as_ref())
            .filter(|m| !m.is_request() && m.via_branch().as_deref() == Some(branch) && m.cseq().map_or(false, |(_, mm)| mm == method))
            .filter_map(|m| m.status())
            .filter(|c| *c >= 200)
            .collect()
    };
    let mut codes: Vec<u16> = finals.iter().filter_map(|(_, m)| m.status()).chain(refused_for(&ib, "INVITE")).collect();
    codes.sort();
    codes.dedup();

    // decisive events in time order; same-instant events may be processed in either order
    #[derive(Clone, Copy, PartialEq, Debug)]
    enum D {
        Accept,
        Reject(u16),
        Cancel,
        Bye,
        Drop,
    }
    let mut dec: Vec<(u64, D)> = vec![];
    for (t, op) in &case.app {
        match op {
            AppOp::Accept => dec.push((*t, D::Accept)),
            AppOp::Reject(c) => dec.push((*t, D::Reject(*c))),
            AppOp::Drop => dec.push((*t, D::Drop)),
            _ => {}
        }
    }
    // (a CANCEL on the INVITE's branch that follows an earlier CANCEL on that branch is, for RFC 3261
    // matching, a retransmission of the earlier one whatever its CSeq: only the first one can decide)
    // (for RFC 2543 matching the CSeq number is part of the transaction's identity: a CANCEL with another CSeq is
    // another transaction, the first CANCEL that matches in both decides)
    let first_cancel_on_branch = case.net.iter().position(|(_, o)| matches!(o, NetOp::Cancel { branch_ok: true, cseq_ok } if *cseq_ok || !case.legacy_branch));
    for (i, (t, op)) in case.net.iter().enumerate() {
        match op {
            NetOp::Cancel { branch_ok: true, cseq_ok: true } if first_cancel_on_branch == Some(i) => dec.push((*t, D::Cancel)),
            NetOp::Bye => dec.push((*t, D::Bye)),
            _ => {}
        }
    }
    dec.sort_by_key(|d| d.0);
    // application ops run strictly in list order; an op can start late when the previous one blocks
    // (e.g. a reject waiting for its ACK); so "time" of an app decisive op is a lower bound.
    let first_t = dec.first().map(|d| d.0);
    // admissible first decisive events: every event not later than the first app-op completion chain allows;
    // conservative: all events sharing the earliest instant, plus (because app ops may start late) any
    // network decisive event that comes before the app's first decisive op actually started
    let mut admissible: Vec<D> = vec![];
    if let Some(ft) = first_t {
        for (t, d) in &dec {
            if *t == ft {
                admissible.push(*d);
            }
        }
        let first_app_dec_started = obs
            .app
            .iter()
            .find(|a| matches!(a.op, AppOp::Accept | AppOp::Reject(_) | AppOp::Drop))
            .map(|a| a.started);
        if let Some(st) = first_app_dec_started {
            for (t, d) in &dec {
                if matches!(d, D::Cancel | D::Bye) && *t <= st && !admissible.contains(d) {
                    admissible.push(*d);
                }
            }
        }
    }
    let dropped_first = admissible.contains(&D::Drop);
    let want_codes: Vec<u16> = admissible
        .iter()
        .filter_map(|d| match d {
            D::Accept => Some(200),
            D::Reject(c) => Some(*c),
            D::Cancel | D::Bye => Some(487),
            D::Drop => None,
        })
        .collect();

    // an application that drops the acceptor undecided abandons the transaction; a copy of the INVITE arriving
    // afterwards is then legitimately a new call: nothing about "the" INVITE is asserted in that combination
    let has_drop = case.app.iter().any(|(_, o)| *o == AppOp::Drop);
    let has_dup = case.net.iter().any(|(_, o)| *o == NetOp::DupInvite);
    if has_drop && has_dup {
        out.class("drop+duplicate-invite(unasserted)");
        return;
    }
    if codes.len() > 1 {
        out.fail("c12.final/two-different-finals", format!("INVITE got final responses {codes:?}"));
    }
    if !dec.is_empty() && !dropped_first {
        if codes.is_empty() {
            out.fail("c12.final/none", format!("decisive events {dec:?} but the INVITE got no final response"));
            // the accept was (one of) the first decision(s), it failed and not even an attempt to send a final
            // response was made by anybody: say so
            if admissible.contains(&D::Accept) {
                if let Some(a) = obs.app.iter().find(|a| a.op == AppOp::Accept) {
                    if a.outcome != "ok" && a.outcome != "timeout" && a.outcome != "terminated" {
                        out.fail("c12.accept/failed-without-any-final-response", format!("respond_success at {} ms returned {:?}; no final response of the INVITE was sent or tried (INVITE header set {:?})", a.started, a.outcome, INVITE_EXT[case.invite_ext as usize % INVITE_EXT.len()]));
                    }
                }
            }
        } else if !want_codes.contains(&codes[0]) {
            out.fail(
                "c12.final/wrong-winner",
                format!("INVITE answered {}, admissible by the first decisive event(s) {admissible:?}: {want_codes:?}", codes[0]),
            );
        }
    }
    let winner = codes.first().copied();

    // CANCELs and BYEs: answered with their own Via / CSeq
    let mut n = 0u32;
    for (t, op) in &case.net {
        n += 1;
        match op {
            NetOp::Cancel { branch_ok, cseq_ok } => {
                let branch = if *branch_ok { ib.clone() } else { format!("{ib}x") };
                let cseq = if *cseq_ok { INVITE_CSEQ } else { INVITE_CSEQ + 1 };
                // CANCELs sharing a branch are one transaction for RFC 3261 matching (a later one is absorbed as a
                // retransmission of the first, whatever its CSeq): judge them by branch
                // (RFC 2543 matching: by branch-less top Via AND CSeq number)
                let same_branch = case.net.iter().filter(|(_, o)| matches!(o, NetOp::Cancel { branch_ok: b, cseq_ok: c } if b == branch_ok && (c == cseq_ok || !case.legacy_branch))).count();
                let resp = responses_for(&obs, &branch, if same_branch > 1 && !case.legacy_branch { 0 } else { cseq }, "CANCEL");
                let mut c: Vec<u16> = resp.iter().filter_map(|(_, m)| m.status()).filter(|c| *c >= 200).collect();
                c.sort();
                c.dedup();
                let matching = *branch_ok && *cseq_ok;
                // several CANCELs for the same transaction share branch+CSeq: judged together
                if !refused_for(&branch, "CANCEL").is_empty() {
                    // the transport refused the answer to (a copy of) this CANCEL: its transaction ended there, a
                    // later copy is a new request that finds nothing to cancel; only the code range stays asserted
                    out.class("own 200/481 refused by the transport (excused)");
                    if c.iter().any(|x| *x != 200 && *x != 481) {
                        out.fail("c12.cancel/unexpected-code", format!("CANCEL at {t} answered {c:?} (allowed: 200, 481)"));
                    }
                } else if c.is_empty() {
                    out.fail("c12.cancel/unanswered", format!("CANCEL at {t} (branch_ok={branch_ok}, cseq_ok={cseq_ok}) got no final response"));
                } else if c.len() > 1 && same_branch == 1 {
                    out.fail("c12.cancel/two-finals", format!("CANCEL at {t} got {c:?}"));
                } else if matching && winner == Some(487) && admissible == vec![D::Cancel] && c != vec![200] {
                    out.fail("c12.cancel/matching-not-200", format!("CANCEL that terminated the INVITE answered {c:?}"));
                } else if c.iter().any(|x| *x != 200 && *x != 481) {
                    out.fail("c12.cancel/unexpected-code", format!("CANCEL at {t} answered {c:?} (allowed: 200, 481)"));
                } else if matching && admissible == vec![D::Cancel] && first_cancel_on_branch == Some(n as usize - 1) && winner != Some(487) && c == vec![481] {
                    // (only together with c12.final/*: the CANCEL was the one first decision, the INVITE was pending)
                    out.fail("c12.cancel/matching-cancel-of-the-pending-invite-answered-481", format!("CANCEL at {t} (same top Via, CSeq number, Call-ID, tags as the pending INVITE; RFC 2543 peer: {}) was answered 481 and the INVITE got {winner:?}", case.legacy_branch));
                } else if !matching && winner == Some(487) && !admissible.iter().any(|d| matches!(d, D::Cancel | D::Bye)) {
                    out.fail("c12.cancel/non-matching-cancelled-invite", "INVITE got 487 although only a non-matching CANCEL arrived");
                }
            }
            NetOp::Bye => {
                let branch = br(case, &format!("bye{n}"));
                let resp = responses_for(&obs, &branch, 0, "BYE");
                let c: Vec<u16> = resp.iter().filter_map(|(_, m)| m.status()).filter(|c| *c >= 200).collect();
                let first_bye = case.net.iter().position(|(_, o)| *o == NetOp::Bye) == Some(n as usize - 1);
                let by_bye = first_bye && winner == Some(487) && admissible == vec![D::Bye];
                if by_bye && !refused_for(&branch, "BYE").is_empty() {
                    out.class("own 200/481 refused by the transport (excused)");
                } else if by_bye && c != vec![200] {
                    // look for the misdirected 200 (built from the INVITE)
                    let stray_200 = inv.iter().any(|(_, m)| m.status() == Some(200));
                    out.fail(
                        if stray_200 { "c12.bye/200-carries-invite-via-and-cseq" } else { "c12.bye/not-answered-200" },
                        format!("BYE at {t} terminated the pending INVITE but was answered {c:?} with its own Via/CSeq (a 200 with the INVITE's Via/CSeq on the wire: {stray_200})"),
                    );
                }
                if c.len() > 1 {
                    out.fail("c12.bye/two-finals", format!("BYE at {t} got {c:?}"));
                }
            }
            _ => {}
        }
    }

    // acceptor calls after termination report it
    let term_at = dec.iter().find(|(_, d)| matches!(d, D::Cancel | D::Bye)).map(|d| d.0);
    if let (Some(tt), Some(487)) = (term_at, winner) {
        for a in &obs.app {
            if a.started > tt && matches!(a.op, AppOp::Accept | AppOp::Reject(_) | AppOp::Prov180) && a.outcome != "terminated" && a.outcome != "no-acceptor" {
                out.fail("c12.after-termination/call-did-not-report-termination", format!("{:?} started at {} after CANCEL/BYE at {tt} returned {}", a.op, a.started, a.outcome));
            }
        }
    }

    // an accepted INVITE: a CANCEL that arrives once the 2xx is out no longer matches a pending INVITE and "changes
    // nothing": the session respond_success handed out stays usable, i.e. it does not end before the peer's BYE, and
    // the first BYE of the dialog reaches the application (which answers it 200 here)
    let accepted = obs.app.iter().find(|a| a.op == AppOp::Accept && a.outcome == "ok");
    let mut late_cancel_used = false;
    if let Some(acc) = accepted {
        let first_event = obs.session_events.first();
        let first_bye = case.net.iter().position(|(_, o)| *o == NetOp::Bye);
        if let Some((t, ev)) = first_event {
            if ev == "terminated" {
                out.fail(
                    "c12.established/session-ended-without-bye",
                    format!("respond_success returned a session at {} ms; it reported Terminated at {t} ms although no BYE had been handed to the application (network ops {:?})", acc.ended, case.net),
                );
            }
        }
        if let Some(i) = first_bye {
            let (t, _) = case.net[i];
            let branch = br(case, &format!("bye{}", i + 1));
            let c: Vec<u16> = responses_for(&obs, &branch, 0, "BYE").iter().filter_map(|(_, m)| m.status()).filter(|c| *c >= 200).collect();
            // (a BYE that arrives before the ACK waits for the accept to finish; it is judged all the same)
            if !refused_for(&branch, "BYE").is_empty() {
                out.class("own 200/481 refused by the transport (excused)");
            } else {
                if !obs.session_events.iter().any(|(_, e)| e == "bye") {
                    out.fail("c12.established/bye-did-not-reach-the-application", format!("session established at {} ms, BYE at {t} ms: session events {:?}, BYE answered {c:?}", acc.ended, obs.session_events));
                } else if c != vec![200] {
                    out.fail("c12.established/bye-not-answered-200", format!("session established at {} ms, BYE at {t} ms handed to the application but answered {c:?}", acc.ended));
                }
            }
            out.class("BYE for the established session");
        }
        if case.net.iter().any(|(t, o)| matches!(o, NetOp::Cancel { branch_ok: true, cseq_ok: true }) && *t >= acc.started && *t <= acc.ended) {
            out.class("CANCEL between the 2xx and its ACK");
            late_cancel_used = first_bye.is_some();
        }
    }

    // classes / non-triviality
    let close = case.app.iter().any(|(ta, _)| case.net.iter().any(|(tn, _)| ta.abs_diff(*tn) <= 1));
    if close {
        out.class("network-and-application-op-within-1ms");
    }
    if admissible.len() > 1 {
        out.class("same-instant-decisive-race");
    }
    match winner {
        Some(200) => out.class("won-by-accept"),
        Some(487) => out.class("won-by-cancel-or-bye"),
        Some(_) => out.class("won-by-reject"),
        None => out.class("no-final"),
    }
    if case.net.iter().any(|(_, o)| matches!(o, NetOp::Ack { .. })) && winner == Some(200) {
        out.class("2xx-with-ack");
    }
    if case.reliable {
        out.class("reliable transport");
    }
    if case.alt_source {
        out.class("CANCEL/BYE/ACK/copies from another source port");
    }
    if case.send_delay_ms > 0 {
        out.class("send stays pending (back-pressure)");
    }
    if case.legacy_branch {
        out.class("RFC 2543 peer (Via branches without the magic cookie)");
        if winner == Some(487) && admissible.contains(&D::Cancel) {
            out.class("RFC 2543 peer: CANCEL terminated the pending INVITE");
        }
    }
    if case.invite_ext as usize % INVITE_EXT.len() != 0 {
        out.class("INVITE with session-timer headers (Supported: timer / Min-SE / Session-Expires)");
        if ext_is_unusual(case.invite_ext) && case.app.iter().any(|(_, o)| *o == AppOp::Accept) {
            out.class("accept of an INVITE whose Min-SE / Session-Expires is beyond 32 bit or has a generic-param");
        }
    }
    let mut fault_hit = false;
    for (_, m) in &obs.refused {
        fault_hit = true;
        let Some(m) = m else { continue };
        let method = m.cseq().map(|c| c.1).unwrap_or_default();
        match (m.status().unwrap_or(0), method.as_str()) {
            (100..=199, _) => out.class("transport refused a provisional response"),
            (487, "INVITE") => out.class("transport refused the 487 of the INVITE"),
            (_, "INVITE") => out.class("transport refused another final response of the INVITE"),
            (_, "CANCEL") | (_, "BYE") => out.class("transport refused the answer to a CANCEL / BYE"),
            _ => out.class("transport refused another message"),
        }
    }
    let odd_invite = case.legacy_branch || case.invite_ext as usize % INVITE_EXT.len() != 0;
    if close || admissible.len() > 1 || fault_hit || late_cancel_used || (odd_invite && !dec.is_empty()) {
        out.nontrivial(case);
    }
    let _ = (T1, obs.cancellables_end, obs.dialogs_end, &obs.seen, &obs.session_events);
}

pub fn property() -> Property {
    Property {
        fuzz: vec![],
        id: "C12",
        rule: "seven sub-checks around one incoming INVITE handled by Dialog::new_server + Acceptor under a paused clock. accept_retransmit (enumerated): accept at 0/30 ms x ACK arrival on the grid {+-1 ms around every T1-doubling-capped-at-T2 instant, 64*T1 +-1, never} x ACK CSeq matching / not. reliable_provisional (enumerated): PRACK arrival +-1 ms around every RFC 3262 instant x RAck matching / wrong rseq / wrong cseq. Both grids also over a transport whose every send stays pending 2 / 20 ms, with the ACK / PRACK arriving inside the first send, just after it, inside the send of a copy, and mid-interval. races (random): 1..3 application ops {180, accept, reject, drop} and 1..4 network ops {CANCEL matching / wrong branch / wrong CSeq, BYE, duplicate INVITE, ACK} at instants from {5,6,7,505,506,1505,4000} ms (same instant in both orders), tokio select seed, 1/4 with 2 ms send latency, 1/4 with one of the first six sends refused by the transport (then without request copies), 1/4 from an RFC 2543 peer (no magic cookie in its Via branches; then no wrong-branch CANCEL), 1/3 with one of the eight session-timer header sets on the INVITE (Supported: timer and / or Min-SE, Session-Expires: plain, beyond 32 bit, with generic-params, leading zeros). invite_variants (enumerated, races oracle): RFC 2543 peer / each header set / both x 14 histories (CANCEL, BYE, both, copy + CANCELs, wrong-CSeq CANCEL first, accept / reject racing the CANCEL, reject + ACK, accept + ACK (+ late CANCEL, re-INVITE) + BYE, accept never ACKed) x {unreliable, reliable, both same-instant orders, other source port}. send_faults (enumerated): CANCEL / BYE / both / non-matching CANCEL + BYE meeting the pending INVITE x application {nothing, 180, 180 + accept, 180 + reject} x refused send k=0..4 x both same-instant orders x {unreliable, reliable, 2 ms latency}, judged by the races oracle. established_then_used (enumerated, races oracle): accept at 0 / 30 ms, ACK 1 / 250 / 700 ms later, CANCEL(s) that can no longer cancel {none, at the accept instant, 1 / 100 / 499 / 501 ms after it, with another branch / CSeq, twice, with a copy of the INVITE, after the ACK}, then the peer's re-INVITE / BYE 1 s later or after 64*T1: one 2xx, CANCEL answered 200 / 481, the session does not end before the BYE, the BYE reaches the application and gets 200 (the same is asserted in races whenever an accept succeeds). reliable_sequence (enumerated): two / three reliable provisionals (183, 180) in a row, the earlier one given up after 31*T1 / abandoned by the application after 700, 3000 ms / acknowledged in time, its PRACK in time, late (between the two calls or while the next one waits), twice or never, the next one's PRACK after 250 / 1400 ms or never; per RSeq: first copy at the call, copies on the RFC 3262 schedule until ITS PRACK, the call returns Ok only at a PRACK naming it, a PRACK naming another response than the one that certainly waits is not answered 200. Non-trivial (races, send_faults, established_then_used, invite_variants) = a decisive event meets an INVITE from an RFC 2543 peer or with session-timer headers, or a network op and an application op within 1 ms, or two decisive events at one instant, or a send was refused, or a CANCEL between 2xx and ACK followed by a BYE.",
        assumptions: vec![
            "same-instant decisive events may be processed in either order: the INVITE's final code must come from one of them",
            "application ops run in list order; an op may start late because the previous call is still waiting (e.g. for an ACK)",
            "total duration of reliable-provisional retransmission is not asserted (observed instants must be a prefix of the RFC 3262 schedule covering at least the first 3.5 s)",
            "with an RFC 2543 peer a CANCEL that is to miss the INVITE differs from it in the CSeq number, never only in the Via branch (ezk finds the pending INVITE of a cookie-less CANCEL by CSeq number alone; what a CANCEL with the same CSeq but another top Via does is not generated); CANCELs with different CSeq numbers are different transactions there, the first one matching in both decides; an ACK with the INVITE's CSeq from such a peer belongs to the INVITE's transaction whatever its branch (it ends the retransmission of a rejection), so no copy of the INVITE is generated next to one (a copy after the ACK is a new request)",
            "what the 2xx says about the session timer (Session-Expires, Require) is not looked at: only that the accept still sends its one 2xx, waits for the ACK and hands out a usable session, whatever Min-SE / Session-Expires the INVITE carried",
            "which of 200/481 an unmatched CANCEL receives is not asserted; a Drop of the acceptor before any decision removes the exactly-one obligation",
            "the scripted application drives an accepted session at once and answers a BYE 200 (process_default), a re-INVITE 488; 'changes nothing' after a late CANCEL is judged by that session: no Terminated before a BYE was handed over, the first BYE is handed over and answered 200",
            "a call of respond_provisional_reliable certainly still waits during the first 3.5 s after its first transmission (and until the application abandons it); only inside that window a matching PRACK must complete it at once and be answered 200, and a PRACK naming another reliable provisional must not be answered 200; what a PRACK gets that arrives for a given-up / abandoned response is not asserted",
            "a final response the transport refused (io::Error from Transport::send) counts as the answer the stack gave to THAT request (its code takes part in winner / exactly-one); the answers owed to the other requests (the 200 of the CANCEL / BYE next to a refused 487 and vice versa) are asserted as without the fault; with a refused send no request copies are generated (a copy arriving after its transaction ended unanswered is a new request)",
            "under send latency d the k-th copy of a 2xx / reliable 1xx is accepted within [nominal, nominal + (k+1)*d]; nothing may be sent after the matching ACK / PRACK arrived, and the waiting call must return within d of it (or of the end of the send it was suspended in)",
        ],
        explanation: "accept_retransmit, reliable_provisional, send_faults, established_then_used, invite_variants and reliable_sequence enumerate their grids completely; races are sampled",
        subs: vec![
            enum_sub("accept_retransmit", accept_cases, check_accept),
            enum_sub("reliable_provisional", rel_cases, check_rel),
            prop_sub("races", race_strategy, 1500, 30000, check_race),
            enum_sub("send_faults", fault_cases, check_race),
            enum_sub("established_then_used", established_cases, check_race),
            enum_sub("invite_variants", variant_cases, check_race),
            enum_sub("reliable_sequence", relseq_cases, check_relseq),
        ],
    }
}
