//! C08 — Every request is answered exactly once; ACKs and responses never are
//!
//! `stack` (sampled): a layer stack built from policy tables, a handful of requests from one peer. Per request the
//! generator also varies the Via list (the request came directly, or through one / two proxies: further Via values
//! with their own sent-by and branch below the top one, as separate header lines or as one comma-separated list)
//! and, for INVITEs that end up rejected, how often the ACK arrives (once, or again 1 / 3 + 1300 / 400 / 3000 ms
//! after the first copy, i.e. inside T4). Oracle: a response on the wire is attributed to the request whose
//! top-Via branch occurs ANYWHERE in its Via list (all branches of a case are unique) and whose CSeq number it
//! carries; it matches the request only if that branch is in its top-most Via (and the values below it are the
//! request's, same order); the first taking layer / usage in registration order decides the code, else 404 / 481
//! from the stack; a rejected INVITE's final response is on the wire at the answer instant and on the timer-G
//! schedule until the ACK, and not again when a further copy of the ACK arrives (an ACK is never answered).
//! Each request may also be retransmitted by the peer (byte-identical copies 500 / 1500 / 3500 ms or 2 / 900 ms after
//! the original, unreliable transport only) and the transport may refuse one of the first eight sends of the case
//! (io::Error from `Transport::send`, nothing on the wire; the refused bytes are kept). Oracle for these: a request
//! whose FIRST answer transmission was refused is excused; otherwise, while the server transaction of an answered
//! request lives (non-INVITE: 64*T1 from the answer; rejected INVITE: until the ACK), a copy of the request is
//! absorbed: the layers / usages are not handed the request a second time - also not after a re-send of the answer
//! was refused (non-INVITE; for a rejected INVITE ezk ends the transaction on a refused re-send: not asserted).
//! `reordered_in_dialog` (enumerated): in-dialog requests nobody wants arriving out of CSeq order: every permutation
//! of 2..4, and 8..200 requests waiting at once behind a gap (four arrival orders, both reliabilities): one 404 each.
//! `pending_invite`, `session_backlog` drive the acceptor world of C12 (`c12::run`); see the comments there
//! (`pending_invite` also with an RFC 2543 peer = Via branches without the magic cookie, and with session-timer
//! headers on the INVITE).
//! Not asserted: instants where an ACK / copy coincides with a timer; copies of an INVITE that arrive after the
//! ACK of its rejection (ezk keeps no Confirmed state: such a copy is a new request, answered again).

use crate::engine::*;
use crate::refmodel::ref_tsx;
use crate::world::*;
use parking_lot::Mutex;
use proptest::prelude::*;
use serde::{Deserialize, Serialize};
use sip_core::{Endpoint, IncomingRequest, Layer, LayerKey, MayTake};
use sip_types::header::typed::Contact;
use sip_types::uri::sip::SipUri;
use sip_types::uri::NameAddr;
use sip_ua::dialog::{Dialog, DialogLayer, Usage, UsageGuard};
use sip_ua::invite::InviteLayer;
use std::collections::BTreeMap;
use std::net::SocketAddr;
use std::sync::Arc;
use std::time::Duration;

const METHODS: &[&str] = &["INVITE", "OPTIONS", "BYE", "MESSAGE", "CANCEL", "FOOBAR"];

#[derive(Serialize, Deserialize, Clone, Debug, Hash)]
pub struct Spec {
    /// policy per METHODS index
    pub table: Vec<Policy>,
}

#[derive(Serialize, Deserialize, Clone, Copy, Debug, Hash, PartialEq, Eq)]
pub enum Kind {
    OutOfDialog,
    InDialog,
    UnknownDialog,
    /// ACK (out of any transaction) with a fresh branch
    Ack,
    /// a response nobody asked for
    StrayResponse,
    /// byte-identical copy of an earlier request of this case (index, taken modulo)
    Retransmit(u8),
}

#[derive(Serialize, Deserialize, Clone, Debug, Hash)]
pub struct Req {
    pub gap: u64,
    pub kind: Kind,
    pub method: u8,
    /// for INVITEs that end up rejected: the peer ACKs this long after the request (None = never)
    pub ack_after: Option<u64>,
    /// in-dialog only: explicit CSeq (dialog's INVITE CSeq + this) instead of the next one in arrival order
    #[serde(default)]
    pub cseq_offset: Option<u8>,
    /// the top Via branch lacks the RFC 3261 magic cookie (an RFC 2543 client): the server falls back to
    /// matching on Call-ID / From-tag / CSeq / top Via (and, for the ACK, the To-tag of the response)
    #[serde(default)]
    pub legacy_branch: bool,
    /// number of further Via values below the top one (the request passed that many proxies before it reached us)
    #[serde(default)]
    pub via_hops: u8,
    /// the Via values come as one comma-separated header line instead of one line each
    #[serde(default)]
    pub via_csv: bool,
    /// for rejected INVITEs: further byte-identical copies of the ACK, this many ms after the first ACK (a
    /// retransmitted / duplicated ACK; an ACK is never answered and ends the retransmission of the rejection)
    #[serde(default)]
    pub ack_copies: Vec<u64>,
    /// the peer retransmits this request (it has not seen an answer yet): further byte-identical copies this many
    /// ms after the original (e.g. 500, 1500, 3500 = the timer-E / timer-A instants of its client transaction)
    #[serde(default)]
    pub copies: Vec<u64>,
}

#[derive(Serialize, Deserialize, Clone, Debug, Hash)]
pub struct Case {
    pub reliable: bool,
    pub layers: Vec<Spec>,
    /// position of DialogLayer in the stack (index into layers where it is inserted before), None = absent
    pub dialog_layer_pos: Option<u8>,
    pub usages: Vec<Spec>,
    pub invite_layer: bool,
    pub requests: Vec<Req>,
    pub rng: u8,
    /// answering layers and usages put a To-tag into their responses (what every conforming UAS does);
    /// the peer copies the To of the response into the ACK it sends for a rejected INVITE
    #[serde(default)]
    pub uas_tags: bool,
    /// ordinals (0-based, over every `Transport::send` call of the case) of sends the transport refuses with an
    /// io::Error (a transient error such as a pending ICMP error on a UDP socket); nothing reaches the wire then
    #[serde(default)]
    pub fail_sends: Vec<u8>,
}

fn policy_strategy() -> BoxedStrategy<Policy> {
    prop_oneof![
        4 => Just(Policy::Ignore),
        3 => Just(Policy::Inspect),
        3 => (prop_oneof![Just(200u16), Just(202u16), Just(404u16), Just(405u16), Just(486u16), Just(500u16), Just(603u16)],
              prop_oneof![3 => Just(0u64), 1 => Just(5u64), 1 => Just(600u64)])
            .prop_map(|(code, delay_ms)| Policy::Answer { code, delay_ms }),
        1 => Just(Policy::TakeDrop),
    ]
    .boxed()
}

fn spec_strategy() -> BoxedStrategy<Spec> {
    prop::collection::vec(policy_strategy(), METHODS.len())
        .prop_map(|table| Spec { table })
        .boxed()
}

pub fn strategy() -> BoxedStrategy<Case> {
    let req = (
        prop_oneof![3 => Just(0u64), 2 => Just(1u64), 1 => Just(3u64), 1 => Just(700u64), 1 => Just(2100u64)],
        prop_oneof![
            4 => Just(Kind::OutOfDialog),
            4 => Just(Kind::InDialog),
            2 => Just(Kind::UnknownDialog),
            1 => Just(Kind::Ack),
            1 => Just(Kind::StrayResponse),
            1 => (0u8..4).prop_map(Kind::Retransmit),
        ],
        0u8..(METHODS.len() as u8),
        prop_oneof![Just(None), Just(Some(250u64)), Just(Some(700u64)), Just(Some(1800u64))],
        prop_oneof![3 => Just(false), 1 => Just(true)],
        // Via list: alone (a directly connected client), or behind one / two proxies; as separate lines or one list
        (prop_oneof![2 => Just(0u8), 1 => Just(1u8), 1 => Just(2u8)], any::<bool>()),
        // copies of the ACK: none, an immediate duplicate, retransmissions inside / outside T4 after the first
        prop_oneof![
            3 => Just(vec![]),
            1 => Just(vec![1u64]),
            1 => Just(vec![400u64]),
            1 => Just(vec![3u64, 1300]),
            1 => Just(vec![3000u64]),
        ],
        // retransmissions of the request by the peer: none, one, the first two / three of its retransmission timer,
        // a quick duplicate plus a late one
        prop_oneof![
            5 => Just(vec![]),
            1 => Just(vec![500u64]),
            2 => Just(vec![500u64, 1500]),
            2 => Just(vec![500u64, 1500, 3500]),
            1 => Just(vec![2u64, 900]),
        ],
    )
        .prop_map(|(gap, kind, method, ack_after, legacy_branch, (via_hops, via_csv), ack_copies, copies)| Req { gap, kind, method, ack_after, cseq_offset: None, legacy_branch, via_hops, via_csv, ack_copies, copies });
    (
        prop_oneof![3 => Just(false), 1 => Just(true)],
        prop::collection::vec(spec_strategy(), 1..5),
        prop::option::weighted(0.7, 0u8..5),
        prop::collection::vec(spec_strategy(), 0..3),
        any::<bool>(),
        prop::collection::vec(req, 1..5),
        any::<u8>(),
        any::<bool>(),
        // the transport refuses one of the first eight sends of the case
        prop_oneof![2 => Just(vec![]), 1 => (0u8..8).prop_map(|k| vec![k])],
    )
        .prop_map(|(reliable, layers, dialog_layer_pos, usages, invite_layer, mut requests, rng, uas_tags, fail_sends)| {
            if reliable {
                // over a reliable transport the peer sends nothing twice
                for r in requests.iter_mut() {
                    r.copies.clear();
                }
            }
            Case {
                reliable,
                dialog_layer_pos: dialog_layer_pos.map(|p| p % (layers.len() as u8 + 1)),
                layers,
                usages,
                invite_layer,
                requests,
                rng,
                uas_tags,
                fail_sends,
            }
        })
        .boxed()
}

// ---------------------------------------------------------------------------------------------
// world pieces

struct PolicyUsage {
    index: usize,
    rec: Recorder,
    table: BTreeMap<String, Policy>,
    tag_responses: bool,
}

#[async_trait::async_trait]
impl Usage for PolicyUsage {
    fn name(&self) -> &'static str {
        "policy-usage"
    }
    async fn receive(&self, endpoint: &Endpoint, request: MayTake<'_, IncomingRequest>) {
        // same semantics as PolicyLayer
        let layer = PolicyLayer {
            index: self.index,
            rec: self.rec.clone(),
            table: self.table.clone(),
            tag_responses: self.tag_responses,
        };
        layer.receive(endpoint, request).await;
    }
}

#[derive(Default)]
struct Shared {
    dialog: Option<Dialog>,
    guards: Vec<UsageGuard>,
    local_tag: Option<String>,
}

struct SetupLayer {
    shared: Arc<Mutex<Shared>>,
    dialog_layer: Arc<Mutex<Option<LayerKey<DialogLayer>>>>,
    usages: Vec<Spec>,
    rec: Recorder,
    tag_responses: bool,
}

#[async_trait::async_trait]
impl Layer for SetupLayer {
    fn name(&self) -> &'static str {
        "setup"
    }
    async fn receive(&self, endpoint: &Endpoint, request: MayTake<'_, IncomingRequest>) {
        let is_setup = request
            .headers
            .iter()
            .any(|(n, _)| n.as_print_str().eq_ignore_ascii_case("x-setup"));
        if !is_setup {
            return;
        }
        let Some(key) = *self.dialog_layer.lock() else { return };
        let contact_uri: SipUri = "sip:uas@10.0.0.1".parse().unwrap();
        let contact = Contact::new(NameAddr::uri(contact_uri));
        if let Ok(dialog) = Dialog::new_server(endpoint.clone(), key, &request, contact) {
            let mut shared = self.shared.lock();
            shared.local_tag = dialog.local_fromto.tag.as_ref().map(|t| t.to_string());
            for (i, u) in self.usages.iter().enumerate() {
                let g = dialog.register_usage(PolicyUsage {
                    index: 100 + i,
                    rec: self.rec.clone(),
                    table: table_of(u),
                    tag_responses: self.tag_responses,
                });
                shared.guards.push(g);
            }
            shared.dialog = Some(dialog);
        }
        drop(request.take());
    }
}

fn table_of(s: &Spec) -> BTreeMap<String, Policy> {
    let mut t = BTreeMap::new();
    for (i, m) in METHODS.iter().enumerate() {
        t.insert(m.to_string(), s.table.get(i).copied().unwrap_or(Policy::Ignore));
    }
    t.insert("ACK".to_string(), Policy::Inspect);
    t
}

#[derive(Debug, Clone)]
enum Slot {
    Policy(usize),
    Dialog,
    Invite,
}

fn stack_of(case: &Case) -> Vec<Slot> {
    let mut stack: Vec<Slot> = (0..case.layers.len()).map(Slot::Policy).collect();
    if let Some(p) = case.dialog_layer_pos {
        stack.insert((p as usize).min(stack.len()), Slot::Dialog);
    }
    if case.invite_layer {
        stack.push(Slot::Invite);
    }
    stack
}

/// What the reference expects for one request
#[derive(Debug, Clone, PartialEq)]
struct Expect {
    /// final status, None = no answer at all
    code: Option<u16>,
    delay: u64,
    /// layers / usages (by recorder index) that must have seen it, in order
    seen_by: Vec<usize>,
    by_stack: bool,
}

fn expect_for(case: &Case, kind: Kind, method: &str, have_dialog: bool) -> Expect {
    let mi = METHODS.iter().position(|m| *m == method);
    let pol = |s: &Spec| -> Policy {
        if method == "ACK" {
            Policy::Inspect
        } else {
            mi.and_then(|i| s.table.get(i).copied()).unwrap_or(Policy::Ignore)
        }
    };
    let mut seen_by = vec![];
    for slot in stack_of(case) {
        match slot {
            Slot::Policy(i) => match pol(&case.layers[i]) {
                Policy::Ignore => {}
                Policy::Inspect => seen_by.push(i),
                Policy::Answer { code, delay_ms } => {
                    seen_by.push(i);
                    return Expect { code: Some(code), delay: delay_ms, seen_by, by_stack: false };
                }
                Policy::TakeDrop => {
                    seen_by.push(i);
                    return Expect { code: None, delay: 0, seen_by, by_stack: false };
                }
            },
            Slot::Dialog => {
                if kind == Kind::InDialog && have_dialog {
                    for (ui, u) in case.usages.iter().enumerate() {
                        match pol(u) {
                            Policy::Ignore => {}
                            Policy::Inspect => seen_by.push(100 + ui),
                            Policy::Answer { code, delay_ms } => {
                                seen_by.push(100 + ui);
                                return Expect { code: Some(code), delay: delay_ms, seen_by, by_stack: false };
                            }
                            Policy::TakeDrop => {
                                seen_by.push(100 + ui);
                                return Expect { code: None, delay: 0, seen_by, by_stack: false };
                            }
                        }
                    }
                    return Expect {
                        code: if method == "ACK" { None } else { Some(404) },
                        delay: 0,
                        seen_by,
                        by_stack: true,
                    };
                }
            }
            Slot::Invite => {}
        }
    }
    Expect {
        code: if method == "ACK" { None } else { Some(481) },
        delay: 0,
        seen_by,
        by_stack: true,
    }
}

fn reaches_dialog(case: &Case, method: &str) -> bool {
    let mi = METHODS.iter().position(|m| *m == method);
    for slot in stack_of(case) {
        match slot {
            Slot::Policy(i) => {
                let p = mi.and_then(|m| case.layers[i].table.get(m).copied()).unwrap_or(Policy::Ignore);
                if matches!(p, Policy::Answer { .. } | Policy::TakeDrop) {
                    return false;
                }
            }
            Slot::Dialog => return true,
            Slot::Invite => {}
        }
    }
    false
}

struct Sent1 {
    t_ms: u64,
    marker: String,
    bytes: Vec<u8>,
    branch: String,
    cseq: u32,
    method: String,
    kind: Kind,
    is_copy: bool,
    ack_at: Option<u64>,
    /// instants of the further copies of the ACK
    ack_copies_at: Vec<u64>,
    /// (sent-by, branch) of every Via value of the request, top first
    vias: Vec<(String, String)>,
}

/// (sent-by, branch) of one Via value as found on the wire
fn via_id(v: &str) -> (String, String) {
    let sent_by = v.split_whitespace().nth(1).unwrap_or("").split(';').next().unwrap_or("").trim().to_string();
    (sent_by, wire::param_of(v, "branch").unwrap_or_default())
}

/// the request (by index into `sent`) a response on the wire belongs to: the one whose top-Via branch appears
/// anywhere in the response's Via list (every branch of a case is unique) and whose CSeq number it carries
fn belongs_to(m: &WireMsg, s: &Sent1) -> bool {
    !m.is_request() && m.cseq().map(|c| c.0) == Some(s.cseq) && m.list_values("via").iter().any(|v| via_id(v).1 == s.branch)
}

pub struct Observed {
    wire: Vec<(Sent, Option<WireMsg>)>,
    seen: Vec<Seen>,
    sent: Vec<Sent1>,
    have_dialog: bool,
    /// messages the transport refused to take (send-fault plan), in call order
    refused: Vec<(Sent, Option<WireMsg>)>,
}

pub fn run(case: &Case) -> Observed {
    let case = case.clone();
    run_world(case.rng as u64, |clock| async move {
        let log = WireLog::new(clock);
        // (the datagram transport of the C12 world: like `mock_datagram`, plus a send-fault plan that keeps the
        // refused bytes, so that the oracle knows whose response the transport would not take)
        let plan: Arc<Mutex<super::c12::SendPlan>> = Default::default();
        plan.lock().fail = case.fail_sends.iter().map(|n| *n as usize).collect();
        let tp = sip_core::transport::TpHandle::new(super::c12::PlanDatagram {
            reliable: case.reliable,
            bound: "10.0.0.1:5060".parse().unwrap(),
            log: log.clone(),
            delay_ms: 0,
            plan: plan.clone(),
        });
        let rec = Recorder::new(clock);
        let shared: Arc<Mutex<Shared>> = Default::default();
        let dl_key: Arc<Mutex<Option<LayerKey<DialogLayer>>>> = Default::default();
        let mut b = offline_builder();
        b.add_layer(SetupLayer {
            shared: shared.clone(),
            dialog_layer: dl_key.clone(),
            usages: case.usages.clone(),
            rec: rec.clone(),
            tag_responses: case.uas_tags,
        });
        for slot in stack_of(&case) {
            match slot {
                Slot::Policy(i) => {
                    b.add_layer(PolicyLayer { index: i, rec: rec.clone(), table: table_of(&case.layers[i]), tag_responses: case.uas_tags });
                }
                Slot::Dialog => {
                    let k = b.add_layer(DialogLayer::default());
                    *dl_key.lock() = Some(k);
                }
                Slot::Invite => {
                    b.add_layer(InviteLayer::default());
                }
            }
        }
        let endpoint = b.build();
        let peer: SocketAddr = "192.0.2.9:5060".parse().unwrap();

        // dialog setup (taken and dropped by the setup layer, never answered)
        let mut have_dialog = false;
        if case.dialog_layer_pos.is_some() {
            let setup = request_text(
                "INVITE",
                "sip:uas@10.0.0.1",
                &["SIP/2.0/UDP 192.0.2.9:5060;branch=z9hG4bKsetup".into()],
                "<sip:peer@192.0.2.9>;tag=peertag",
                "<sip:uas@10.0.0.1>",
                "c08-dialog",
                10,
                "INVITE",
                &["Contact: <sip:peer@192.0.2.9>".into(), "X-Setup: 1".into()],
                b"",
            );
            inject(&endpoint, &tp, peer, &setup);
            settle().await;
            have_dialog = shared.lock().dialog.is_some();
        }
        let local_tag = shared.lock().local_tag.clone().unwrap_or_else(|| "none".into());

        let mut sent: Vec<Sent1> = vec![];
        // (time, order, bytes, for an ACK: branch of the INVITE whose final response supplies the To header)
        let mut events: Vec<(u64, usize, Vec<u8>, Option<String>)> = vec![];
        let mut t = 5u64;
        let mut dialog_cseq = 10u32;
        for (i, r) in case.requests.iter().enumerate() {
            t += r.gap;
            let marker = format!("q{i}");
            let method = METHODS[r.method as usize % METHODS.len()];
            let branch = if r.legacy_branch { format!("c08legacy{i}") } else { format!("z9hG4bKc08x{i}") };
            // the Via list as the last hop sent it: its own value on top, below it the values of the hops before
            // it (another proxy, the originating client), each with its own branch
            let mut via_values = vec![format!("SIP/2.0/UDP 192.0.2.9:5060;branch={branch}")];
            for h in 0..r.via_hops.min(2) {
                via_values.push(format!("SIP/2.0/UDP 198.51.100.{}:5062;branch=z9hG4bKc08x{i}hop{h}", 7 + h));
            }
            let via = if r.via_csv { vec![via_values.join(", ")] } else { via_values.clone() };
            let (bytes, method_s, cseq, is_copy, kind) = match r.kind {
                Kind::Retransmit(k) if !sent.is_empty() => {
                    let src = &sent[k as usize % sent.len()];
                    if src.method == "RESPONSE" {
                        continue;
                    }
                    (src.bytes.clone(), src.method.clone(), src.cseq, true, src.kind)
                }
                Kind::Retransmit(_) => continue,
                Kind::StrayResponse => {
                    let s = format!(
                        "SIP/2.0 200 OK\r\nVia: SIP/2.0/UDP 10.0.0.1:5060;branch=z9hG4bKstray{i}\r\nFrom: <sip:uas@10.0.0.1>;tag=a\r\nTo: <sip:peer@192.0.2.9>;tag=b\r\nCall-ID: stray{i}\r\nCSeq: 3 {method}\r\nX-Seq: {marker}\r\nContent-Length: 0\r\n\r\n"
                    );
                    (s.into_bytes(), "RESPONSE".to_string(), 3, false, r.kind)
                }
                Kind::Ack => (
                    request_text("ACK", "sip:uas@10.0.0.1", &via, "<sip:peer@192.0.2.9>;tag=peertag", "<sip:uas@10.0.0.1>;tag=whatever", &format!("c08-ood-{i}"), 1, "ACK", &[format!("X-Seq: {marker}")], b""),
                    "ACK".to_string(),
                    1,
                    false,
                    r.kind,
                ),
                Kind::OutOfDialog => (
                    request_text(method, "sip:uas@10.0.0.1", &via, "<sip:peer@192.0.2.9>;tag=peertag", "<sip:uas@10.0.0.1>", &format!("c08-ood-{i}"), 1, method, &[format!("X-Seq: {marker}"), "Contact: <sip:peer@192.0.2.9>".into()], b""),
                    method.to_string(),
                    1,
                    false,
                    r.kind,
                ),
                Kind::InDialog | Kind::UnknownDialog => {
                    let in_dialog = r.kind == Kind::InDialog && have_dialog;
                    let cseq = if let (true, Some(off)) = (in_dialog, r.cseq_offset) {
                        10 + off as u32
                    } else if in_dialog {
                        // only requests that reach the dialog layer consume a CSeq of the dialog
                        // (a layer in front of it that takes the request would otherwise leave a gap)
                        if reaches_dialog(&case, method) {
                            dialog_cseq += 1;
                            dialog_cseq
                        } else {
                            // never reaches the dialog: any number does; keep it unique per request so that two
                            // cookie-less requests are not each other's retransmission under RFC 2543 matching
                            500 + i as u32
                        }
                    } else {
                        7
                    };
                    let (call_id, to_tag) = if in_dialog {
                        ("c08-dialog".to_string(), local_tag.clone())
                    } else {
                        (format!("c08-unknown-{i}"), "nosuchtag".to_string())
                    };
                    (
                        request_text(method, "sip:uas@10.0.0.1", &via, "<sip:peer@192.0.2.9>;tag=peertag", &format!("<sip:uas@10.0.0.1>;tag={to_tag}"), &call_id, cseq, method, &[format!("X-Seq: {marker}"), "Contact: <sip:peer@192.0.2.9>".into()], b""),
                        method.to_string(),
                        cseq,
                        false,
                        if in_dialog { Kind::InDialog } else { Kind::UnknownDialog },
                    )
                }
            };
            let (marker, branch) = if is_copy {
                let src = &sent[match r.kind { Kind::Retransmit(k) => k as usize % sent.len(), _ => 0 }];
                (src.marker.clone(), src.branch.clone())
            } else {
                (marker, if method_s == "RESPONSE" { format!("z9hG4bKstray{i}") } else { branch })
            };
            let ack_at = if method_s == "INVITE" && !is_copy { r.ack_after.map(|a| t + a) } else { None };
            let ack_copies_at: Vec<u64> = ack_at.map_or(vec![], |a| r.ack_copies.iter().map(|d| a + d).collect());
            let vias: Vec<(String, String)> = WireMsg::parse(&bytes).map_or(vec![], |m| m.list_values("via").iter().map(|v| via_id(v)).collect());
            events.push((t, events.len(), bytes.clone(), None));
            if let Some(a) = ack_at {
                // ACK for a non-2xx as RFC 3261 17.1.1.3 builds it: Request-URI, top Via, From, Call-ID and CSeq
                // number of the INVITE; the To header is copied from the response when the ACK goes out
                let inv = WireMsg::parse(&bytes).expect("own request");
                let ack = request_text(
                    "ACK",
                    "sip:uas@10.0.0.1",
                    &[format!("SIP/2.0/UDP 192.0.2.9:5060;branch={branch}")],
                    inv.header("from").unwrap_or(""),
                    "@TO@",
                    inv.header("call-id").unwrap_or(""),
                    cseq,
                    "ACK",
                    &[format!("X-Seq: ack-{marker}")],
                    b"",
                );
                events.push((a, events.len(), ack.clone(), Some(branch.clone())));
                for c in &ack_copies_at {
                    events.push((*c, events.len(), ack.clone(), Some(branch.clone())));
                }
            }
            let copies_at: Vec<u64> = if is_copy || method_s == "RESPONSE" || method_s == "ACK" { vec![] } else { r.copies.iter().map(|d| t + d).collect() };
            sent.push(Sent1 { t_ms: t, marker: marker.clone(), bytes: bytes.clone(), branch: branch.clone(), cseq, method: method_s.clone(), kind, is_copy, ack_at, ack_copies_at, vias: vias.clone() });
            for c in copies_at {
                events.push((c, events.len(), bytes.clone(), None));
                sent.push(Sent1 { t_ms: c, marker: marker.clone(), bytes: bytes.clone(), branch: branch.clone(), cseq, method: method_s.clone(), kind, is_copy: true, ack_at: None, ack_copies_at: vec![], vias: vias.clone() });
            }
        }
        events.sort_by_key(|e| (e.0, e.1));
        for (t, _, mut bytes, ack_for) in events {
            clock.until(t).await;
            if let Some(branch) = ack_for {
                let to = log
                    .parsed()
                    .into_iter()
                    .filter_map(|(_, m)| m)
                    .find(|m| !m.is_request() && m.status().unwrap_or(0) >= 200 && m.via_branch().as_deref() == Some(branch.as_str()))
                    .and_then(|m| m.header("to").map(str::to_string))
                    .unwrap_or_else(|| "<sip:uas@10.0.0.1>".to_string());
                bytes = String::from_utf8(bytes).expect("ascii").replace("@TO@", &to).into_bytes();
            }
            inject(&endpoint, &tp, peer, &bytes);
            settle().await;
        }
        clock.advance(4000).await;
        settle().await;
        let _ = Duration::from_secs(0);
        let refused = plan.lock().refused.iter().map(|s| (s.clone(), WireMsg::parse(&s.bytes))).collect();
        let out = Observed { wire: log.parsed(), seen: rec.snapshot(), sent, have_dialog, refused };
        // keep dialog + guards alive until here
        drop(shared);
        out
    })
}

pub fn check(case: &Case, out: &mut CaseOut) {
    let obs = run(case);
    let stack = stack_of(case);
    out.class(if case.reliable { "reliable" } else { "unreliable" });
    if case.dialog_layer_pos.is_some() {
        out.class("with-dialog-layer");
    }
    let horizon_note: Vec<String> = obs
        .wire
        .iter()
        .map(|(s, m)| format!("{}ms:{}", s.t_ms, m.as_ref().map(|m| m.start.clone()).unwrap_or_default()))
        .collect();
    out.note = Some(format!("stack={stack:?} wire={horizon_note:?}"));

    let mut nontrivial = false;
    let mut overlapping = 0;
    let end_t = obs.sent.iter().map(|s| s.t_ms).max().unwrap_or(0) + 4000;

    for (idx, s) in obs.sent.iter().enumerate() {
        if s.is_copy {
            continue;
        }
        // all responses on the wire for this (branch, cseq)
        let responses: Vec<(&Sent, &WireMsg)> = obs
            .wire
            .iter()
            .filter_map(|(w, m)| m.as_ref().map(|m| (w, m)))
            .filter(|(_, m)| belongs_to(m, s))
            .collect();
        // ---- a response matches its request: same top-Via branch, and the Via values below it as received ----
        if s.method != "RESPONSE" {
            if responses.iter().any(|(_, m)| m.via_branch().as_deref() != Some(s.branch.as_str())) {
                out.fail(
                    "c08.answer/top-via-is-not-the-requests",
                    format!("{} {} ({:?}) came with Via {:?}, its response carries {:?}", s.marker, s.method, s.kind, s.vias, responses[0].1.list_values("via")),
                );
            } else if let Some((_, m)) = responses.iter().find(|(_, m)| m.list_values("via").iter().map(|v| via_id(v)).collect::<Vec<_>>() != s.vias) {
                out.fail(
                    "c08.answer/via-list-not-mirrored",
                    format!("{} {} ({:?}) came with Via {:?}, its response carries {:?}", s.marker, s.method, s.kind, s.vias, m.list_values("via")),
                );
            }
            if s.vias.len() > 1 && !responses.is_empty() {
                out.class(if s.method == "INVITE" { "answered INVITE that came through proxies (several Via)" } else { "answered non-INVITE that came through proxies (several Via)" });
            }
        }
        if s.method == "RESPONSE" {
            if !responses.is_empty() {
                out.fail("c08.answer/stray-response-answered", format!("stray response {} produced output", s.marker));
            }
            continue;
        }
        let exp = expect_for(case, s.kind, &s.method, obs.have_dialog);
        // ---- layers consulted, in registration order ----
        let seen_by: Vec<usize> = obs
            .seen
            .iter()
            .filter(|x| x.marker.as_deref() == Some(s.marker.as_str()) && x.t_ms == s.t_ms)
            .map(|x| x.layer)
            .collect();
        let copies_before_end = obs.sent.iter().filter(|c| c.is_copy && c.marker == s.marker).count();
        if copies_before_end == 0 && seen_by != exp.seen_by {
            out.fail(
                if seen_by.len() < exp.seen_by.len() { "c08.layers/hidden-from-later-layer" } else { "c08.layers/order-or-extra" },
                format!("{} {} ({:?}): consulted layers {:?}, expected {:?}", s.marker, s.method, s.kind, seen_by, exp.seen_by),
            );
        }
        if exp.seen_by.len() >= 2 || (exp.by_stack && !exp.seen_by.is_empty()) {
            nontrivial = true;
            out.class("inspected-then-passed-on");
        }
        if s.kind == Kind::InDialog && exp.by_stack {
            nontrivial = true;
            out.class("in-dialog-falls-through-usages");
        }
        if obs.sent.iter().enumerate().any(|(j, o)| j != idx && o.t_ms.abs_diff(s.t_ms) <= 5 + exp.delay) {
            overlapping += 1;
        }

        // ---- the answer ----
        let finals: Vec<&(&Sent, &WireMsg)> = responses.iter().filter(|(_, m)| m.status().unwrap_or(0) >= 200).collect();
        let provisionals = responses.len() - finals.len();
        if provisionals > 0 {
            out.fail("c08.answer/unexpected-provisional", format!("{} got {provisionals} provisional responses nobody sent", s.marker));
        }
        match exp.code {
            None => {
                if !finals.is_empty() {
                    out.fail(
                        if s.method == "ACK" { "c08.answer/ack-answered".to_string() } else { "c08.answer/answered-although-dropped".to_string() },
                        format!("{} {} must not be answered, got {:?}", s.marker, s.method, finals.iter().map(|(_, m)| m.status()).collect::<Vec<_>>()),
                    );
                }
            }
            Some(code) => {
                let answer_due = s.t_ms + exp.delay;
                if answer_due >= end_t {
                    continue;
                }
                let mut distinct: Vec<&[u8]> = finals.iter().map(|(w, _)| &w.bytes[..]).collect();
                distinct.sort();
                distinct.dedup();
                let who = if exp.by_stack { "stack" } else { "layer" };
                // transmissions of THIS request's response the transport refused (send-fault plan)
                let refused_mine: Vec<u64> = obs.refused.iter().filter(|(_, m)| m.as_ref().map_or(false, |m| belongs_to(m, s))).map(|(w, _)| w.t_ms).collect();
                let first_out = finals.first().map_or(false, |f| f.0.t_ms == answer_due);
                if !refused_mine.is_empty() {
                    out.class("transport refused a send");
                    if !first_out {
                        // the answer itself was refused: the stack decided and tried, the responding call reported the
                        // error; what a refused datagram means for this request is outside the statement
                        out.class("own answer refused by the transport (excused)");
                        if distinct.len() > 1 {
                            out.fail("c08.answer/two-different-finals", format!("{} got {} different final responses", s.marker, distinct.len()));
                        }
                        continue;
                    }
                }
                let disturbed = !refused_mine.is_empty();
                // ---- a retransmission of an answered request is absorbed by its server transaction ----
                // While the server transaction of an answered request lives (non-INVITE over an unreliable transport:
                // 64*T1 from the final response; rejected INVITE: until the ACK) a byte-identical copy of the request
                // does not start a new server transaction: it is not handed to the layers / usages a second time (and
                // so cannot be claimed and answered a second time). A refused RE-send of the answer does not change
                // that for a non-INVITE request; for a rejected INVITE ezk ends the transaction there (not asserted).
                if !case.reliable && first_out {
                    let alive_until = if s.method != "INVITE" {
                        Some(answer_due + ref_tsx::TIMEOUT)
                    } else if code >= 300 {
                        Some(s.ack_at.unwrap_or(u64::MAX).min(answer_due + ref_tsx::TIMEOUT))
                    } else {
                        None
                    };
                    if let Some(until) = alive_until {
                        let copies_in: Vec<u64> = obs.sent.iter().filter(|c| c.is_copy && c.marker == s.marker && c.t_ms > answer_due && c.t_ms < until).map(|c| c.t_ms).collect();
                        let mut again: Vec<u64> = obs.seen.iter().filter(|x| x.marker.as_deref() == Some(s.marker.as_str()) && x.t_ms > answer_due && x.t_ms < until).map(|x| x.t_ms).collect();
                        again.dedup();
                        if copies_in.len() >= 2 {
                            nontrivial = true;
                            out.class(if disturbed { "answered request retransmitted >= 2 times, a re-send of its answer refused" } else { "answered request retransmitted >= 2 times" });
                        }
                        if !again.is_empty() {
                            if s.method == "INVITE" && disturbed {
                                out.class("rejected INVITE: refused re-send ended the transaction, next copy is a new request (not asserted)");
                            } else {
                                out.fail(
                                    format!("c08.retransmission/{}-handed-to-the-layers-again{}", if s.method == "INVITE" { "invite" } else { "non-invite" }, if disturbed { "-after-a-refused-re-send" } else { "" }),
                                    format!("{} {} ({:?}) answered {code} at {answer_due} ms; copies of it arrived at {copies_in:?} (refused re-sends at {refused_mine:?}): the layers / usages were handed the request again at {again:?} although its server transaction still had to absorb retransmissions", s.marker, s.method, s.kind),
                                );
                            }
                        }
                    }
                }
                if finals.is_empty() {
                    out.fail(format!("c08.answer/none-{who}-{}", if s.method == "INVITE" { "invite" } else { "non-invite" }), format!("{} {} ({:?}) got no final response, expected {code}", s.marker, s.method, s.kind));
                    continue;
                }
                if distinct.len() != 1 {
                    out.fail("c08.answer/two-different-finals", format!("{} got {} different final responses", s.marker, distinct.len()));
                }
                let got = finals[0].1.status().unwrap_or(0);
                if got != code {
                    out.fail(
                        format!("c08.answer/wrong-code-{who}"),
                        format!("{} {} ({:?}) answered {got}, expected {code} (stack {:?})", s.marker, s.method, s.kind, stack),
                    );
                }
                if finals[0].0.t_ms != answer_due {
                    out.fail(format!("c08.answer/late-{who}"), format!("{} first final at {} ms, expected {answer_due}", s.marker, finals[0].0.t_ms));
                }
                // INVITE rejections go through an INVITE server transaction: retransmitted until ACKed
                if s.method == "INVITE" && code >= 300 && !case.reliable {
                    let stop = s.ack_at.unwrap_or(u64::MAX).min(end_t);
                    let mut want = vec![answer_due];
                    for g in ref_tsx::server_inv_timer_g_schedule() {
                        if answer_due + g < stop {
                            want.push(answer_due + g);
                        }
                    }
                    // copies of the INVITE arriving while the transaction lives are answered at once
                    for c in obs.sent.iter().filter(|c| c.is_copy && c.marker == s.marker && c.t_ms > answer_due && c.t_ms < stop) {
                        want.push(c.t_ms);
                    }
                    want.sort();
                    let ties = disturbed
                        || want.windows(2).any(|w| w[0] == w[1])
                        || s.ack_at.map_or(false, |a| want.contains(&a) || a <= answer_due)
                        || obs.sent.iter().any(|c| c.is_copy && c.marker == s.marker && (c.t_ms <= answer_due || c.t_ms >= stop));
                    let got_t: Vec<u64> = finals.iter().map(|(w, _)| w.t_ms).filter(|t| *t < end_t).collect();
                    let on_ack_copy: Vec<u64> = got_t.iter().copied().filter(|t| s.ack_copies_at.contains(t)).collect();
                    if !ties && !on_ack_copy.is_empty() {
                        // the first ACK ended the retransmission; a further copy of the ACK is an ACK: never answered
                        out.fail(
                            format!("c08.invite-rejection/{who}-copy-of-the-ack-answered"),
                            format!("{} INVITE rejected {code}, ACK at {:?}, copies of the ACK at {:?}: rejection sent again at {on_ack_copy:?} (all transmissions {got_t:?})", s.marker, s.ack_at, s.ack_copies_at),
                        );
                    } else if !ties && got_t != want {
                        out.fail(
                            format!("c08.invite-rejection/{who}-not-retransmitted-until-ack"),
                            format!("{} INVITE rejected {code}: transmissions at {got_t:?}, expected {want:?} (ACK at {:?})", s.marker, s.ack_at),
                        );
                    }
                    if want.len() > 1 {
                        out.class("invite-rejection-retransmitted");
                    }
                    if !ties && s.ack_copies_at.iter().any(|c| *c < end_t) {
                        out.class("rejected INVITE: ACK arrives more than once");
                    }
                }
                // non-INVITE / reliable: exactly the first copy plus one per retransmitted request
                if (s.method != "INVITE" || case.reliable) && copies_before_end == 0 && !disturbed && finals.len() != 1 {
                    out.fail("c08.answer/sent-more-than-once", format!("{} final response sent {} times", s.marker, finals.len()));
                }
            }
        }
    }
    // nothing else on the wire: every message is a response to one of our requests
    for (w, m) in &obs.wire {
        match m {
            Some(m) if !m.is_request() => {
                let known = obs.sent.iter().any(|s| m.list_values("via").iter().any(|v| via_id(v).1 == s.branch));
                if !known {
                    out.fail("c08.wire/response-to-unknown-request", format!("response {:?} at {} ms matches no request", m.start, w.t_ms));
                }
            }
            _ => out.fail("c08.wire/unexpected-message", format!("unexpected message at {} ms", w.t_ms)),
        }
    }
    if overlapping >= 2 {
        nontrivial = true;
        out.class("concurrent-requests");
    }
    if obs.sent.iter().any(|s| s.method == "ACK") {
        out.class("ack");
    }
    if obs.sent.iter().any(|s| s.method == "RESPONSE") {
        out.class("stray-response");
    }
    if nontrivial {
        out.nontrivial(case);
    }
}

// ---------------------------------------------------------------------------------------------
// in-dialog requests that arrive out of CSeq order and that no usage wants: each still gets its one 404

pub fn reordered_cases(_tier: Tier) -> Vec<Case> {
    fn perms(items: &[u8]) -> Vec<Vec<u8>> {
        if items.len() <= 1 {
            return vec![items.to_vec()];
        }
        let mut out = vec![];
        for i in 0..items.len() {
            let mut rest = items.to_vec();
            let x = rest.remove(i);
            for mut p in perms(&rest) {
                p.insert(0, x);
                out.push(p);
            }
        }
        out
    }
    let mut out = vec![];
    for n in 2..=4u8 {
        for order in perms(&(1..=n).collect::<Vec<u8>>()) {
            for method in [1u8, 5] {
                out.push(Case {
                    reliable: false,
                    layers: vec![Spec { table: vec![Policy::Inspect; METHODS.len()] }],
                    dialog_layer_pos: Some(1),
                    usages: vec![],
                    invite_layer: true,
                    requests: order.iter().map(|o| Req { gap: 1, kind: Kind::InDialog, method, ack_after: None, cseq_offset: Some(*o), legacy_branch: false, via_hops: 0, via_csv: false, ack_copies: vec![], copies: vec![] }).collect(),
                    rng: n,
                    uas_tags: false,
                    fail_sends: vec![],
                });
            }
        }
    }
    // MANY requests waiting behind a gap in the peer's CSeq sequence at once (the expected one is delayed): up to 200,
    // in descending order / ascending behind the gap / upper half ascending then lower half descending / even
    // numbers descending then odd ones ascending; the delayed request arrives last. Both reliabilities.
    for &n in &[8u8, 33, 63, 64, 65, 66, 67, 80, 130, 200] {
        let all: Vec<u8> = (1..=n).collect();
        let orders: Vec<Vec<u8>> = vec![
            all.iter().rev().copied().collect(),
            all[1..].iter().copied().chain([1]).collect(),
            all[(n as usize / 2)..].iter().copied().chain(all[1..(n as usize / 2)].iter().rev().copied()).chain([1]).collect(),
            all.iter().rev().copied().filter(|x| x % 2 == 0).chain(all.iter().copied().filter(|x| x % 2 == 1 && *x > 1)).chain([1]).collect(),
        ];
        for (oi, order) in orders.into_iter().enumerate() {
            for reliable in [false, true] {
                out.push(Case {
                    reliable,
                    layers: vec![Spec { table: vec![Policy::Inspect; METHODS.len()] }],
                    dialog_layer_pos: Some(1),
                    usages: vec![],
                    invite_layer: true,
                    requests: order.iter().map(|o| Req { gap: 1, kind: Kind::InDialog, method: if oi % 2 == 0 { 1 } else { 5 }, ack_after: None, cseq_offset: Some(*o), legacy_branch: false, via_hops: 0, via_csv: false, ack_copies: vec![], copies: vec![] }).collect(),
                    rng: n.wrapping_add(oi as u8),
                    uas_tags: false,
                    fail_sends: vec![],
                });
            }
        }
    }
    out
}

pub fn check_reordered(case: &Case, out: &mut CaseOut) {
    let obs = run(case);
    for s in &obs.sent {
        let finals: Vec<u16> = obs
            .wire
            .iter()
            .filter_map(|(_, m)| m.as_ref())
            .filter(|m| !m.is_request() && m.via_branch().as_deref() == Some(s.branch.as_str()) && m.cseq().map(|c| c.0) == Some(s.cseq))
            .filter_map(|m| m.status())
            .filter(|c| *c >= 200)
            .collect();
        if finals.is_empty() {
            out.fail("c08.reordered/unanswered", format!("in-dialog {} with CSeq {} (arrival order {:?}) never got a final response", s.method, s.cseq, obs.sent.iter().map(|x| x.cseq).collect::<Vec<_>>()));
        } else if finals != vec![404] {
            out.fail("c08.reordered/wrong-or-multiple-answers", format!("in-dialog {} with CSeq {} answered {finals:?}, expected one 404", s.method, s.cseq));
        }
    }
    let order: Vec<u32> = obs.sent.iter().map(|x| x.cseq).collect();
    if order.windows(2).any(|w| w[0] > w[1]) {
        out.class("arrival-out-of-cseq-order");
        out.nontrivial(case);
    }
    // number of requests that wait behind the gap at the same time (the lowest CSeq arrives last in these orders)
    let lowest = order.iter().copied().min().unwrap_or(0);
    let waiting = order.iter().position(|c| *c == lowest).unwrap_or(0);
    if waiting > 64 {
        out.class("more than 64 requests wait behind a CSeq gap");
    } else if waiting > 8 {
        out.class("9..64 requests wait behind a CSeq gap");
    }
    if case.reliable {
        out.class("reliable");
    }
}

// ---------------------------------------------------------------------------------------------
// requests that hit a pending (unanswered) INVITE held by an acceptor: CANCEL and BYE are claimed by the
// invite layer / usage, which answers them AND the INVITE; the 487 is either never ACKed (so it is re-sent on the
// timer-G schedule until 64*T1) or ACKed once / several times (re-sent until the first ACK, never after it). Also: the same histories with the transport refusing exactly one send (the request
// whose own answer was refused is excused, all others keep their claim to one final response) or keeping every
// send pending 2 ms; and PRACKs for a reliable 183 that arrive while the acceptor waits, after it gave up, after the
// application abandoned the call, with another RAck, or twice: one final response each (200 from the usage, else
// 404 / 481 from the stack; which of the two a late PRACK gets is not asserted)

pub fn pending_cases(_tier: Tier) -> Vec<super::c12::Case> {
    use super::c12::{AppOp, Case as C, NetOp};
    let cancel = NetOp::Cancel { branch_ok: true, cseq_ok: true };
    let patterns: Vec<Vec<(u64, NetOp)>> = vec![
        vec![(5, cancel)],
        vec![(5, NetOp::Bye)],
        vec![(5, cancel), (6, NetOp::Bye)],
        vec![(5, NetOp::Bye), (6, cancel)],
        vec![(5, cancel), (700, cancel)],
        vec![(5, NetOp::DupInvite), (6, cancel)],
        vec![(5, NetOp::Cancel { branch_ok: false, cseq_ok: true })],
        vec![(5, NetOp::Cancel { branch_ok: true, cseq_ok: false })],
        vec![(5, cancel), (40_000, NetOp::Bye)],
        // the peer ACKs the 487 (RFC 3261 17.1.1.3), once or several times (a duplicated / retransmitted ACK inside
        // and outside T4 after the first): the ACK ends the retransmission and is itself never answered
        vec![(5, cancel), (300, NetOp::AckFinal)],
        vec![(5, cancel), (300, NetOp::AckFinal), (301, NetOp::AckFinal)],
        vec![(5, cancel), (700, NetOp::AckFinal), (2000, NetOp::AckFinal)],
        vec![(5, NetOp::Bye), (300, NetOp::AckFinal), (4000, NetOp::AckFinal)],
        vec![(5, cancel), (300, NetOp::AckFinal), (9000, NetOp::AckFinal)],
        vec![(5, NetOp::Bye), (1700, NetOp::AckFinal), (1701, NetOp::AckFinal), (1702, NetOp::AckFinal)],
    ];
    let mut out = vec![];
    for (i, net) in patterns.iter().enumerate() {
        for app in [vec![], vec![(1u64, AppOp::Prov180)]] {
            for net_first in [false, true] {
                out.push(C { app: app.clone(), net: net.clone(), net_first, rng: i as u8, ..Default::default() });
            }
            // the same over a transport whose sends stay pending 2 ms (the next request is processed while the
            // answer to the previous one is still being written)
            out.push(C { app: app.clone(), net: net.clone(), net_first: false, rng: i as u8, send_delay_ms: 2, ..Default::default() });
            if net.iter().any(|(_, o)| *o == NetOp::AckFinal) {
                out.push(C { app: app.clone(), net: net.clone(), net_first: false, rng: i as u8, reliable: true, ..Default::default() });
            }
        }
    }
    // the INVITE and the in-dialog requests came through one / two proxies (further Via values below the top one)
    for (i, net) in patterns.iter().enumerate() {
        if [0usize, 1, 2, 5, 9, 12].contains(&i) {
            for (via_hops, app) in [(1u8, vec![]), (2u8, vec![(1u64, AppOp::Prov180)])] {
                out.push(C { app, net: net.clone(), net_first: false, rng: 50 + i as u8, via_hops, ..Default::default() });
            }
        }
    }
    // the transport refuses exactly one send (an io::Error from `Transport::send`, e.g. a pending ICMP error): the
    // request whose own answer was refused is excused, every OTHER request of the history still gets its one
    // final response (the answers to two requests are independent transactions)
    for (i, net) in patterns.iter().take(4).enumerate() {
        for app in [vec![], vec![(1u64, AppOp::Prov180)]] {
            for fault in 0u8..4 {
                for net_first in [false, true] {
                    out.push(C { app: app.clone(), net: net.clone(), net_first, rng: (i as u8) * 4 + fault, fail_sends: vec![fault], ..Default::default() });
                }
            }
        }
    }
    // the peer is an RFC 2543 client (no magic cookie in its Via branches: the CANCEL finds the INVITE by the
    // RFC 2543 rules) and / or the INVITE carries session-timer headers
    for (i, net) in patterns.iter().enumerate() {
        if [0usize, 1, 2, 3, 4, 5, 7, 9, 12].contains(&i) {
            for (legacy_branch, invite_ext) in [(true, 0u8), (false, 3), (true, 4)] {
                for app in [vec![], vec![(1u64, AppOp::Prov180)]] {
                    out.push(C { app, net: net.clone(), net_first: i % 2 == 1, rng: 150 + i as u8, legacy_branch, invite_ext, ..Default::default() });
                }
            }
        }
    }
    // PRACK for a reliable provisional response: the INVITE usage claims and answers the one the acceptor waits
    // for; a PRACK that arrives when nobody waits any more (the acceptor gave up 31*T1 after the 183, or the
    // application abandoned the call after 700 / 3000 ms), one with another RAck, and a second copy with a new
    // branch are requests like any other: one final response each (from the usage, or 404 by the dialog layer)
    let prack = NetOp::Prack { rack_ok: true, cseq_ok: true };
    let other = NetOp::Prack { rack_ok: false, cseq_ok: true };
    let gave_up = 1 + 31 * 500;
    let nets: Vec<Vec<(u64, NetOp)>> = vec![
        vec![(250, prack)],
        vec![(1400, prack)],
        vec![(gave_up - 50, prack)],
        vec![(gave_up + 50, prack)],
        vec![(20_000, prack)],
        vec![(40_000, prack)],
        vec![(20_000, prack), (20_500, prack)],
        vec![(250, other), (20_000, other)],
        vec![(1400, other), (20_000, prack), (20_001, other)],
        vec![(1400, prack), (1401, prack), (20_000, prack)],
        vec![(20_000, prack), (20_010, cancel)],
        vec![(20_000, prack), (20_010, NetOp::Bye)],
        vec![(5, NetOp::Bye), (20_000, prack)],
        vec![(5, cancel), (20_000, prack)],
    ];
    for (i, net) in nets.iter().enumerate() {
        for op in [AppOp::Rel183, AppOp::Rel183Abandon(700), AppOp::Rel183Abandon(3000)] {
            out.push(C { app: vec![(1, op)], net: net.clone(), net_first: false, rng: 100 + i as u8, ..Default::default() });
        }
        out.push(C { app: vec![(1, AppOp::Rel183)], net: net.clone(), net_first: false, rng: 100 + i as u8, send_delay_ms: 2, ..Default::default() });
        out.push(C { app: vec![(1, AppOp::Rel183)], net: net.clone(), net_first: false, rng: 100 + i as u8, reliable: true, ..Default::default() });
        if i % 4 == 0 {
            out.push(C { app: vec![(1, AppOp::Rel183)], net: net.clone(), net_first: false, rng: 100 + i as u8, via_hops: 1 + (i as u8 / 4) % 2, ..Default::default() });
        }
    }
    out
}

pub fn check_pending(case: &super::c12::Case, out: &mut CaseOut) {
    use super::c12::NetOp;
    let last = case.net.iter().map(|n| n.0).max().unwrap_or(0);
    let obs = super::c12::run(case, last + 80_000);
    // every request the peer sent, by top-Via branch
    let ib = super::c12::inv_branch(case);
    let mut branches: Vec<(String, String, u64)> = vec![(ib.clone(), "INVITE".into(), 0)];
    let mut n = 0;
    for (t, op) in &case.net {
        n += 1;
        match op {
            NetOp::Cancel { branch_ok, .. } => {
                let b = if *branch_ok { ib.clone() } else { format!("{ib}x") };
                if !branches.iter().any(|(bb, m, _)| *bb == b && m == "CANCEL") {
                    branches.push((b, "CANCEL".into(), *t));
                }
            }
            NetOp::Bye => branches.push((super::c12::br(case, &format!("bye{n}")), "BYE".into(), *t)),
            NetOp::Prack { .. } => branches.push((super::c12::br(case, &format!("prack{n}")), "PRACK".into(), *t)),
            _ => {}
        }
    }
    // final responses the transport refused to take, by (branch, method)
    let refused: Vec<(String, String)> = obs
        .refused
        .iter()
        .filter_map(|(_, m)| m.as_ref())
        .filter(|m| !m.is_request() && m.status().unwrap_or(0) >= 200)
        .filter_map(|m| Some((m.via_branch()?, m.cseq()?.1)))
        .collect();
    let decisive = case.net.iter().any(|(_, o)| matches!(o, NetOp::Bye | NetOp::Cancel { branch_ok: true, cseq_ok: true }));
    // instants at which the peer ACKed the final response of the INVITE
    let acks: Vec<u64> = case.net.iter().enumerate().filter(|(i, (_, o))| *o == NetOp::AckFinal && !obs.skipped_net.contains(i)).map(|(_, (t, _))| *t).collect();
    for (branch, method, t) in &branches {
        let finals: Vec<(u64, u16, &[u8])> = obs
            .wire
            .iter()
            .filter_map(|(s, m)| m.as_ref().map(|m| (s, m)))
            .filter(|(_, m)| !m.is_request() && m.list_values("via").iter().any(|v| via_id(v).1 == *branch) && m.cseq().map_or(false, |c| &c.1 == method))
            .filter(|(_, m)| m.status().unwrap_or(0) >= 200)
            .map(|(s, m)| (s.t_ms, m.status().unwrap_or(0), &s.bytes[..]))
            .collect();
        // the response matches the request: its top Via is the request's top Via, the values below it as received
        // (INVITE, BYE, PRACK come with `via_hops` further values; a CANCEL is hop-by-hop and has one)
        let hops = if method == "CANCEL" { 0 } else { case.via_hops.min(2) as usize };
        let want_vias: Vec<String> = std::iter::once(branch.clone()).chain((0..hops).map(|h| format!("{branch}hop{h}"))).collect();
        for (_, m) in obs.wire.iter().filter_map(|(s, m)| m.as_ref().map(|m| (s, m))).filter(|(_, m)| !m.is_request() && m.cseq().map_or(false, |c| &c.1 == method)) {
            let got: Vec<String> = m.list_values("via").iter().map(|v| via_id(v).1).collect();
            if !got.contains(branch) {
                continue;
            }
            if got.first() != Some(branch) {
                out.fail("c08.pending/top-via-is-not-the-requests", format!("{method} came with Via branches {want_vias:?}, its {} carries {got:?}", m.start));
                break;
            } else if got != want_vias {
                out.fail("c08.pending/via-list-not-mirrored", format!("{method} came with Via branches {want_vias:?}, its {} carries {got:?}", m.start));
                break;
            }
        }
        let mut distinct: Vec<&[u8]> = finals.iter().map(|f| f.2).collect();
        distinct.sort();
        distinct.dedup();
        if method == "INVITE" && !decisive {
            if !finals.is_empty() {
                out.fail("c08.pending/invite-answered-without-cause", format!("pending INVITE got {:?}", finals.iter().map(|f| f.1).collect::<Vec<_>>()));
            }
            continue;
        }
        let own_answer_refused = refused.iter().any(|(b, m)| b == branch && m == method);
        if own_answer_refused {
            // the stack decided and tried; what a refused datagram means for this request is outside the statement
            out.class("own answer refused by the transport (excused)");
            if distinct.len() > 1 {
                out.fail(format!("c08.pending/{}-two-different-finals", method.to_lowercase()), format!("{method} got {:?}", finals.iter().map(|f| f.1).collect::<Vec<_>>()));
            }
            continue;
        }
        if method == "PRACK" {
            out.class(match finals.first().map(|f| f.1) {
                Some(200) => "PRACK answered by the usage",
                Some(_) => "PRACK nobody waits for answered by the stack",
                None => "PRACK unanswered",
            });
            if let Some(f) = finals.iter().find(|f| ![200, 404, 481].contains(&f.1)) {
                out.fail("c08.pending/prack-unexpected-code", format!("PRACK sent at {t} ms answered {} (the usage answers 200, the stack 404 / 481)", f.1));
            }
            if finals.len() > 1 && distinct.len() == 1 {
                out.fail("c08.pending/prack-answered-twice", format!("PRACK sent at {t} ms (never retransmitted) got {} final responses", finals.len()));
            }
        }
        // the 487 goes through the INVITE server transaction: re-sent at T1 doubling up to T2 until the ACK, which
        // never comes here, i.e. until 64*T1 (only asserted where nothing else touches the schedule: unreliable
        // transport, no send latency, no copy of the INVITE, no refused copy)
        // With an ACK: re-sent until the ACK, never after it (whatever else arrives: an ACK is not answered)
        let no_copy = !case.net.iter().any(|(_, o)| *o == NetOp::DupInvite);
        let after_ack: Vec<u64> = finals.iter().map(|f| f.0).filter(|t| acks.first().map_or(false, |a| *t > *a + case.send_delay_ms)).collect();
        if method == "INVITE" && !after_ack.is_empty() && distinct.len() == 1 && no_copy {
            out.fail("c08.pending/invite-487-sent-again-after-ack", format!("487 ACKed at {acks:?}, sent again at {after_ack:?}"));
        } else if method == "INVITE" && !finals.is_empty() && distinct.len() == 1 && !case.reliable && case.send_delay_ms == 0 && no_copy {
            let t0 = finals[0].0;
            let stop = acks.first().copied().unwrap_or(u64::MAX);
            let mut want = vec![t0];
            want.extend(ref_tsx::server_inv_timer_g_schedule().into_iter().map(|g| t0 + g).filter(|t| *t < stop));
            let got: Vec<u64> = finals.iter().map(|f| f.0).collect();
            if got != want {
                out.fail(
                    if acks.is_empty() { "c08.pending/invite-487-not-retransmitted-until-64T1" } else { "c08.pending/invite-487-not-retransmitted-until-ack" },
                    format!("487 transmissions at {got:?}, expected {want:?} (ACK at {acks:?})"),
                );
            } else {
                out.class(if acks.is_empty() { "487 retransmitted until 64*T1" } else { "487 retransmitted until the ACK" });
            }
        } else if method == "INVITE" && case.reliable && distinct.len() == 1 && finals.len() > 1 && no_copy {
            out.fail("c08.pending/invite-487-sent-more-than-once-on-reliable-transport", format!("487 transmissions at {:?}", finals.iter().map(|f| f.0).collect::<Vec<_>>()));
        }
        if method == "INVITE" && acks.len() > 1 {
            out.class("487 ACKed more than once");
        }
        if finals.is_empty() {
            out.fail(format!("c08.pending/{}-unanswered", method.to_lowercase()), format!("{method} (branch {branch}, sent at {t} ms) never got a final response (application ops {:?}, refused sends {:?})", case.app, case.fail_sends));
        } else if distinct.len() > 1 {
            out.fail(format!("c08.pending/{}-two-different-finals", method.to_lowercase()), format!("{method} got {:?}", finals.iter().map(|f| f.1).collect::<Vec<_>>()));
        }
        // (when the answer comes is not part of the statement: a BYE behind a CANCEL is answered only once the
        // un-ACKed 487 has been given up, 35 s later — noted, not asserted)
    }
    out.class("request-hits-pending-invite");
    if !case.fail_sends.is_empty() {
        out.class(if obs.refused.is_empty() { "send-fault plan not reached" } else { "transport refused one send" });
    }
    if case.send_delay_ms > 0 {
        out.class("send stays pending (back-pressure)");
    }
    if case.via_hops > 0 {
        out.class("requests came through proxies (several Via)");
    }
    if case.legacy_branch {
        out.class("RFC 2543 peer (Via branches without the magic cookie)");
    }
    if case.invite_ext != 0 {
        out.class("INVITE with session-timer headers");
    }
    out.nontrivial(case);
}


// ---------------------------------------------------------------------------------------------
// in-dialog requests claimed by the INVITE usage of an ESTABLISHED session whose application is busy: the usage
// hands re-INVITEs and BYEs to the session through a bounded queue; however many pile up before the application
// drives the session again, each must still get its one final response (488 from this application for a
// re-INVITE, 200 for the BYE)

#[derive(Serialize, Deserialize, Clone, Debug, Hash)]
pub struct BacklogCase {
    /// how long the application does not drive the session after accepting the call
    pub busy_ms: u64,
    /// number of re-INVITEs the peer sends while the application is busy
    pub reinvites: u8,
    /// gap between them
    pub gap_ms: u64,
    /// the peer ends the call with a BYE after the re-INVITEs
    pub bye: bool,
    pub rng: u8,
}

pub fn backlog_cases(tier: Tier) -> Vec<BacklogCase> {
    let mut out = vec![];
    for &busy_ms in &[0u64, 3_000, 40_000] {
        for reinvites in 0u8..=(if tier == Tier::Thorough { 12 } else { 8 }) {
            for &gap_ms in &[1u64, 40] {
                for bye in [false, true] {
                    if reinvites == 0 && !bye {
                        continue;
                    }
                    out.push(BacklogCase { busy_ms, reinvites, gap_ms, bye, rng: reinvites.wrapping_mul(7).wrapping_add(gap_ms as u8) });
                }
            }
        }
    }
    out
}

pub fn check_backlog(c: &BacklogCase, out: &mut CaseOut) {
    use super::c12::{AppOp, Case as C, NetOp};
    let mut net = vec![(1u64, NetOp::Ack { cseq_ok: true })];
    let mut t = 10u64;
    for _ in 0..c.reinvites {
        net.push((t, NetOp::ReInvite));
        t += c.gap_ms;
    }
    if c.bye {
        net.push((t, NetOp::Bye));
    }
    let case = C { app: vec![(0, AppOp::Accept)], net: net.clone(), net_first: false, rng: c.rng, session_busy_ms: c.busy_ms, ..Default::default() };
    let obs = super::c12::run(&case, t + c.busy_ms + 80_000);
    let accepted = obs.app.iter().any(|a| a.op == AppOp::Accept && a.outcome == "ok");
    if !accepted {
        out.fail("c08.backlog/harness-call-not-established", format!("{:?}", obs.app));
        return;
    }
    out.note = Some(format!("session events {:?}", obs.session_events));
    let mut n = 0;
    for (t, op) in &net {
        n += 1;
        let (branch, method, want) = match op {
            NetOp::ReInvite => (format!("z9hG4bKc12reinv{n}"), "INVITE", 488u16),
            NetOp::Bye => (format!("z9hG4bKc12bye{n}"), "BYE", 200u16),
            _ => continue,
        };
        let finals: Vec<(u16, &[u8])> = obs
            .wire
            .iter()
            .filter_map(|(s, m)| m.as_ref().map(|m| (s, m)))
            .filter(|(_, m)| !m.is_request() && m.via_branch().as_deref() == Some(branch.as_str()) && m.cseq().map_or(false, |c| c.1 == method))
            .filter(|(_, m)| m.status().unwrap_or(0) >= 200)
            .map(|(s, m)| (m.status().unwrap_or(0), &s.bytes[..]))
            .collect();
        let mut distinct: Vec<&[u8]> = finals.iter().map(|f| f.1).collect();
        distinct.sort();
        distinct.dedup();
        let kind = if method == "INVITE" { "re-invite" } else { "bye" };
        if finals.is_empty() {
            out.fail(format!("c08.backlog/{kind}-unanswered"), format!("{method} #{n} sent at {t} ms to a session whose application was busy for {} ms never got a final response", c.busy_ms));
        } else if distinct.len() > 1 {
            out.fail(format!("c08.backlog/{kind}-two-different-finals"), format!("{method} #{n} got {:?}", finals.iter().map(|f| f.0).collect::<Vec<_>>()));
        } else if finals[0].0 != want {
            out.fail(format!("c08.backlog/{kind}-wrong-code"), format!("{method} #{n} answered {}, the claiming usage/application answers {want}", finals[0].0));
        }
    }
    let seen_reinv = obs.session_events.iter().filter(|e| e.1 == "reinvite").count();
    if seen_reinv != c.reinvites as usize {
        out.fail("c08.backlog/application-did-not-see-each-re-invite-once", format!("{} re-INVITEs sent, application saw {seen_reinv}", c.reinvites));
    }
    if c.busy_ms > 0 && c.reinvites as usize + c.bye as usize > 4 {
        out.class("more requests than the session queue holds pile up");
    }
    if c.busy_ms > 0 {
        out.class("application busy");
    }
    out.nontrivial(c);
}

pub fn property() -> Property {
    Property {
        fuzz: vec![],
        id: "C08",
        rule: "stack: a case = layer stack (1..4 policy layers, each Ignore / Inspect / Answer(code, delay) / TakeDrop per method; optionally DialogLayer at any position with 0..2 policy usages; optionally InviteLayer) x 1..4 requests (out-of-dialog, in-dialog for the existing / an unknown dialog, ACK, stray response, byte-identical retransmission; methods INVITE/OPTIONS/BYE/MESSAGE/CANCEL/unknown; each with 1..3 Via values = came directly / through 1..2 proxies, as separate lines or one comma list) arriving 0..2100 ms apart, ACK for rejected INVITEs at 250/700/1800 ms or never, half of them followed by further copies of that ACK 1 / 3+1300 / 400 / 3000 ms later; both reliabilities; each request optionally retransmitted by the peer (copies at +500 / +500,+1500 / +500,+1500,+3500 / +2,+900 ms, unreliable only) and, in a third of the cases, one of the first eight sends refused by the transport (io::Error). Oracle: first taking layer in registration order decides the code, else 404 (in-dialog, no usage wants it) / 481 by the stack; wire grouped by (request branch anywhere in the response's Via list, CSeq): the response's top Via must carry the request's top branch and the Via values below it must be the request's in order; a rejection is re-sent on the timer-G schedule until the ACK and not again when a copy of the ACK arrives. A request whose first answer transmission was refused is excused; while the server transaction of an answered request lives (non-INVITE: 64*T1; rejected INVITE: until the ACK) a copy of it is not handed to the layers / usages again, also after a refused re-send of the answer (non-INVITE). Non-trivial = an answered request is retransmitted at least twice inside its transaction's life, or a layer inspects without taking before another layer/the stack answers, or an in-dialog request falls through all usages, or >=2 requests overlap; distinct by case. pending_invite (enumerated, acceptor world of C12): CANCEL / BYE / copies hitting an unanswered INVITE x {no 1xx, 180 sent} x both same-instant orders, x {transport refuses the k-th send, k=0..3} and x {every send stays pending 2 ms}; reliable 183 (waiting / abandoned by the application after 700, 3000 ms) x PRACK {while waiting, around and after the give-up instant 31*T1, wrong RAck, second copy, followed by CANCEL / BYE}; CANCEL / BYE followed by the ACK of the 487 once, twice (1 ms / 1.3 s / 3.7 s / 8.7 s apart) or three times, also over a reliable transport; a selection of all these with 1 / 2 further Via values on the INVITE and the in-dialog requests; a selection with an RFC 2543 peer (no magic cookie in any Via branch: the CANCEL finds the INVITE by the RFC 2543 rules) and with session-timer headers on the INVITE (Supported: timer, Min-SE beyond 32 bit / with a generic-param); wire grouped by (branch anywhere in the Via list, method): top Via / Via list as in `stack`,: one final response per request, the 487 re-sent on the timer-G schedule until its ACK (until 64*T1 when nobody ACKs) and never after the ACK. reordered_in_dialog (enumerated): in-dialog OPTIONS / unknown-method requests no usage wants, CSeq n+1..n+k arriving in every order for k=2..4, and for k in {8,33,63,64,65,66,67,80,130,200} in four orders that leave k-1 requests waiting behind the gap at once (descending; ascending with the first one last; upper half ascending + lower half descending; evens descending + odds ascending), both reliabilities: exactly one 404 each. session_backlog: enumerated, see the sub-check comment.",
        assumptions: vec![
            "take-and-drop layers are excluded from the exactly-one count (the application chose not to answer) but must not cause an answer",
            "in-dialog requests carry increasing CSeq numbers in arrival order (re-ordering is C10's subject)",
            "instants where an ACK coincides with a timer-G instant are don't-cares",
            "a copy of an INVITE that arrives after the ACK of its rejection is a don't-care (ezk keeps no Confirmed state, the copy is a new request and answered again); copies of the ACK are in the domain: they are never answered",
            "responses are compared with the request's Via list by (sent-by, branch) per value; parameters the server may add to the top Via (received, rport) are not looked at",
            "a request whose own final response the transport refused (io::Error from Transport::send) is excused from the exactly-one count: the stack decided and tried; every other request of the history is still owed its answer",
            "in `stack` a request is excused only when the FIRST transmission of its answer was refused (then its responding call failed and a later copy is a new request); a refused re-send of an answer that went out leaves the non-INVITE server transaction in place (ezk: logged, loop continues). For a rejected INVITE ezk's respond_failure ends the transaction on a refused re-send (RFC 3261 fig. 7 allows Terminated on a transport error); a copy of the INVITE arriving afterwards is dispatched anew: labelled, not asserted",
            "a copy of an answered INVITE that was accepted (2xx by a layer) is not judged: the INVITE server transaction ends with the 2xx, retransmitting it is the layer's business (C12)",
            "which of 200 (usage) / 404 / 481 (stack) a PRACK gets that arrives when the acceptor no longer waits is not asserted, only that it gets exactly one of them",
        ],
        explanation: "sampled stacks and request mixes",
        subs: vec![
            prop_sub("stack", strategy, 2500, 40000, check),
            enum_sub("pending_invite", pending_cases, check_pending),
            enum_sub("reordered_in_dialog", reordered_cases, check_reordered),
            enum_sub("session_backlog", backlog_cases, check_backlog),
        ],
    }
}
