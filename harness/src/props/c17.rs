//! C17 — Refresh happens before expiry: session timers (RFC 4028) and registrations
//!
//! Sub-checks
//!  * `session_uas` / `session_uac` (+ `_random`): a scripted peer negotiates a session timer with ezk
//!    in the callee / caller role on a paused clock, then stays silent, refreshes (re-INVITE) or lets
//!    ezk refresh. The oracle is a monitor over the timeline `(virtual ms, event)`; the negotiated
//!    interval SE and refresher are read from the 2xx (UAS role: from ezk's bytes on the wire with the
//!    independent reader; UAC role: they are the generated values the peer put into its 2xx).
//!    A refresh received is answered by the application with `ReInviteReceived::respond_success`, which
//!    returns when the peer's ACK is there. When that ACK arrives is generated (`reinv_ack_delays`, per
//!    re-INVITE): at once, after some retransmissions of the 2xx, around the refresher's 10 s margin, up to
//!    31 s (ezk gives up after 64*T1 = 32 s; a peer that never ACKs is not generated). The oracle does not
//!    know about ACKs: the interval restarts with the refresh (ezk's 2xx). The phase part of a signature says
//!    whether the ACK of the last refresh received was delayed (`after-refresh-received-ack-delayed`).
//!    In the callee role the ACK for the initial 2xx is delayed the same way (`ack_delay`).
//!  * `registration` (+ `_random`): `Registration` driven the way examples/register.rs does, against a
//!    scripted registrar answering 200 (Expires header) / 423 (Min-Expires).
//!  * `registration_bindings` (+ the shaped half of `registration_random`): the same loop, but the 200 has
//!    the shape RFC 3261 10.3 step 8 prescribes: a Contact list with ALL bindings of the address-of-record.
//!    Generated: our own binding {not listed, listed without / with `;expires=<granted>`} x Expires header
//!    {= granted, absent, smaller, larger} x 0..3 bindings of other devices (six URIs that differ from
//!    ours in host, port, user or scheme; `expires` absent / 0 / shorter / longer than ours / u32 edge)
//!    x every position of our binding in the list x layout {comma list, one header per binding, compact
//!    `m:`} x spelling of our entry (q parameter before/after, display name, `EXPIRES`) x header order.
//!    Our binding is spelled exactly as the REGISTER's Contact (read from the wire).
//!    Oracle (`stated_lifetime`, written from RFC 3261 10.2.4): the lifetime of OUR binding is the
//!    `expires` parameter of our own Contact, else the Expires header; `wait_for_expiry` must return
//!    strictly before grant + that lifetime (when > 10 s). The other devices' values never enter the
//!    oracle. Failures are named by where the 200 states the lifetime: `c17.reg/{never-refreshed,
//!    refresh-not-before-expiry}:<200|after-423>[:own-binding-listed|:other-bindings-listed]` when the
//!    Expires header states it (our Contact absent, without parameter, or agreeing), and the single
//!    signature `c17.reg/not-refreshed-before-own-contact-expires` when only our Contact's parameter does
//!    (header absent or different).
//!  * `registration_history` (+ a share of `registration_random`): histories on ONE `Registration` object with
//!    rounds that are not a grant: `Unregister` = `create_register(true)`, answered 200 (not handed to the
//!    object / bare 200 handed over / 200 listing the remaining bindings of other devices), then a pause of
//!    0 s .. longer than the old lifetime before the next round registers again; `Rejected` = a final
//!    4xx/5xx/6xx without Min-Expires handed to `receive_error_response`, pause, next round. The registrar
//!    grants the lifetime the object already holds (the usual case) or another one, `new` was given the same
//!    or another one. The oracle is the same per 200; the signature names the round before the 200:
//!    `c17.reg/...:<200|after-423|after-unregister|after-rejection>`. The un-REGISTER and the repeated REGISTER
//!    take part in the Call-ID / CSeq+1 check. A case ends at the first refresh that never came.
//!    Not asserted: a 200 that states no lifetime for our binding (no Expires header and our Contact not
//!    listed / without parameter: class only, no panic); how early a refresh happens; the Expires value of
//!    the following REGISTER; 422.

use crate::engine::*;
use crate::world::wire::param_of;
use crate::world::*;
use bytes::Bytes;
use parking_lot::Mutex;
use proptest::prelude::*;
use serde::{Deserialize, Serialize};
use sip_core::transport::{Direction, TargetTransportInfo, TpHandle, Transport};
use sip_core::{Endpoint, IncomingRequest, Layer, MayTake};
use sip_types::header::typed::{Contact, Refresher};
use sip_types::uri::NameAddr;
use sip_types::{Code, Method};
use sip_ua::dialog::{Dialog, DialogLayer};
use sip_ua::invite::acceptor::Acceptor;
use sip_ua::invite::initiator::{Initiator, Response};
use sip_ua::invite::session::{Event, Session};
use sip_ua::invite::InviteLayer;
use sip_ua::register::Registration;
use std::fmt;
use std::io;
use std::net::SocketAddr;
use std::sync::atomic::{AtomicBool, Ordering};
use std::sync::Arc;
use std::time::Duration;
use tokio::sync::{mpsc, Notify};

// ------------------------------------------------------------------------------------------
// value sets

const MAXU: u32 = u32::MAX;
const P31: u32 = 1 << 31;

/// Largest interval (seconds) whose expiry is followed on the virtual clock. tokio documents a maximum
/// sleep of 2^36-2 ms (~2.2 years). In tokio 1.53 a timer more than 63 top-level wheel slots
/// (63 * 2^30 ms ~ 2.14 years) ahead shadows every other timer of the top level, so timers fire out
/// of order, and resetting such a sleep can leave a dangling entry behind (heap corruption at runtime
/// shutdown) - reproduced with tokio alone. The trusted base therefore ends here: every timer the
/// harness or ezk arms for an interval <= CLOCK_MAX_S (interval + 64 s + slack) stays below
/// 63 * 2^30 ms. Longer intervals are only watched for `WINDOW_MS` (no panic, no BYE in the window).
const CLOCK_MAX_S: u64 = 67_000_000;
const WINDOW_MS: u64 = 120_000;

/// Session-Expires values of the grid (0 is excluded: "strictly before the end of an interval of
/// length 0" cannot be satisfied by anybody)
const SE_GRID: &[u32] = &[
    1, 2, 9, 10, 11, 19, 20, 21, 32, 33, 89, 90, 1800, 67_000_000, P31 - 1, P31, MAXU - 11, MAXU - 10, MAXU - 9, MAXU,
];
/// Min-SE values of the grid
const MINSE_GRID: &[u32] = &[
    0, 1, 9, 10, 11, 89, 90, 1799, 1800, 1801, 67_000_000, P31 - 1, P31, MAXU - 11, MAXU - 10, MAXU - 9, MAXU,
];
/// Expires / Min-Expires values of the grid
const EXP_GRID: &[u32] = &[
    0, 1, 9, 10, 11, 12, 19, 20, 21, 89, 90, 600, 1800, 67_000_000, P31 - 1, P31, MAXU - 11, MAXU - 10, MAXU - 9, MAXU,
];

fn near_edge(v: u64) -> bool {
    let edges = [0u64, P31 as u64, MAXU as u64];
    v < 90 || edges.iter().any(|e| v.abs_diff(*e) <= 11)
}

// ------------------------------------------------------------------------------------------
// session cases

#[derive(Serialize, Deserialize, Clone, Copy, Debug, Hash, PartialEq, Eq)]
pub enum Off {
    /// 1 ms after the last refresh
    Early,
    /// half the interval (+1 ms)
    Half,
    /// 1 ms before (interval - 10 s)
    BeforeMargin,
    /// 1 ms after (interval - 10 s)
    InMargin,
    /// 1 ms before the interval ends
    Late,
    /// anywhere inside the interval
    Frac(u16),
}

#[derive(Serialize, Deserialize, Clone, Copy, Debug, Hash, PartialEq, Eq)]
pub enum Step {
    /// nothing happens for a full interval + 64 s (`RefreshNeeded` is ignored by the application)
    Silence,
    /// the application answers the next `RefreshNeeded` with `process_default()` (refresh sent)
    Send,
    /// the peer sends a re-INVITE at this offset after the last refresh (refresh received)
    Recv(Off),
}

#[derive(Serialize, Deserialize, Clone, Debug, Hash)]
pub struct SessCase {
    /// local (ezk) role: true = caller (`Initiator`), false = callee (`Acceptor`)
    pub uac: bool,
    /// callee role: Session-Expires of the peer's INVITE (None = no header);
    /// caller role: Session-Expires of the peer's 200 (always Some)
    pub se: Option<u32>,
    /// `refresher` parameter on that header: 0 absent, 1 uac, 2 uas
    pub refresher: u8,
    /// callee role: Min-SE header of the peer's INVITE; caller role: `timer_config.expires_secs_min`
    pub minse: Option<u32>,
    /// caller role only: `timer_config.expires_secs` / `timer_config.refresher` (what ezk asks for)
    pub cfg_se: Option<u32>,
    pub cfg_refresher: u8,
    /// callee role only: the peer's ACK arrives this many ms after the 200
    pub ack_delay: u64,
    pub steps: Vec<Step>,
    pub rng: u8,
    /// the peer's ACK for ezk's 2xx to the n-th re-INVITE (n-th executed `Recv` step) arrives this many ms
    /// after that 2xx (`[n % len]`, see `norm_ack`; empty = at once): the first 2xx / the first ACKs got
    /// lost, ezk retransmits the 2xx (T1 doubling up to T2) and the application stays inside
    /// `ReInviteReceived::respond_success` until the ACK is there
    #[serde(default)]
    pub reinv_ack_delays: Vec<u64>,
}

/// Latest ACK that is generated: ezk retransmits a 2xx for 64*T1 = 32 s and then gives up; a peer that never
/// ACKs is not generated (whether such a re-INVITE counts as a refresh is not in the statement)
const ACK_MAX_MS: u64 = 31_000;

/// ACK delay as used: at most `ACK_MAX_MS`, and never on (or 1 ms before) a half second after the 2xx
/// (2xx retransmissions and session timers run on half / whole seconds: ties are don't-cares)
pub fn norm_ack(d: u64) -> u64 {
    let mut d = d.min(ACK_MAX_MS);
    if d == 0 {
        return 0;
    }
    while d % 500 == 0 || d % 500 == 499 {
        d += 1;
    }
    d
}

/// delay of the ACK for the 2xx of the `n`-th (0-based) re-INVITE of the peer
pub fn reinv_ack_delay(case: &SessCase, n: usize) -> u64 {
    if case.reinv_ack_delays.is_empty() {
        0
    } else {
        norm_ack(case.reinv_ack_delays[n % case.reinv_ack_delays.len()])
    }
}

fn off_ms(off: Off, se: u64) -> u64 {
    let full = se * 1000; // se >= 1
    let raw = match off {
        Off::Early => 1,
        Off::Half => se * 500 + 1,
        Off::BeforeMargin => full.saturating_sub(10_001),
        Off::InMargin => full.saturating_sub(9_999),
        Off::Late => full - 1,
        Off::Frac(f) => 1 + (f as u64 * (full - 2)) / 65536,
    };
    let mut v = raw.clamp(1, full - 1);
    // session timers run on whole / half seconds after a refresh: never land on one (tie = don't care)
    if v % 500 == 0 {
        v += 1;
    }
    v
}

#[derive(Clone, Debug, PartialEq)]
pub enum Ev {
    /// the 2xx of the initial INVITE was sent (callee) / received (caller): the interval starts
    Established,
    /// the application calls `Session::drive()` (it is listening from here to the next driver event)
    Poll,
    RefreshNeeded { processed: bool },
    ProcDone(bool),
    ReInvDelivered,
    ReInvAnswered(bool),
    /// the peer answered ezk's re-INVITE with 200: refresh sent
    RefreshSent,
    /// ezk answered the peer's re-INVITE with 200: refresh received
    RefreshRecv,
    /// the peer's delayed ACK for ezk's 2xx to a re-INVITE is delivered
    ReInvAcked,
    ByeOnWire,
    ByeReceived,
    Terminated,
    DriveErr(String),
    DriverGaveUp,
    NoSession(String),
    Other(String),
}

impl Ev {
    fn from_driver(&self) -> bool {
        matches!(
            self,
            Ev::RefreshNeeded { .. }
                | Ev::ReInvDelivered
                | Ev::ByeReceived
                | Ev::Terminated
                | Ev::DriveErr(_)
                | Ev::DriverGaveUp
        )
    }
}

#[derive(Clone)]
struct Shared {
    clock: Clock,
    events: Arc<Mutex<Vec<(u64, Ev)>>>,
    notify: Arc<Notify>,
    want_send: Arc<AtomicBool>,
}

impl Shared {
    fn push(&self, ev: Ev) {
        self.events.lock().push((self.clock.now_ms(), ev));
        self.notify.notify_one();
    }
    fn find_from(&self, from: usize, pred: impl Fn(&Ev) -> bool) -> Option<(usize, u64)> {
        let g = self.events.lock();
        g.iter()
            .enumerate()
            .skip(from)
            .find(|(_, (_, e))| pred(e))
            .map(|(i, (t, _))| (i, *t))
    }
    fn len(&self) -> usize {
        self.events.lock().len()
    }
    async fn wait_for(&self, from: usize, deadline: u64, pred: impl Fn(&Ev) -> bool) -> Option<(usize, u64)> {
        loop {
            if let Some(x) = self.find_from(from, &pred) {
                return Some(x);
            }
            if self.clock.now_ms() >= deadline {
                return None;
            }
            tokio::select! {
                _ = self.notify.notified() => {}
                _ = self.clock.until(deadline) => {}
            }
        }
    }
}

/// Datagram transport whose `send` appends to the wire log AND hands the message to the scripted peer
struct PeerTp {
    log: WireLog,
    bound: SocketAddr,
    tx: mpsc::UnboundedSender<Sent>,
}

impl fmt::Debug for PeerTp {
    fn fmt(&self, f: &mut fmt::Formatter<'_>) -> fmt::Result {
        write!(f, "PeerTp({})", self.bound)
    }
}
impl fmt::Display for PeerTp {
    fn fmt(&self, f: &mut fmt::Formatter<'_>) -> fmt::Result {
        write!(f, "mock:UDP:{}", self.bound)
    }
}

#[async_trait::async_trait]
impl Transport for PeerTp {
    fn name(&self) -> &'static str {
        "UDP"
    }
    fn secure(&self) -> bool {
        false
    }
    fn reliable(&self) -> bool {
        false
    }
    fn bound(&self) -> SocketAddr {
        self.bound
    }
    fn sent_by(&self) -> SocketAddr {
        self.bound
    }
    fn direction(&self) -> Direction {
        Direction::None
    }
    async fn send(&self, message: &[u8], target: SocketAddr) -> io::Result<()> {
        let s = Sent {
            t_ms: self.log.clock.now_ms(),
            tp: 1,
            dest: target,
            bytes: Bytes::copy_from_slice(message),
        };
        self.log.sent.lock().push(s.clone());
        let _ = self.tx.send(s);
        Ok(())
    }
}

/// Layer that takes every initial INVITE and hands it to the test task (the "application")
struct TakeInvite {
    tx: mpsc::UnboundedSender<IncomingRequest>,
}

#[async_trait::async_trait]
impl Layer for TakeInvite {
    fn name(&self) -> &'static str {
        "c17-take-invite"
    }
    async fn receive(&self, _endpoint: &Endpoint, request: MayTake<'_, IncomingRequest>) {
        if request.line.method == Method::INVITE {
            let _ = self.tx.send(request.take());
        }
    }
}

const PEER_ADDR: &str = "192.0.2.9:5060";
const EZK_ADDR: &str = "10.0.0.1:5060";
const PEER_URI: &str = "sip:peer@192.0.2.9:5060";
const EZK_URI: &str = "sip:ezk@10.0.0.1:5060";
const PEER_TAG: &str = "c17peertag";
const CALL_ID: &str = "c17-call-id";
const INIT_CSEQ: u32 = 100;

/// `Session-Expires` value as text: delta and refresher parameter
fn read_se(value: &str) -> Option<(u64, Option<String>)> {
    let delta = value.split(';').next()?.trim().parse::<u64>().ok()?;
    let r = param_of(value, "refresher").map(|r| r.to_ascii_lowercase());
    Some((delta, r))
}

fn refresher_str(r: u8) -> &'static str {
    match r {
        1 => ";refresher=uac",
        2 => ";refresher=uas",
        _ => "",
    }
}

/// What the peer knows about the dialog (all read from the wire / its own messages)
#[derive(Default, Clone)]
struct PeerDialog {
    call_id: String,
    /// the peer's own From/To value (with tag) and ezk's (with tag)
    peer_addr: String,
    ezk_addr: String,
    /// request-URI for requests to ezk (ezk's Contact)
    ezk_target: String,
    next_cseq: u32,
    /// negotiated interval / who refreshes (Some(true) = ezk), as the peer understood the 2xx
    se: Option<u64>,
    ezk_refreshes: Option<bool>,
    reinv_cseqs: Vec<u32>,
    reinv_answered: Vec<u32>,
    seen_branches: Vec<String>,
    acked_initial: bool,
    branch_n: u32,
    /// re-INVITEs of the peer whose 2xx it has ACKed (a 2xx retransmission seen before that is "lost")
    reinv_acked: Vec<u32>,
    /// virtual time at which the ACK for the latest answered re-INVITE is / was sent
    last_ack_due: u64,
}

fn contact_uri(m: &WireMsg) -> Option<String> {
    let c = m.header("contact")?;
    match (c.find('<'), c.find('>')) {
        (Some(a), Some(b)) if a < b => Some(c[a + 1..b].to_string()),
        _ => Some(c.split(';').next().unwrap_or(c).trim().to_string()),
    }
}

struct Peer {
    case: SessCase,
    sh: Shared,
    endpoint: Endpoint,
    tp: TpHandle,
    addr: SocketAddr,
    dlg: Arc<Mutex<PeerDialog>>,
}

impl Peer {
    fn inject(&self, bytes: &[u8]) {
        inject(&self.endpoint, &self.tp, self.addr, bytes);
    }

    /// Session-Expires line for a message of a refresh transaction in which `ezk_is_uac`
    fn se_line(&self, ezk_is_uac: bool) -> Vec<String> {
        let d = self.dlg.lock();
        match d.se {
            Some(se) => {
                let r = match d.ezk_refreshes {
                    Some(e) if e == ezk_is_uac => ";refresher=uac",
                    Some(_) => ";refresher=uas",
                    None => "",
                };
                vec![format!("Session-Expires: {se}{r}")]
            }
            None => vec![],
        }
    }

    fn ack_bytes(&self, cseq: u32) -> Vec<u8> {
        let mut d = self.dlg.lock();
        d.branch_n += 1;
        request_text(
            "ACK",
            &d.ezk_target,
            &[format!("SIP/2.0/UDP {PEER_ADDR};branch=z9hG4bKc17ack{}", d.branch_n)],
            &d.peer_addr,
            &d.ezk_addr,
            &d.call_id,
            cseq,
            "ACK",
            &[],
            b"",
        )
    }

    fn reinvite_bytes(&self) -> Vec<u8> {
        let extra = {
            let mut e = vec![
                format!("Contact: <{PEER_URI}>"),
                "Supported: timer".to_string(),
            ];
            e.extend(self.se_line(false));
            e
        };
        let mut d = self.dlg.lock();
        d.branch_n += 1;
        let cseq = d.next_cseq;
        d.next_cseq += 1;
        d.reinv_cseqs.push(cseq);
        request_text(
            "INVITE",
            &d.ezk_target,
            &[format!("SIP/2.0/UDP {PEER_ADDR};branch=z9hG4bKc17re{}", d.branch_n)],
            &d.peer_addr,
            &d.ezk_addr,
            &d.call_id,
            cseq,
            "INVITE",
            &extra,
            b"",
        )
    }

    /// react to one message ezk put on the wire
    async fn on_sent(self: &Arc<Self>, s: Sent) {
        let Some(m) = WireMsg::parse(&s.bytes) else {
            self.sh.push(Ev::Other("<unparsable>".into()));
            return;
        };
        if m.is_request() {
            let branch = m.via_branch().unwrap_or_default();
            let first = {
                let mut d = self.dlg.lock();
                if d.seen_branches.contains(&branch) {
                    false
                } else {
                    d.seen_branches.push(branch.clone());
                    true
                }
            };
            match m.method() {
                Some("INVITE") if m.to_tag().is_none() => {
                    // initial INVITE of the caller role: answer 200 directly
                    let se = self.case.se.unwrap_or(1800);
                    let extra = vec![
                        format!("Contact: <{PEER_URI}>"),
                        "Require: timer".to_string(),
                        "Supported: timer".to_string(),
                        format!("Session-Expires: {se}{}", refresher_str(self.case.refresher)),
                    ];
                    if first {
                        let mut d = self.dlg.lock();
                        d.call_id = m.call_id().unwrap_or("").to_string();
                        d.ezk_addr = m.header("from").unwrap_or("").to_string();
                        d.peer_addr = format!("{};tag={PEER_TAG}", m.header("to").unwrap_or(""));
                        d.ezk_target = contact_uri(&m).unwrap_or_else(|| EZK_URI.to_string());
                        d.next_cseq = 500;
                        d.se = Some(se as u64);
                        d.ezk_refreshes = match self.case.refresher {
                            1 => Some(true),
                            2 => Some(false),
                            _ => None,
                        };
                    }
                    self.inject(&response_text(&m, 200, Some(PEER_TAG), &extra));
                }
                Some("INVITE") => {
                    let mut extra = vec![
                        format!("Contact: <{PEER_URI}>"),
                        "Require: timer".to_string(),
                    ];
                    extra.extend(self.se_line(true));
                    self.inject(&response_text(&m, 200, None, &extra));
                    if first {
                        self.sh.push(Ev::RefreshSent);
                    }
                }
                Some("ACK") => {}
                Some("BYE") => {
                    self.inject(&response_text(&m, 200, None, &[]));
                    if first {
                        self.sh.push(Ev::ByeOnWire);
                    }
                }
                other => self.sh.push(Ev::Other(format!("request {other:?}"))),
            }
        } else {
            let status = m.status().unwrap_or(0);
            let (cseq, method) = m.cseq().unwrap_or((0, String::new()));
            if status < 200 {
                return;
            }
            if method == "INVITE" && (200..300).contains(&status) {
                if !self.case.uac && cseq == INIT_CSEQ {
                    let first = {
                        let mut d = self.dlg.lock();
                        if d.ezk_addr.is_empty() {
                            d.call_id = CALL_ID.to_string();
                            d.peer_addr = m.header("from").unwrap_or("").to_string();
                            d.ezk_addr = m.header("to").unwrap_or("").to_string();
                            d.ezk_target = contact_uri(&m).unwrap_or_else(|| EZK_URI.to_string());
                            d.next_cseq = INIT_CSEQ + 1;
                            if let Some((se, r)) = m.header("session-expires").and_then(read_se) {
                                d.se = Some(se);
                                d.ezk_refreshes = match r.as_deref() {
                                    Some("uas") => Some(true),
                                    Some("uac") => Some(false),
                                    _ => None,
                                };
                            }
                            true
                        } else {
                            false
                        }
                    };
                    if first {
                        self.sh.push(Ev::Established);
                        if self.case.ack_delay > 0 {
                            tokio::time::sleep(Duration::from_millis(self.case.ack_delay.min(ACK_MAX_MS))).await;
                        }
                        self.dlg.lock().acked_initial = true;
                        let ack = self.ack_bytes(INIT_CSEQ);
                        self.inject(&ack);
                    } else if self.dlg.lock().acked_initial {
                        let ack = self.ack_bytes(INIT_CSEQ);
                        self.inject(&ack);
                    }
                } else {
                    let (ours, first) = {
                        let mut d = self.dlg.lock();
                        let ours = d.reinv_cseqs.contains(&cseq);
                        let first = ours && !d.reinv_answered.contains(&cseq);
                        if first {
                            d.reinv_answered.push(cseq);
                        }
                        (ours, first)
                    };
                    if ours {
                        if first {
                            self.sh.push(Ev::RefreshRecv);
                            let (n, now) = {
                                let d = self.dlg.lock();
                                (d.reinv_cseqs.iter().position(|c| *c == cseq).unwrap_or(0), self.sh.clock.now_ms())
                            };
                            let delay = reinv_ack_delay(&self.case, n);
                            self.dlg.lock().last_ack_due = now + delay;
                            if delay == 0 {
                                self.dlg.lock().reinv_acked.push(cseq);
                                let ack = self.ack_bytes(cseq);
                                self.inject(&ack);
                            } else {
                                // this 2xx and the retransmissions before `now + delay` are lost on the way
                                // (or the ACKs for them are): the ACK that arrives is sent then
                                let peer = self.clone();
                                tokio::spawn(async move {
                                    peer.sh.clock.until(now + delay).await;
                                    peer.dlg.lock().reinv_acked.push(cseq);
                                    let ack = peer.ack_bytes(cseq);
                                    peer.inject(&ack);
                                    peer.sh.push(Ev::ReInvAcked);
                                });
                            }
                        } else if self.dlg.lock().reinv_acked.contains(&cseq) {
                            let ack = self.ack_bytes(cseq);
                            self.inject(&ack);
                        }
                    } else {
                        self.sh.push(Ev::Other(format!("response {}", m.start)));
                    }
                }
            } else {
                self.sh.push(Ev::Other(format!("response {} ({cseq} {method})", m.start)));
            }
        }
    }
}

fn to_refresher(r: u8) -> Refresher {
    match r {
        1 => Refresher::Uac,
        2 => Refresher::Uas,
        _ => Refresher::Unspecified,
    }
}

/// the application: loops `Session::drive()` like examples/accept_invite.rs
async fn driver(mut session: Session, sh: Shared) {
    for _ in 0..3000 {
        sh.push(Ev::Poll);
        match session.drive().await {
            Err(e) => {
                sh.push(Ev::DriveErr(e.to_string()));
                return;
            }
            Ok(Event::RefreshNeeded(r)) => {
                let processed = sh.want_send.swap(false, Ordering::Relaxed);
                sh.push(Ev::RefreshNeeded { processed });
                if processed {
                    let ok = r.process_default().await.is_ok();
                    sh.push(Ev::ProcDone(ok));
                }
            }
            Ok(Event::ReInviteReceived(ev)) => {
                sh.push(Ev::ReInvDelivered);
                match ev.session.dialog.create_response(&ev.invite, Code::OK, None) {
                    Ok(response) => {
                        let ok = ev.respond_success(response).await.is_ok();
                        sh.push(Ev::ReInvAnswered(ok));
                    }
                    Err(_) => sh.push(Ev::ReInvAnswered(false)),
                }
            }
            Ok(Event::Bye(b)) => {
                sh.push(Ev::ByeReceived);
                let _ = b.process_default().await;
            }
            Ok(Event::Terminated) => {
                sh.push(Ev::Terminated);
                return;
            }
        }
    }
    sh.push(Ev::DriverGaveUp);
}

pub struct SessObserved {
    pub events: Vec<(u64, Ev)>,
    pub wire: Vec<(Sent, Option<WireMsg>)>,
    pub horizon: u64,
    /// (interval, Some(true) = ezk refreshes) as the scripted peer understood the 2xx
    pub peer_view: (Option<u64>, Option<bool>),
}

pub fn run_session(case: &SessCase) -> SessObserved {
    let case = case.clone();
    run_world(case.rng as u64, |clock| async move {
        let log = WireLog::new(clock);
        let (ptx, mut prx) = mpsc::unbounded_channel();
        let tp = TpHandle::new(PeerTp {
            log: log.clone(),
            bound: EZK_ADDR.parse().unwrap(),
            tx: ptx,
        });
        let mut b = offline_builder();
        let dialog_layer = b.add_layer(DialogLayer::default());
        let invite_layer = b.add_layer(InviteLayer::default());
        let (itx, mut irx) = mpsc::unbounded_channel();
        b.add_layer(TakeInvite { tx: itx });
        b.add_unmanaged_transport(tp.clone());
        let endpoint = b.build();
        let peer_addr: SocketAddr = PEER_ADDR.parse().unwrap();

        let sh = Shared {
            clock,
            events: Default::default(),
            notify: Arc::new(Notify::new()),
            want_send: Arc::new(AtomicBool::new(false)),
        };
        let dlg: Arc<Mutex<PeerDialog>> = Default::default();
        let peer = Arc::new(Peer {
            case: case.clone(),
            sh: sh.clone(),
            endpoint: endpoint.clone(),
            tp: tp.clone(),
            addr: peer_addr,
            dlg: dlg.clone(),
        });
        {
            let peer = peer.clone();
            tokio::spawn(async move {
                while let Some(s) = prx.recv().await {
                    peer.on_sent(s).await;
                }
            });
        }

        // ---- establish
        let mut keep_initiator: Option<Initiator> = None;
        let session: Option<Session> = if case.uac {
            let local = endpoint.parse_uri(EZK_URI).unwrap();
            let target = endpoint.parse_uri(PEER_URI).unwrap();
            let mut initiator = Initiator::new(
                endpoint.clone(),
                dialog_layer,
                invite_layer,
                NameAddr::uri(local.clone()),
                Contact::new(NameAddr::uri(local)),
                target,
            );
            initiator.timer_config.expires_secs = case.cfg_se;
            initiator.timer_config.refresher = to_refresher(case.cfg_refresher);
            if let Some(m) = case.minse {
                initiator.timer_config.expires_secs_min = m;
            }
            let invite = initiator.create_invite();
            match initiator.send_invite(invite).await {
                Err(e) => {
                    sh.push(Ev::NoSession(format!("send_invite: {e}")));
                    None
                }
                Ok(()) => {
                    let mut got = None;
                    for _ in 0..4 {
                        match tokio::time::timeout(Duration::from_secs(40), initiator.receive()).await {
                            Ok(Ok(Response::Session(s, _))) => {
                                got = Some(s);
                                break;
                            }
                            Ok(Ok(Response::Provisional(_))) => continue,
                            Ok(Ok(other)) => {
                                let what = match other {
                                    Response::Failure(r) => format!("failure {}", r.line.code.into_u16()),
                                    Response::Early(..) => "early".to_string(),
                                    Response::Finished => "finished".to_string(),
                                    _ => "?".to_string(),
                                };
                                sh.push(Ev::NoSession(what));
                                break;
                            }
                            Ok(Err(e)) => {
                                sh.push(Ev::NoSession(format!("receive: {e}")));
                                break;
                            }
                            Err(_) => {
                                sh.push(Ev::NoSession("receive: no answer".into()));
                                break;
                            }
                        }
                    }
                    if got.is_some() {
                        sh.push(Ev::Established);
                    }
                    keep_initiator = Some(initiator);
                    got
                }
            }
        } else {
            let mut extra = vec![
                format!("Contact: <{PEER_URI}>"),
                "Supported: timer".to_string(),
            ];
            if let Some(se) = case.se {
                extra.push(format!("Session-Expires: {se}{}", refresher_str(case.refresher)));
            }
            if let Some(m) = case.minse {
                extra.push(format!("Min-SE: {m}"));
            }
            let invite = request_text(
                "INVITE",
                EZK_URI,
                &[format!("SIP/2.0/UDP {PEER_ADDR};branch=z9hG4bKc17inv0")],
                &format!("<sip:peer@192.0.2.9>;tag={PEER_TAG}"),
                "<sip:ezk@10.0.0.1>",
                CALL_ID,
                INIT_CSEQ,
                "INVITE",
                &extra,
                b"",
            );
            inject(&endpoint, &tp, peer_addr, &invite);
            settle().await;
            match irx.try_recv() {
                Err(_) => {
                    sh.push(Ev::NoSession("INVITE not delivered to the application".into()));
                    None
                }
                Ok(invite) => {
                    let contact = Contact::new(NameAddr::uri(endpoint.parse_uri(EZK_URI).unwrap()));
                    match Dialog::new_server(endpoint.clone(), dialog_layer, &invite, contact) {
                        Err(e) => {
                            sh.push(Ev::NoSession(format!("new_server: {e}")));
                            None
                        }
                        Ok(dialog) => match Acceptor::new(dialog, invite_layer, invite) {
                            Err(e) => {
                                sh.push(Ev::NoSession(format!("acceptor: {e}")));
                                None
                            }
                            Ok(acceptor) => match acceptor.create_response(Code::OK, None).await {
                                Err(e) => {
                                    sh.push(Ev::NoSession(format!("create_response: {e}")));
                                    None
                                }
                                Ok(response) => match acceptor.respond_success(response).await {
                                    Ok((session, _ack)) => Some(session),
                                    Err(e) => {
                                        sh.push(Ev::NoSession(format!("respond_success: {e}")));
                                        None
                                    }
                                },
                            },
                        },
                    }
                }
            }
        };

        // ---- script
        let established = sh.find_from(0, |e| *e == Ev::Established);
        let (se, _) = {
            let d = dlg.lock();
            (d.se, d.ezk_refreshes)
        };
        if let (Some(session), Some((_, base0)), Some(se)) = (session, established, se.filter(|s| *s >= 1)) {
            let se_ms = se * 1000;
            tokio::spawn(driver(session, sh.clone()));
            settle().await;
            if se > CLOCK_MAX_S {
                // beyond the range of the virtual clock: watch a short window only
                clock.advance(WINDOW_MS).await;
                settle().await;
                let horizon = clock.now_ms();
                let events = sh.events.lock().clone();
                let d = dlg.lock();
                drop(keep_initiator);
                return SessObserved {
                    events,
                    wire: log.parsed(),
                    horizon,
                    peer_view: (d.se, d.ezk_refreshes),
                };
            }
            let ended = |e: &Ev| {
                matches!(
                    e,
                    Ev::ByeOnWire | Ev::Terminated | Ev::ByeReceived | Ev::DriveErr(_) | Ev::DriverGaveUp
                )
            };
            let mut base = base0;
            for step in &case.steps {
                if sh.find_from(0, ended).is_some() {
                    break;
                }
                match *step {
                    Step::Silence => {
                        let until = base.max(clock.now_ms()) + se_ms + 64_001;
                        sh.wait_for(0, until, ended).await;
                    }
                    Step::Send => {
                        let from = sh.len();
                        sh.want_send.store(true, Ordering::Relaxed);
                        let until = base.max(clock.now_ms()) + se_ms + 64_001;
                        let got = sh
                            .wait_for(from, until, |e| *e == Ev::RefreshSent || ended(e))
                            .await;
                        sh.want_send.store(false, Ordering::Relaxed);
                        match got {
                            Some((i, t)) if sh.events.lock()[i].1 == Ev::RefreshSent => base = t,
                            _ => break,
                        }
                    }
                    Step::Recv(off) => {
                        // a peer does not start a re-INVITE before it has ACKed the previous one
                        let after_ack = dlg.lock().last_ack_due + 1;
                        let at = (base + off_ms(off, se)).max(clock.now_ms() + 1).max(after_ack);
                        if sh.wait_for(0, at, ended).await.is_some() {
                            break;
                        }
                        let from = sh.len();
                        let bytes = peer.reinvite_bytes();
                        inject(&endpoint, &tp, peer_addr, &bytes);
                        settle().await;
                        // the application may be busy in process_default (64*T1) when it arrives
                        let got = sh
                            .wait_for(from, at + 70_000, |e| *e == Ev::RefreshRecv || ended(e))
                            .await;
                        match got {
                            Some((i, t)) if sh.events.lock()[i].1 == Ev::RefreshRecv => base = t,
                            _ => break,
                        }
                    }
                }
            }
            // final silence
            let until = base.max(clock.now_ms()) + se_ms + 64_001;
            sh.wait_for(0, until, |e| matches!(e, Ev::Terminated | Ev::DriveErr(_) | Ev::DriverGaveUp))
                .await;
            // let the tail (BYE transaction, blocked process_default) finish
            clock.advance(40_000).await;
        }
        settle().await;
        drop(keep_initiator);
        let horizon = clock.now_ms();
        let events = sh.events.lock().clone();
        let d = dlg.lock();
        SessObserved {
            events,
            wire: log.parsed(),
            horizon,
            peer_view: (d.se, d.ezk_refreshes),
        }
    })
}

fn render_events(ev: &[(u64, Ev)]) -> String {
    let mut s = String::new();
    let mut polls = 0;
    for (t, e) in ev {
        if *e == Ev::Poll {
            polls += 1;
            continue;
        }
        if s.len() > 1500 {
            s.push_str("...");
            break;
        }
        s.push_str(&format!("{t}:{e:?} "));
    }
    s.push_str(&format!("(polls={polls})"));
    s
}

pub fn check_session(case: &SessCase, out: &mut CaseOut) {
    let obs = run_session(case);
    let role = if case.uac { "uac" } else { "uas" };
    out.class(if case.uac { "role-uac" } else { "role-uas" });
    out.class(match case.refresher {
        1 => "param-refresher-uac",
        2 => "param-refresher-uas",
        _ => "param-refresher-absent",
    });

    // ---- negotiated values, from the 2xx
    let negotiated: Option<(u64, Option<bool>)> = if case.uac {
        // the peer's 2xx carries the generated values
        case.se.map(|se| {
            (
                se as u64,
                match case.refresher {
                    1 => Some(true),
                    2 => Some(false),
                    _ => None,
                },
            )
        })
    } else {
        // ezk's 2xx, read from the wire
        obs.wire
            .iter()
            .filter_map(|(_, m)| m.as_ref())
            .find(|m| m.status() == Some(200) && m.cseq() == Some((INIT_CSEQ, "INVITE".to_string())))
            .and_then(|m| m.header("session-expires").and_then(read_se))
            .map(|(se, r)| {
                (
                    se,
                    match r.as_deref() {
                        Some("uas") => Some(true),
                        Some("uac") => Some(false),
                        _ => None,
                    },
                )
            })
    };

    let established = obs.events.iter().find(|(_, e)| *e == Ev::Established).map(|(t, _)| *t);
    let no_session = obs.events.iter().find_map(|(_, e)| match e {
        Ev::NoSession(s) => Some(s.clone()),
        _ => None,
    });
    out.note = Some(format!(
        "negotiated={negotiated:?} horizon={} events: {}",
        obs.horizon,
        render_events(&obs.events)
    ));

    let (Some(base0), Some((se, designated)), None) = (established, negotiated, no_session.clone()) else {
        // no session resulted / no timer negotiated: only "no panic" is asserted
        out.class(if no_session.is_some() { "no-session" } else { "no-timer-negotiated" });
        return;
    };
    if se == 0 {
        out.class("negotiated-zero-interval");
        return;
    }
    let se_ms = se * 1000;

    // listening intervals of the application: [Poll, next driver event]
    let mut listening: Vec<(u64, u64)> = vec![];
    {
        let mut open: Option<u64> = None;
        for (t, e) in &obs.events {
            if *e == Ev::Poll {
                open = Some(*t);
            } else if e.from_driver() {
                if let Some(p) = open.take() {
                    listening.push((p, *t));
                }
            }
        }
        if let Some(p) = open {
            listening.push((p, obs.horizon));
        }
    }
    let listened = |a: u64, b: u64| listening.iter().any(|(p, e)| *p < b && *e > a);

    // ---- the monitor
    let mut local_refresher = designated; // None = no refresher parameter in the 2xx: either reading
    let mut base = base0;
    let mut phase = "initial";
    let mut told = false;
    let mut bye_seen = false;
    let mut refreshes = 0;
    let mut n_sent = 0;
    let mut n_recv = 0;
    let mut late_acks = 0;
    for (t, e) in &obs.events {
        let t = *t;
        match e {
            Ev::RefreshNeeded { .. } => {
                if local_refresher == Some(false) {
                    out.class("refresh-needed-on-non-refresher");
                    continue;
                }
                local_refresher = Some(true);
                if !told {
                    told = true;
                    if t >= base + se_ms {
                        if listened(base, base + se_ms) {
                            out.fail(
                                format!("c17.refresher/told-after-expiry:{role}:{phase}"),
                                format!(
                                    "{role} is refresher, SE={se}s, interval started at {base} ms, RefreshNeeded at {t} ms = expiry{:+} ms",
                                    t as i128 - (base + se_ms) as i128
                                ),
                            );
                        } else {
                            out.class("told-late-while-application-busy(not asserted)");
                        }
                    } else {
                        out.class("told-before-expiry");
                    }
                }
            }
            Ev::RefreshSent => {
                base = t;
                told = false;
                phase = "after-refresh-sent";
                refreshes += 1;
                n_sent += 1;
            }
            Ev::RefreshRecv => {
                base = t;
                told = false;
                // the interval restarts with the refresh (ezk's 2xx), whenever the ACK for it arrives
                let d = reinv_ack_delay(case, n_recv);
                phase = if d > 0 { "after-refresh-received-ack-delayed" } else { "after-refresh-received" };
                if d > 0 {
                    out.class("refresh-received:ack-delayed");
                    let margin = 10_000.min(se_ms / 2);
                    if d >= se_ms {
                        out.class("refresh-received:ack-later-than-the-interval(application busy, not asserted)");
                    } else if d >= margin {
                        late_acks += 1;
                        out.class("refresh-received:ack-later-than-refresh-margin");
                    }
                    if d > 11_500 {
                        out.class("refresh-received:ack-after->=5-retransmissions-of-the-2xx");
                    }
                }
                refreshes += 1;
                n_recv += 1;
            }
            Ev::ByeOnWire if !bye_seen => {
                bye_seen = true;
                if local_refresher == Some(true) {
                    out.class("bye-by-refresher(not asserted)");
                    continue;
                }
                local_refresher = Some(false);
                if t < base + se_ms {
                    out.fail(
                        format!("c17.nonrefresher/bye-before-expiry:{role}:{phase}"),
                        format!(
                            "{role} is not the refresher, SE={se}s, interval started at {base} ms, BYE at {t} ms = expiry{:+} ms",
                            t as i128 - (base + se_ms) as i128
                        ),
                    );
                } else if t > base + se_ms + 64_000 {
                    out.fail(
                        format!("c17.nonrefresher/bye-late:{role}:{phase}"),
                        format!("SE={se}s, interval started at {base} ms, BYE only at {t} ms"),
                    );
                } else {
                    out.class("bye-after-expiry");
                }
            }
            Ev::DriveErr(msg) => {
                out.class("drive-error");
                let _ = msg;
            }
            Ev::DriverGaveUp => {
                out.fail(
                    format!("c17.session/event-storm:{role}"),
                    "Session::drive yielded 3000 events in one case (busy loop)",
                );
            }
            _ => {}
        }
    }
    // ---- "not never"
    let session_over = obs
        .events
        .iter()
        .any(|(_, e)| matches!(e, Ev::ByeReceived | Ev::DriveErr(_) | Ev::Terminated));
    match local_refresher {
        Some(true) => {
            if !told && !bye_seen && !session_over && obs.horizon >= base + se_ms {
                if listened(base, base + se_ms) {
                    out.fail(
                        format!("c17.refresher/never-told:{role}:{phase}"),
                        format!("{role} is refresher, SE={se}s, interval started at {base} ms, no RefreshNeeded until {} ms", obs.horizon),
                    );
                } else {
                    out.class("told-late-while-application-busy(not asserted)");
                }
            }
        }
        Some(false) => {
            if !bye_seen && !session_over && obs.horizon >= base + se_ms + 64_000 {
                out.fail(
                    format!("c17.nonrefresher/never-bye:{role}:{phase}"),
                    format!("{role} is not the refresher, SE={se}s, interval started at {base} ms, no BYE until {} ms", obs.horizon),
                );
            }
        }
        None => {
            if !session_over && obs.horizon >= base + se_ms + 64_000 {
                out.fail(
                    format!("c17.session/timer-disabled:{role}"),
                    format!("SE={se}s negotiated, neither RefreshNeeded nor BYE until {} ms", obs.horizon),
                );
            }
        }
    }

    // ---- classes / non-triviality
    match (designated, local_refresher) {
        (Some(true), _) => out.class("local-is-refresher"),
        (Some(false), _) => out.class("local-is-non-refresher"),
        (None, Some(true)) => out.class("refresher-absent->acts-as-refresher"),
        (None, Some(false)) => out.class("refresher-absent->acts-as-non-refresher"),
        (None, None) => out.class("refresher-absent->undetermined(window only)"),
    }
    if n_sent > 0 {
        out.class("refresh-sent");
    }
    if n_recv > 0 {
        out.class("refresh-received");
    }
    if refreshes >= 2 {
        out.class("two-or-more-refreshes");
    }
    if late_acks > 0 {
        out.class(match local_refresher {
            Some(true) => "ack-later-than-refresh-margin:local-is-refresher",
            Some(false) => "ack-later-than-refresh-margin:local-is-non-refresher",
            None => "ack-later-than-refresh-margin:undetermined",
        });
    }
    if !case.uac && case.ack_delay >= 10_000 {
        out.class("initial-ack-delayed>=10s");
    }
    if case.steps.contains(&Step::Silence) {
        out.class("silence-step");
    }
    if se < 90 {
        out.class("SE<90");
    }
    if se >= (MAXU - 11) as u64 {
        out.class("SE-near-u32-max");
    }
    if se > CLOCK_MAX_S {
        out.class("SE-beyond-virtual-clock(120 s window only)");
    }
    if se.abs_diff(P31 as u64) <= 11 {
        out.class("SE-near-2^31");
    }
    if obs.events.iter().any(|(_, e)| matches!(e, Ev::Other(_))) {
        out.class("unexpected-message-from-ezk");
    }
    if obs.events.iter().any(|(_, e)| *e == Ev::ReInvAnswered(false)) {
        out.class("reinvite-not-accepted");
    }
    let _ = obs.peer_view;
    if near_edge(se) || refreshes >= 1 || local_refresher == Some(true) {
        out.nontrivial(case);
    }
}

// ---- generators (sessions)

fn histories_for_grid(uac: bool, tier: Tier) -> Vec<Vec<Step>> {
    use Off::*;
    use Step::*;
    let mut h = vec![
        vec![],
        vec![Recv(Half)],
        vec![Recv(Late)],
        vec![Recv(InMargin), Recv(BeforeMargin)],
        vec![Recv(Early), Recv(Late)],
    ];
    if uac {
        h.extend([
            vec![Send],
            vec![Send, Send],
            vec![Send, Recv(Late)],
            vec![Recv(Half), Send],
            vec![Silence, Send],
            vec![Send, Silence],
        ]);
    }
    if tier == Tier::Thorough {
        h.extend([
            vec![Recv(Late), Recv(Late), Recv(Late), Recv(Late)],
            vec![Recv(BeforeMargin)],
            vec![Recv(InMargin)],
            vec![Silence],
        ]);
        if uac {
            h.extend([
                vec![Send, Send, Send, Send],
                vec![Send, Recv(Half), Send, Recv(Late)],
                vec![Silence, Recv(Half), Send],
            ]);
        }
    }
    h
}

/// every history of length <= `n` over the role's step alphabet
fn all_histories(uac: bool, n: usize) -> Vec<Vec<Step>> {
    use Off::*;
    let mut alphabet = vec![
        Step::Silence,
        Step::Recv(Early),
        Step::Recv(Half),
        Step::Recv(BeforeMargin),
        Step::Recv(InMargin),
        Step::Recv(Late),
    ];
    if uac {
        alphabet.push(Step::Send);
    }
    let mut out: Vec<Vec<Step>> = vec![vec![]];
    let mut frontier: Vec<Vec<Step>> = vec![vec![]];
    for _ in 0..n {
        let mut next = vec![];
        for h in &frontier {
            for a in &alphabet {
                let mut h2 = h.clone();
                h2.push(*a);
                next.push(h2);
            }
        }
        out.extend(next.iter().cloned());
        frontier = next;
    }
    out
}

pub fn grid_uas(tier: Tier) -> Vec<SessCase> {
    let mut out = vec![];
    let mut ses: Vec<Option<u32>> = vec![None];
    ses.extend(SE_GRID.iter().map(|v| Some(*v)));
    let mut mins: Vec<Option<u32>> = vec![None];
    mins.extend(MINSE_GRID.iter().map(|v| Some(*v)));
    let hist = histories_for_grid(false, tier);
    let mut n = 0u32;
    for se in &ses {
        for refresher in 0..3u8 {
            if se.is_none() && refresher != 0 {
                continue;
            }
            for minse in &mins {
                for steps in &hist {
                    n += 1;
                    out.push(SessCase {
                        uac: false,
                        se: *se,
                        refresher,
                        minse: *minse,
                        cfg_se: None,
                        cfg_refresher: 0,
                        ack_delay: if n % 5 == 0 { 700 } else { 0 },
                        steps: steps.clone(),
                        rng: (n % 8) as u8,
                        reinv_ack_delays: vec![],
                    });
                }
            }
        }
    }
    // every history up to length 2 (thorough: 3) x every Min-SE, for a few offers
    let all = all_histories(false, tier.pick(2, 3));
    for (se, refresher) in [(None, 0u8), (Some(90u32), 1), (Some(90), 2), (Some(MAXU), 0), (Some(1), 2)] {
        for minse in &mins {
            for steps in &all {
                if steps.len() < 2 && hist.contains(steps) {
                    continue;
                }
                n += 1;
                out.push(SessCase {
                    uac: false,
                    se,
                    refresher,
                    minse: *minse,
                    cfg_se: None,
                    cfg_refresher: 0,
                    ack_delay: if n % 7 == 0 { 1300 } else { 0 },
                    steps: steps.clone(),
                    rng: (n % 8) as u8,
                    reinv_ack_delays: vec![],
                });
            }
        }
    }
    // refreshes received whose ACK is late (the 2xx is retransmitted meanwhile), for a few offers x every Min-SE
    for (se, refresher) in [(None, 0u8), (Some(90u32), 1), (Some(90), 2), (Some(1), 0)] {
        for minse in &mins {
            for (steps, delays) in late_ack_histories(false, tier) {
                n += 1;
                out.push(SessCase {
                    uac: false,
                    se,
                    refresher,
                    minse: *minse,
                    cfg_se: None,
                    cfg_refresher: 0,
                    ack_delay: if n % 6 == 0 { 12_001 } else { 0 },
                    steps,
                    rng: (n % 8) as u8,
                    reinv_ack_delays: delays,
                });
            }
        }
    }
    out
}

/// histories with refreshes received whose ACK arrives late: around the refresher's margin (10 s, half the
/// interval for short ones is covered by the 700 ms .. 9.999 s values on the SE < 20 rows), after several
/// retransmissions of the 2xx, and just before ezk would give up (64*T1)
fn late_ack_histories(uac: bool, tier: Tier) -> Vec<(Vec<Step>, Vec<u64>)> {
    use Off::*;
    use Step::*;
    let mut hs: Vec<Vec<Step>> = vec![
        vec![Recv(Half)],
        vec![Recv(Late)],
        vec![Recv(Early), Recv(Half)],
        vec![Recv(Half), Silence],
    ];
    if uac {
        hs.extend([vec![Recv(Half), Send], vec![Send, Recv(Half)]]);
    }
    let mut ds: Vec<Vec<u64>> = vec![vec![700], vec![4_700], vec![9_998], vec![10_001], vec![12_001], vec![31_000]];
    if tier == Tier::Thorough {
        hs.push(vec![Recv(Late), Recv(Late), Recv(Late)]);
        ds.extend([vec![1], vec![1_300], vec![20_001], vec![12_001, 1]]);
    }
    let mut out = vec![];
    for h in &hs {
        for d in &ds {
            out.push((h.clone(), d.clone()));
        }
        if h.iter().filter(|s| matches!(s, Recv(_))).count() >= 2 {
            // only the first / only the second ACK is late
            out.push((h.clone(), vec![12_001, 0]));
            out.push((h.clone(), vec![0, 12_001]));
        }
    }
    out
}

pub fn grid_uac(tier: Tier) -> Vec<SessCase> {
    let mut out = vec![];
    let hist = histories_for_grid(true, tier);
    // what ezk itself asks for does not take part in the negotiation result (the 2xx decides);
    // a few configurations are enough to run populate_request over the edge values
    let cfgs: &[(Option<u32>, u8, Option<u32>)] = &[
        (None, 0, None),
        (Some(1800), 1, Some(90)),
        (Some(MAXU), 2, Some(MAXU)),
        (Some(1), 0, Some(0)),
    ];
    let mut n = 0u32;
    for se in SE_GRID {
        for refresher in 0..3u8 {
            for (cfg_se, cfg_refresher, minse) in cfgs {
                for steps in &hist {
                    n += 1;
                    out.push(SessCase {
                        uac: true,
                        se: Some(*se),
                        refresher,
                        minse: *minse,
                        cfg_se: *cfg_se,
                        cfg_refresher: *cfg_refresher,
                        ack_delay: 0,
                        steps: steps.clone(),
                        rng: (n % 8) as u8,
                        reinv_ack_delays: vec![],
                    });
                }
            }
        }
    }
    // every history up to length 2 (thorough: 3) for every value and refresher parameter
    let all = all_histories(true, tier.pick(2, 3));
    for se in SE_GRID {
        for refresher in 0..3u8 {
            for steps in &all {
                if steps.len() < 2 && hist.contains(steps) {
                    continue;
                }
                n += 1;
                out.push(SessCase {
                    uac: true,
                    se: Some(*se),
                    refresher,
                    minse: None,
                    cfg_se: None,
                    cfg_refresher: 0,
                    ack_delay: 0,
                    steps: steps.clone(),
                    rng: (n % 8) as u8,
                    reinv_ack_delays: vec![],
                });
            }
        }
    }
    // refreshes received whose ACK is late, for every value and refresher parameter
    for se in SE_GRID {
        for refresher in 0..3u8 {
            for (steps, delays) in late_ack_histories(true, tier) {
                n += 1;
                out.push(SessCase {
                    uac: true,
                    se: Some(*se),
                    refresher,
                    minse: None,
                    cfg_se: None,
                    cfg_refresher: 0,
                    ack_delay: 0,
                    steps,
                    rng: (n % 8) as u8,
                    reinv_ack_delays: delays,
                });
            }
        }
    }
    out
}

/// ACK delays of the random sub-checks: none (most), short, around the 10 s margin, anywhere up to 64*T1
fn any_ack_delays() -> BoxedStrategy<Vec<u64>> {
    let one = prop_oneof![
        3 => Just(0u64),
        2 => 1u64..3000,
        2 => 9_000u64..12_500,
        3 => 0u64..=ACK_MAX_MS,
    ];
    prop_oneof![
        2 => Just(vec![]),
        3 => prop::collection::vec(one, 1..=4),
    ]
    .boxed()
}

fn any_secs(grid: &'static [u32], min: u32) -> BoxedStrategy<u32> {
    prop_oneof![
        3 => any::<u16>().prop_map(move |s| grid[pick_idx(s, grid.len())]),
        2 => 0u32..=(CLOCK_MAX_S as u32),
        // every magnitude below the clock limit
        2 => (0u32..26, any::<u32>()).prop_map(|(k, r)| (1u32 << k) + (r & ((1u32 << k) - 1))),
        1 => any::<u32>(),
        1 => 0u32..200,
        1 => (MAXU - 40)..=MAXU,
    ]
    .prop_map(move |v| v.max(min))
    .boxed()
}

fn any_off() -> BoxedStrategy<Off> {
    prop_oneof![
        Just(Off::Early),
        Just(Off::Half),
        Just(Off::BeforeMargin),
        Just(Off::InMargin),
        Just(Off::Late),
        any::<u16>().prop_map(Off::Frac),
    ]
    .boxed()
}

fn any_steps(uac: bool) -> BoxedStrategy<Vec<Step>> {
    let step = if uac {
        prop_oneof![
            1 => Just(Step::Silence),
            3 => Just(Step::Send),
            3 => any_off().prop_map(Step::Recv),
        ]
        .boxed()
    } else {
        // callee role: the acceptor's timer configuration cannot be set through the public API, ezk
        // is never the refresher there, so `Send` steps would be void
        prop_oneof![
            1 => Just(Step::Silence),
            6 => any_off().prop_map(Step::Recv),
        ]
        .boxed()
    };
    prop::collection::vec(step, 0..=4).boxed()
}

pub fn strategy_uas() -> BoxedStrategy<SessCase> {
    (
        prop::option::weighted(0.85, any_secs(SE_GRID, 1)),
        0u8..3,
        prop::option::weighted(0.85, any_secs(MINSE_GRID, 0)),
        prop_oneof![3 => Just(0u64), 1 => Just(700u64), 2 => 1u64..3000, 1 => 3000u64..=ACK_MAX_MS],
        any_steps(false),
        any::<u8>(),
        any_ack_delays(),
    )
        .prop_map(|(se, refresher, minse, ack_delay, steps, rng, reinv_ack_delays)| SessCase {
            uac: false,
            se,
            refresher: if se.is_some() { refresher } else { 0 },
            minse,
            cfg_se: None,
            cfg_refresher: 0,
            ack_delay,
            steps,
            rng,
            reinv_ack_delays,
        })
        .boxed()
}

pub fn strategy_uac() -> BoxedStrategy<SessCase> {
    (
        any_secs(SE_GRID, 1),
        0u8..3,
        prop::option::weighted(0.7, any_secs(MINSE_GRID, 0)),
        prop::option::weighted(0.7, any_secs(SE_GRID, 0)),
        0u8..3,
        any_steps(true),
        any::<u8>(),
        any_ack_delays(),
    )
        .prop_map(|(se, refresher, minse, cfg_se, cfg_refresher, steps, rng, reinv_ack_delays)| SessCase {
            uac: true,
            se: Some(se),
            refresher,
            minse,
            cfg_se,
            cfg_refresher,
            ack_delay: 0,
            steps,
            rng,
            reinv_ack_delays,
        })
        .boxed()
}

// ------------------------------------------------------------------------------------------
// registrations

/// The `Expires` header of a 200
#[derive(Serialize, Deserialize, Clone, Copy, Debug, Hash, PartialEq, Eq, Default)]
pub enum Hdr {
    /// `Expires: <granted>` (what the registrar granted to our binding)
    #[default]
    Own,
    /// no Expires header (RFC 3261 10.3 step 8 only requires the `expires` parameter of every listed Contact)
    Absent,
    /// `Expires: v` with some other value
    Other(u32),
}

/// How our own binding appears in the Contact list of a 200
#[derive(Serialize, Deserialize, Clone, Copy, Debug, Hash, PartialEq, Eq, Default)]
pub enum OwnBinding {
    #[default]
    NotListed,
    /// listed without `expires` parameter
    NoParam,
    /// listed with `;expires=<granted>`
    Param,
}

/// What the 200 of the registrar looks like: RFC 3261 10.3 step 8 has the registrar return ALL current
/// bindings of the address-of-record (other devices of the same user included), each with the lifetime
/// the registrar chose for it; 10.2.4: the UA finds the lifetime of ITS binding in the `expires`
/// parameter of its own Contact, and in the `Expires` header when that parameter is missing.
/// The default value is the plain `Expires: <granted>` answer without Contact header.
#[derive(Serialize, Deserialize, Clone, Debug, Hash, PartialEq, Eq, Default)]
pub struct Shape {
    #[serde(default)]
    pub hdr: Hdr,
    #[serde(default)]
    pub own: OwnBinding,
    /// bindings of other devices: (index into `FOREIGN`, `expires` parameter)
    #[serde(default)]
    pub others: Vec<(u8, Option<u32>)>,
    /// how many of the other bindings are listed before our own (clamped to their number)
    #[serde(default)]
    pub own_pos: u8,
    /// 0: one comma separated `Contact:` header, 1: one `Contact:` header per binding, 2: compact form `m:`
    #[serde(default)]
    pub layout: u8,
    /// spelling of our own binding: 0 `<uri>;expires=N`, 1 `<uri>;q=0.5;expires=N`, 2 `"Alice" <uri>;expires=N`,
    /// 3 `<uri>;EXPIRES=N`, 4 `<uri>;expires=N;q=0.5`
    #[serde(default)]
    pub own_style: u8,
    /// Expires header before (true) / after the Contact headers
    #[serde(default)]
    pub hdr_first: bool,
}

/// Contact URIs of other devices registered for the same address-of-record. None of them is equivalent
/// to ezk's own contact `sip:alice@10.0.0.1:5060` under RFC 3261 19.1.4 (host, port, user or scheme differ).
pub const FOREIGN: &[&str] = &[
    "sip:alice@10.0.0.77:5060",
    "sip:alice@10.0.0.1:5062",
    "sip:bob@10.0.0.1:5060",
    "sip:alice@[2001:db8::7]:5060",
    "sips:alice@desk.example.com",
    "sip:alice@10.0.0.10:5060",
];

/// where the 200 states the lifetime of OUR binding
#[derive(Clone, Copy, Debug, PartialEq, Eq)]
pub enum Src {
    /// the Expires header (our Contact is not listed, has no `expires` parameter, or repeats the header's value)
    Header,
    /// only the `expires` parameter of our own Contact (Expires header absent or stating something else)
    ContactParam,
}

/// RFC 3261 10.2.4 reading of a 200 (written from the RFC text, independent of ezk): lifetime of our own
/// binding and where it is stated; None = the 200 states no lifetime for our binding
pub fn stated_lifetime(granted: u32, sh: &Shape) -> Option<(u32, Src)> {
    match (sh.own, sh.hdr) {
        (OwnBinding::Param, Hdr::Own) => Some((granted, Src::Header)),
        (OwnBinding::Param, Hdr::Other(v)) if v == granted => Some((granted, Src::Header)),
        (OwnBinding::Param, _) => Some((granted, Src::ContactParam)),
        (_, Hdr::Own) => Some((granted, Src::Header)),
        (_, Hdr::Other(v)) => Some((v, Src::Header)),
        (_, Hdr::Absent) => None,
    }
}

/// every number of seconds that appears in the 200 (any of them may end up in a timer of a changed ezk)
fn values_in_200(granted: u32, sh: &Shape) -> Vec<u32> {
    let mut v = vec![];
    match sh.hdr {
        Hdr::Own => v.push(granted),
        Hdr::Other(o) => v.push(o),
        Hdr::Absent => {}
    }
    if sh.own == OwnBinding::Param {
        v.push(granted);
    }
    v.extend(sh.others.iter().filter_map(|(_, e)| *e));
    v
}

/// the Expires / Contact header lines of the 200; `own_uri` is the Contact URI of the REGISTER (from the wire)
pub fn binding_headers(own_uri: &str, granted: u32, sh: &Shape) -> Vec<String> {
    let mut entries: Vec<String> = sh
        .others
        .iter()
        .map(|(i, e)| {
            let uri = FOREIGN[(*i as usize).min(FOREIGN.len() - 1)];
            match e {
                Some(v) => format!("<{uri}>;expires={v}"),
                None => format!("<{uri}>"),
            }
        })
        .collect();
    if sh.own != OwnBinding::NotListed {
        let with = sh.own == OwnBinding::Param;
        let own = match (sh.own_style, with) {
            (1, true) => format!("<{own_uri}>;q=0.5;expires={granted}"),
            (2, true) => format!("\"Alice\" <{own_uri}>;expires={granted}"),
            (3, true) => format!("<{own_uri}>;EXPIRES={granted}"),
            (4, true) => format!("<{own_uri}>;expires={granted};q=0.5"),
            (_, true) => format!("<{own_uri}>;expires={granted}"),
            (1, false) | (4, false) => format!("<{own_uri}>;q=0.5"),
            (2, false) => format!("\"Alice\" <{own_uri}>"),
            (_, false) => format!("<{own_uri}>"),
        };
        let pos = (sh.own_pos as usize).min(entries.len());
        entries.insert(pos, own);
    }
    let mut contact_lines = vec![];
    if !entries.is_empty() {
        match sh.layout {
            1 => contact_lines.extend(entries.iter().map(|e| format!("Contact: {e}"))),
            2 => contact_lines.push(format!("m: {}", entries.join(", "))),
            _ => contact_lines.push(format!("Contact: {}", entries.join(", "))),
        }
    }
    let hdr = match sh.hdr {
        Hdr::Own => Some(format!("Expires: {granted}")),
        Hdr::Other(v) => Some(format!("Expires: {v}")),
        Hdr::Absent => None,
    };
    let mut lines = vec![];
    if sh.hdr_first {
        lines.extend(hdr);
        lines.extend(contact_lines);
    } else {
        lines.extend(contact_lines);
        lines.extend(hdr);
    }
    lines
}

#[derive(Serialize, Deserialize, Clone, Debug, Hash, PartialEq, Eq)]
pub enum Ans {
    /// 200 granting `granted` seconds to our binding, arriving `delay` ms after the REGISTER; `shape` says how
    /// the 200 states that (default: `Expires: granted`, no Contact)
    Ok {
        granted: u32,
        delay: u64,
        #[serde(default)]
        shape: Shape,
    },
    /// 423 with `Min-Expires: min`
    TooBrief { min: u32, delay: u64 },
    /// The application takes the binding away: this round's REGISTER is `create_register(true)` (Expires: 0).
    /// The registrar answers 200 after `delay` ms (`resp`: what that 200 looks like and whether the
    /// application hands it to `receive_success_response`), then the application stays unregistered for
    /// `pause_s` seconds (it does not call `wait_for_expiry`: there is nothing to refresh) before the next round.
    Unregister { delay: u64, resp: UnregResp, pause_s: u32 },
    /// The REGISTER (`create_register(false)`) is rejected with a final response that carries no Min-Expires
    /// (`code` from `REJECT_CODES`); the application hands it to `receive_error_response`, waits `pause_s`
    /// seconds and tries again with the next round.
    Rejected { code: u16, delay: u64, pause_s: u32 },
}

/// The 200 to an un-REGISTER. RFC 3261 10.3 step 8: it lists the bindings that remain, ours is not among them.
/// A 200 that still states a lifetime for our own binding (`Expires: 0` echo, own Contact with `;expires=0`)
/// is not generated: ezk then asks for `Expires: 0` in the next REGISTER as well (the stored lifetime doubles
/// as the next request's value), and a registrar granting a lifetime to a removal is outside the domain.
#[derive(Serialize, Deserialize, Clone, Copy, Debug, Hash, PartialEq, Eq, Default)]
pub enum UnregResp {
    /// 200 without Expires / Contact, not handed to the `Registration` (the application only looks at the code)
    #[default]
    NotFed,
    /// 200 without Expires / Contact, handed to `receive_success_response`
    Bare,
    /// 200 listing two bindings of other devices (with their own expires parameters), no Expires header, handed over
    OthersListed,
}

pub const REJECT_CODES: &[u16] = &[400, 401, 403, 404, 408, 480, 500, 503, 600];

/// plain 200 with `Expires: granted`
fn ok(granted: u32, delay: u64) -> Ans {
    Ans::Ok { granted, delay, shape: Shape::default() }
}

#[derive(Serialize, Deserialize, Clone, Debug, Hash)]
pub struct RegCase {
    /// `Registration::new(.., expiry)` in seconds
    pub init: u32,
    pub answers: Vec<Ans>,
    pub rng: u8,
}

#[derive(Debug, Clone)]
pub struct RegWait {
    /// lifetime of our binding as the 200 states it (RFC 3261 10.2.4); None: the 200 states none
    pub lifetime: Option<u32>,
    pub src: Src,
    /// the 200 listed our own / other devices' bindings
    pub own_listed: bool,
    pub others_listed: bool,
    pub granted_at: u64,
    pub returned_at: Option<u64>,
    /// what the round before this 200 was: "200" (a 200 or nothing), "after-423", "after-unregister", "after-rejection"
    pub prev: &'static str,
    /// an un-REGISTER happened on this object at some earlier round
    pub unregistered_before: bool,
    /// false: only a 120 s window was watched
    pub timed: bool,
}

/// longest pause of the application between two rounds (well inside the range of the virtual clock)
pub const PAUSE_MAX_S: u32 = 200_000;

/// the application does nothing for `pause_s` seconds. While a timer beyond the range of the virtual clock may
/// be registered (`tainted`) the clock stays below 2^30 ms: the pause is cut short there
async fn pause(clock: &Clock, pause_s: u32, tainted: bool) {
    let ms = pause_s.min(PAUSE_MAX_S) as u64 * 1000;
    if ms > 0 && (!tainted || clock.now_ms() + ms + 64_000 < (1 << 30)) {
        clock.advance(ms).await;
    }
}

pub struct RegObserved {
    /// first transmission of every REGISTER transaction: (call-id, cseq, Expires header)
    pub registers: Vec<(String, u32, Option<String>)>,
    pub waits: Vec<RegWait>,
    pub problems: Vec<String>,
    /// rounds of the case that were started (all of them unless the case ended at a refresh that never came)
    pub rounds_run: usize,
}

pub fn run_registration(case: &RegCase) -> RegObserved {
    let case = case.clone();
    run_world(case.rng as u64, |clock| async move {
        let log = WireLog::new(clock);
        let (tp, _) = mock_datagram(&log, "UDP", false, false, EZK_ADDR);
        let endpoint = offline_builder().build();
        let peer: SocketAddr = PEER_ADDR.parse().unwrap();
        let mut target = TargetTransportInfo {
            via_host_port: None,
            transport: Some((tp.clone(), peer)),
        };
        let id = endpoint.parse_uri("sip:alice@example.com").unwrap();
        let contact = endpoint.parse_uri("sip:alice@10.0.0.1:5060").unwrap();
        let registrar = endpoint.parse_uri("sip:example.com").unwrap();
        let mut registration = Registration::new(
            NameAddr::uri(id),
            NameAddr::uri(contact),
            registrar,
            Duration::from_secs(case.init as u64),
        );
        let mut waits = vec![];
        let mut problems = vec![];
        let mut prev: &'static str = "200";
        let mut unregistered_before = false;
        let mut rounds_run = 0usize;
        // Set when `wait_for_expiry` did not return within lifetime + 64 s. The case ends there (the failure is
        // recorded), and the object is leaked instead of dropped: its timer may then be armed beyond the range
        // of tokio's wheel (a changed ezk parking it "forever"), and dropping / re-arming such a `Sleep` after it
        // was polled corrupts the wheel's lists (see `CLOCK_MAX_S`) - the process would die instead of reporting.
        let mut gave_up = false;
        let mut tainted = case.init as u64 > CLOCK_MAX_S;
        for ans in &case.answers {
            // every value of the answer may end up in a timer (of a changed ezk: also the other devices' values)
            tainted |= match ans {
                Ans::Ok { granted, shape, .. } => {
                    *granted as u64 > CLOCK_MAX_S || values_in_200(*granted, shape).iter().any(|v| *v as u64 > CLOCK_MAX_S)
                }
                Ans::TooBrief { min, .. } => *min as u64 > CLOCK_MAX_S,
                // nothing is to be refreshed after these rounds: an implementation may park its timer then, a
                // changed one possibly beyond the range of the wheel. From here on a lifetime is only followed
                // while the whole case stays below 2^30 ms (~12 days), otherwise for the 120 s window
                Ans::Unregister { .. } | Ans::Rejected { .. } => true,
            };
            rounds_run += 1;
            let request = registration.create_register(matches!(ans, Ans::Unregister { .. }));
            let before = log.len();
            let mut tsx = match endpoint.send_request(request, &mut target).await {
                Ok(t) => t,
                Err(e) => {
                    problems.push(format!("send_request: {e}"));
                    break;
                }
            };
            settle().await;
            let Some(req) = log.snapshot().get(before).and_then(|s| WireMsg::parse(&s.bytes)) else {
                problems.push("REGISTER not on the wire".into());
                break;
            };
            let (code, extra, delay) = match ans {
                Ans::Ok { granted, delay, shape } => {
                    // our own binding is listed exactly as the REGISTER spelled it
                    let own_uri = contact_uri(&req).unwrap_or_else(|| "sip:alice@10.0.0.1:5060".to_string());
                    (200, binding_headers(&own_uri, *granted, shape), *delay)
                }
                Ans::TooBrief { min, delay } => (423, vec![format!("Min-Expires: {min}")], *delay),
                Ans::Unregister { delay, resp, .. } => {
                    let extra = match resp {
                        UnregResp::OthersListed => {
                            vec![format!("Contact: <{}>;expires=3412, <{}>;expires=30", FOREIGN[0], FOREIGN[2])]
                        }
                        _ => vec![],
                    };
                    (200, extra, *delay)
                }
                Ans::Rejected { code, delay, .. } => (*code, vec![], *delay),
            };
            if delay > 0 {
                clock.advance(delay).await;
            }
            inject(&endpoint, &tp, peer, &response_text(&req, code, Some("c17regtag"), &extra));
            let response = match tokio::time::timeout(Duration::from_secs(40), tsx.receive_final()).await {
                Ok(Ok(r)) => r,
                Ok(Err(e)) => {
                    problems.push(format!("receive_final: {e}"));
                    break;
                }
                Err(_) => {
                    problems.push("receive_final: no result".into());
                    break;
                }
            };
            match ans {
                Ans::Ok { granted, shape, .. } => {
                    registration.receive_success_response(response);
                    let granted_at = clock.now_ms();
                    let stated = stated_lifetime(*granted, shape);
                    // watched for the stated lifetime (a 200 stating none: for what `granted` would have been)
                    let l = stated.map(|(l, _)| l).unwrap_or(*granted);
                    // a lifetime beyond the clock range leaves a far timer inside tokio; while one may be
                    // registered the clock stays below the first top-level slot boundary (2^30 ms)
                    let full = (l.max(20) as u64) * 1000 + 64_000;
                    let timed = l as u64 <= CLOCK_MAX_S && (!tainted || clock.now_ms() + full < (1 << 30));
                    let limit = if timed { full } else { WINDOW_MS };
                    let r = tokio::time::timeout(Duration::from_millis(limit), registration.wait_for_expiry()).await;
                    // a refresh that never came although it was followed on the clock: whatever timer the
                    // object is waiting on now is not one this case accounts for (see `gave_up`)
                    gave_up = timed && r.is_err();
                    waits.push(RegWait {
                        lifetime: stated.map(|(l, _)| l),
                        src: stated.map(|(_, s)| s).unwrap_or(Src::Header),
                        own_listed: shape.own != OwnBinding::NotListed,
                        others_listed: !shape.others.is_empty(),
                        granted_at,
                        returned_at: r.ok().map(|_| clock.now_ms()),
                        prev,
                        unregistered_before,
                        timed,
                    });
                    prev = "200";
                    if gave_up {
                        break;
                    }
                }
                Ans::TooBrief { .. } => {
                    let _retry = registration.receive_error_response(response);
                    prev = "after-423";
                }
                Ans::Unregister { resp, pause_s, .. } => {
                    if *resp != UnregResp::NotFed {
                        registration.receive_success_response(response);
                    }
                    pause(&clock, *pause_s, tainted).await;
                    prev = "after-unregister";
                    unregistered_before = true;
                }
                Ans::Rejected { pause_s, .. } => {
                    let _retry = registration.receive_error_response(response);
                    pause(&clock, *pause_s, tainted).await;
                    prev = "after-rejection";
                }
            }
        }
        // transaction timers of the last exchange
        clock.advance(40_000).await;
        let mut registers = vec![];
        let mut branches: Vec<String> = vec![];
        for (_, m) in log.parsed() {
            let Some(m) = m else { continue };
            if m.method() != Some("REGISTER") {
                continue;
            }
            let b = m.via_branch().unwrap_or_default();
            if branches.contains(&b) {
                continue;
            }
            branches.push(b);
            registers.push((
                m.call_id().unwrap_or("").to_string(),
                m.cseq().map(|c| c.0).unwrap_or(0),
                m.header("expires").map(|s| s.to_string()),
            ));
        }
        if gave_up {
            std::mem::forget(registration);
        }
        RegObserved { registers, waits, problems, rounds_run }
    })
}

pub fn check_registration(case: &RegCase, out: &mut CaseOut) {
    let obs = run_registration(case);
    out.note = Some(format!(
        "registers={:?} waits={:?} problems={:?}",
        obs.registers, obs.waits, obs.problems
    ));
    for p in &obs.problems {
        let _ = p;
        out.class("harness-problem");
    }
    // Call-ID / CSeq
    for w in obs.registers.windows(2) {
        if w[0].0 != w[1].0 || w[0].0.is_empty() {
            out.fail(
                "c17.reg/call-id-changed",
                format!("successive REGISTERs carry Call-ID {:?} then {:?}", w[0].0, w[1].0),
            );
        }
        if w[1].1 as u64 != w[0].1 as u64 + 1 {
            out.fail(
                "c17.reg/cseq-step",
                format!("successive REGISTERs carry CSeq {} then {}", w[0].1, w[1].1),
            );
        }
    }
    if obs.problems.is_empty() && obs.registers.len() != obs.rounds_run {
        out.fail(
            "c17.reg/register-count",
            format!("{} REGISTER transactions for {} rounds", obs.registers.len(), obs.rounds_run),
        );
    }
    // refresh before the lifetime of OUR binding ends
    for w in &obs.waits {
        let Some(l) = w.lifetime else {
            out.class("200-states-no-lifetime-for-our-binding(not asserted)");
            continue;
        };
        let l = l as u64;
        if l <= 10 {
            out.class("lifetime<=10s(not asserted)");
            continue;
        }
        let kind = w.prev;
        // what the 200 looked like (part of the signature: a change that is confused by the listed bindings
        // fails under another name than one that mis-handles the plain Expires answer)
        let listed = match (w.others_listed, w.own_listed) {
            (true, _) => ":other-bindings-listed",
            (false, true) => ":own-binding-listed",
            (false, false) => "",
        };
        out.class(match (w.src, w.others_listed) {
            (Src::Header, false) => "checked-against-expires-header",
            (Src::Header, true) => "checked-against-expires-header-with-other-bindings-listed",
            (Src::ContactParam, false) => "checked-against-own-contact-param",
            (Src::ContactParam, true) => "checked-against-own-contact-param-with-other-bindings-listed",
        });
        let expiry = w.granted_at + l * 1000;
        let late: Option<String> = match w.returned_at {
            Some(t) if t < expiry => {
                out.class("refresh-before-expiry");
                None
            }
            Some(t) => Some(format!(
                "wait_for_expiry returned at {t} ms = expiry{:+} ms",
                t as i128 - expiry as i128
            )),
            None if !w.timed => {
                out.class(if l > CLOCK_MAX_S {
                    "lifetime-beyond-virtual-clock(120 s window only)"
                } else {
                    "lifetime-not-followed:case-would-leave-the-first-2^30-ms(120 s window only)"
                });
                None
            }
            None => Some("wait_for_expiry did not return within lifetime+64s".to_string()),
        };
        let Some(how) = late else { continue };
        let never = w.returned_at.is_none();
        match w.src {
            Src::Header => out.fail(
                format!(
                    "c17.reg/{}:{kind}{listed}",
                    if never { "never-refreshed" } else { "refresh-not-before-expiry" }
                ),
                format!("lifetime {l}s granted at {} ms (Expires header), {how}", w.granted_at),
            ),
            // one signature for "the expires parameter of the own Contact is the only place that states the
            // lifetime and the refresh came too late / not at all"
            Src::ContactParam => out.fail(
                "c17.reg/not-refreshed-before-own-contact-expires",
                format!(
                    "lifetime {l}s granted at {} ms through the expires parameter of our own Contact (Expires header absent or different), {how}",
                    w.granted_at
                ),
            ),
        }
    }
    let mut vals: Vec<u64> = vec![case.init as u64];
    let mut shaped = false;
    for a in &case.answers {
        match a {
            Ans::Ok { granted, shape, .. } => {
                vals.push(*granted as u64);
                if *shape != Shape::default() {
                    shaped = true;
                }
                // ---- classes of the 200's shape
                let own_pos = (shape.own_pos as usize).min(shape.others.len());
                match shape.own {
                    OwnBinding::NotListed => {
                        if !shape.others.is_empty() {
                            out.class("200:only-other-bindings-listed");
                        }
                    }
                    OwnBinding::NoParam => out.class("200:own-binding-listed-without-expires-param"),
                    OwnBinding::Param => out.class("200:own-binding-listed-with-expires-param"),
                }
                if !shape.others.is_empty() {
                    out.class("200:other-bindings-listed");
                    if shape.own != OwnBinding::NotListed {
                        out.class(if own_pos == 0 {
                            "200:own-binding-first"
                        } else if own_pos == shape.others.len() {
                            "200:own-binding-last"
                        } else {
                            "200:own-binding-in-the-middle"
                        });
                    }
                    let stated = stated_lifetime(*granted, shape).map(|(l, _)| l);
                    let first_foreign_first = shape.own == OwnBinding::NotListed || own_pos > 0;
                    if let Some(l) = stated {
                        if shape.others.iter().any(|(_, e)| e.map_or(false, |e| e > l)) {
                            out.class("200:other-binding-outlives-ours");
                        }
                        if shape.others.iter().any(|(_, e)| e.map_or(false, |e| e < l)) {
                            out.class("200:other-binding-shorter-than-ours");
                        }
                        if first_foreign_first && shape.others[0].1.map_or(false, |e| e > l) {
                            out.class("200:first-listed-binding-is-foreign-and-outlives-ours");
                        }
                    }
                    if shape.others.iter().any(|(_, e)| e.is_none()) {
                        out.class("200:other-binding-without-expires-param");
                    }
                }
                match shape.hdr {
                    Hdr::Own => {}
                    Hdr::Absent => out.class("200:no-expires-header"),
                    Hdr::Other(v) => out.class(if v > *granted {
                        "200:expires-header-above-own-contact-param"
                    } else if v < *granted {
                        "200:expires-header-below-own-contact-param"
                    } else {
                        "200:expires-header-equals-own-contact-param"
                    }),
                }
                if matches!(stated_lifetime(*granted, shape), Some((_, Src::ContactParam))) {
                    out.class("200:lifetime-only-in-own-contact-param");
                }
                if shape.own != OwnBinding::NotListed || !shape.others.is_empty() {
                    out.class(match shape.layout {
                        1 => "200:one-contact-header-per-binding",
                        2 => "200:compact-contact-header",
                        _ => "200:comma-separated-contact-header",
                    });
                }
            }
            Ans::TooBrief { min, .. } => {
                out.class("423-min-expires");
                vals.push(*min as u64)
            }
            Ans::Unregister { .. } | Ans::Rejected { .. } => {}
        }
    }
    if obs.waits.iter().any(|w| w.prev == "after-423") {
        out.class("200-after-423");
    }
    if obs.waits.iter().any(|w| w.prev == "after-unregister") {
        out.class("200-after-unregister");
    }
    if obs.waits.iter().any(|w| w.prev == "after-rejection") {
        out.class("200-after-rejection");
    }
    if obs.waits.iter().any(|w| w.prev == "after-unregister" && w.timed && w.lifetime.map_or(false, |l| l > 10)) {
        out.class("200-after-unregister:lifetime-followed-on-the-clock");
    }
    if obs.waits.iter().any(|w| w.prev == "after-rejection" && w.timed && w.lifetime.map_or(false, |l| l > 10)) {
        out.class("200-after-rejection:lifetime-followed-on-the-clock");
    }
    if obs.waits.iter().any(|w| w.unregistered_before && w.prev != "after-unregister") {
        out.class("200-on-an-object-unregistered-earlier");
    }
    // registered again with the lifetime the object already holds (from `new` or an earlier 200)
    {
        let mut held: Option<u32> = Some(case.init);
        let mut after_unreg = false;
        for a in &case.answers {
            match a {
                Ans::Ok { granted, shape, .. } => {
                    let l = stated_lifetime(*granted, shape).map(|(l, _)| l);
                    if after_unreg && l.is_some() && l == held {
                        out.class("registered-again-after-unregister-with-the-same-lifetime");
                    } else if after_unreg {
                        out.class("registered-again-after-unregister-with-another-lifetime");
                    }
                    if l.is_some() {
                        held = l;
                    }
                    after_unreg = false;
                }
                Ans::TooBrief { min, .. } => held = Some(*min),
                Ans::Unregister { resp, pause_s, .. } => {
                    after_unreg = true;
                    out.class(match resp {
                        UnregResp::NotFed => "unregister:200-not-handed-to-the-registration",
                        UnregResp::Bare => "unregister:bare-200-handed-over",
                        UnregResp::OthersListed => "unregister:200-lists-other-bindings",
                    });
                    if held.map_or(false, |h| *pause_s as u64 + 10 > h as u64) {
                        out.class("unregister:pause-longer-than-the-old-refresh-period");
                    }
                }
                Ans::Rejected { .. } => out.class("register-rejected"),
            }
        }
    }
    if obs.waits.iter().any(|w| w.lifetime.map_or(false, |l| l > 10 && l < 20)) {
        out.class("lifetime-in-(10,20)");
    }
    if obs.waits.iter().any(|w| w.lifetime.map_or(false, |l| l >= MAXU - 11)) {
        out.class("lifetime-near-u32-max");
    }
    if obs.waits.len() >= 2 {
        out.class("two-or-more-grants");
    }
    if vals.iter().any(|v| near_edge(*v)) || case.answers.len() >= 2 || shaped {
        out.nontrivial(case);
    }
}

pub fn grid_reg(tier: Tier) -> Vec<RegCase> {
    let mut out = vec![];
    let mut n = 0u32;
    let inits: &[u32] = tier.pick(&[600, 11, MAXU][..], EXP_GRID);
    let delays = [0u64, 1, 700, 5000];
    let mut push = |init: u32, answers: Vec<Ans>, n: &mut u32| {
        *n += 1;
        out.push(RegCase { init, answers, rng: (*n % 8) as u8 });
    };
    for &init in inits {
        for &a in EXP_GRID {
            let d = delays[(n % 4) as usize];
            // one grant; the same grant twice (second cycle keeps the interval)
            push(init, vec![ok(a, d)], &mut n);
            push(init, vec![ok(a, 0), ok(a, d)], &mut n);
            for &b in EXP_GRID {
                let d = delays[(n % 4) as usize];
                push(init, vec![ok(a, 0), ok(b, d)], &mut n);
                push(init, vec![Ans::TooBrief { min: a, delay: d }, ok(b, 0)], &mut n);
            }
            push(init, vec![Ans::TooBrief { min: a, delay: 0 }, ok(a, 700), ok(a, 0)], &mut n);
        }
    }
    // a grant equal to what was asked for (the interval created by `new` stays in use)
    for &v in EXP_GRID {
        push(v, vec![ok(v, 700), ok(v, 0)], &mut n);
    }
    out
}

/// histories on ONE `Registration` object with rounds that are not a grant: the binding is removed
/// (`create_register(true)`) and registered again later, or a REGISTER is rejected and repeated.
/// value (granted before and again / another one granted afterwards / never granted before, = or != the
/// lifetime `new` was given) x what the 200 to the un-REGISTER looks like x length of the pause
pub fn grid_reg_history(tier: Tier) -> Vec<RegCase> {
    let mut out = vec![];
    let mut n = 0u32;
    let values: &[u32] = tier.pick(&[11, 12, 20, 21, 90, 600, 1800, 67_000_000, MAXU][..], EXP_GRID);
    let resps = [UnregResp::NotFed, UnregResp::Bare, UnregResp::OthersListed];
    let delays = [0u64, 1, 700, 5000];
    for &l in values {
        // another lifetime than `l`
        let m = if l == 600 { 3600 } else { 600 };
        for init in [l, m] {
            for resp in resps {
                // shorter than any refresh period / a minute / longer than the old lifetime
                for pause_s in [0u32, 60, (l.min(PAUSE_MAX_S - 100)) + 5] {
                    n += 1;
                    let d = delays[(n % 4) as usize];
                    let un = Ans::Unregister { delay: d, resp, pause_s };
                    let hs: Vec<Vec<Ans>> = vec![
                        vec![ok(l, 0), un.clone(), ok(l, d)],
                        vec![ok(l, 0), ok(l, 0), un.clone(), ok(l, 0)],
                        vec![un.clone(), ok(l, d)],
                        vec![ok(l, d), un.clone(), ok(m, 0)],
                        vec![ok(m, 0), un.clone(), ok(l, 0), ok(l, 0)],
                        vec![ok(l, 0), un.clone(), un.clone(), ok(l, 700)],
                        vec![ok(l, 0), un.clone(), Ans::TooBrief { min: m, delay: 0 }, ok(m, 0)],
                        vec![ok(l, 0), un.clone(), ok(l, 0), un.clone(), ok(l, 0)],
                    ];
                    for answers in hs {
                        n += 1;
                        out.push(RegCase { init, answers, rng: (n % 8) as u8 });
                    }
                }
            }
            for (i, &code) in REJECT_CODES.iter().enumerate() {
                if tier == Tier::Quick && i % 3 != (n % 3) as usize {
                    continue;
                }
                for pause_s in [0u32, 30, (l.min(PAUSE_MAX_S - 100)) + 5] {
                    n += 1;
                    let d = delays[(n % 4) as usize];
                    let rej = Ans::Rejected { code, delay: d, pause_s };
                    let hs: Vec<Vec<Ans>> = vec![
                        vec![rej.clone(), ok(l, 0)],
                        vec![ok(l, 0), rej.clone(), ok(l, d)],
                        vec![ok(l, d), rej.clone(), ok(m, 0)],
                        vec![ok(l, 0), rej.clone(), rej.clone(), ok(l, 0), ok(l, 0)],
                    ];
                    for answers in hs {
                        n += 1;
                        out.push(RegCase { init, answers, rng: (n % 8) as u8 });
                    }
                }
            }
        }
    }
    out
}

/// the shapes of a 200 listing bindings: requested x granted x (own binding, Expires header) x list of other
/// devices' bindings x every position of the own binding in the list x header layout
pub fn grid_reg_bindings(tier: Tier) -> Vec<RegCase> {
    let mut out = vec![];
    let mut n = 0u32;
    let inits: &[u32] = tier.pick(&[600, 3600][..], &[600, 3600, 11, MAXU][..]);
    let grants: &[u32] = tier.pick(&[11, 60, 600, 3600][..], &[11, 12, 20, 21, 60, 600, 1800, 3600, 67_000_000][..]);
    let mut lists: Vec<Vec<(u8, Option<u32>)>> = vec![
        vec![],
        vec![(0, None)],
        vec![(0, Some(0))],
        vec![(0, Some(30))],
        vec![(0, Some(3412))],
        vec![(1, Some(7200))],
        vec![(2, Some(MAXU))],
        vec![(5, Some(86_400))],
        vec![(0, Some(3412)), (1, Some(30))],
        vec![(3, Some(30)), (4, Some(3412))],
        vec![(2, None), (0, Some(7200))],
        vec![(0, Some(3412)), (1, Some(3412)), (2, Some(3412))],
    ];
    if tier == Tier::Thorough {
        for (i, &v) in EXP_GRID.iter().enumerate() {
            lists.push(vec![((i % FOREIGN.len()) as u8, Some(v))]);
            lists.push(vec![(((i + 1) % FOREIGN.len()) as u8, Some(45)), ((i % FOREIGN.len()) as u8, Some(v))]);
        }
    }
    for &init in inits {
        for &g in grants {
            let mut combos = vec![
                (OwnBinding::NotListed, Hdr::Own),
                (OwnBinding::NoParam, Hdr::Own),
                (OwnBinding::Param, Hdr::Own),
                (OwnBinding::Param, Hdr::Absent),
                (OwnBinding::Param, Hdr::Other(g / 2)),
                (OwnBinding::Param, Hdr::Other(g.saturating_mul(2))),
            ];
            if tier == Tier::Thorough {
                combos.push((OwnBinding::Param, Hdr::Other(MAXU)));
                combos.push((OwnBinding::NoParam, Hdr::Absent));
                combos.push((OwnBinding::NotListed, Hdr::Absent));
            }
            for (own, hdr) in combos {
                for others in &lists {
                    let positions = if own == OwnBinding::NotListed { 0 } else { others.len() };
                    for own_pos in 0..=positions {
                        for layout in 0..3u8 {
                            if layout > 0 && others.is_empty() && own == OwnBinding::NotListed {
                                continue; // no Contact header at all
                            }
                            n += 1;
                            let shape = Shape {
                                hdr,
                                own,
                                others: others.clone(),
                                own_pos: own_pos as u8,
                                layout,
                                own_style: (n % 5) as u8,
                                hdr_first: n % 2 == 0,
                            };
                            let delay = [0u64, 700][(n % 2) as usize];
                            let first = Ans::Ok { granted: g, delay, shape };
                            // every third case: the refresh is answered the same way (second cycle)
                            let answers = if n % 3 == 0 { vec![first.clone(), first] } else { vec![first] };
                            out.push(RegCase { init, answers, rng: (n % 8) as u8 });
                        }
                    }
                }
            }
        }
    }
    out
}

fn any_shape() -> BoxedStrategy<Shape> {
    // other devices' lifetimes: mostly inside the range of the virtual clock
    let other_secs = prop_oneof![
        4 => 0u32..100_000,
        2 => any::<u16>().prop_map(|s| EXP_GRID[pick_idx(s, EXP_GRID.len())]),
        1 => any_secs(EXP_GRID, 0),
    ];
    let others = prop::collection::vec(
        (0u8..FOREIGN.len() as u8, prop::option::weighted(0.85, other_secs)),
        0..=3,
    );
    (
        prop_oneof![Just(OwnBinding::NotListed), Just(OwnBinding::NoParam), Just(OwnBinding::Param), Just(OwnBinding::Param)],
        0u8..8,
        any_secs(EXP_GRID, 0),
        others,
        0u8..4,
        0u8..3,
        0u8..5,
        any::<bool>(),
    )
        .prop_map(|(own, hsel, hv, others, own_pos, layout, own_style, hdr_first)| {
            // an Expires header that differs from the granted lifetime only next to an own Contact that
            // states it (otherwise the header IS the grant: covered by Hdr::Own with that value)
            let hdr = match (own, hsel) {
                (OwnBinding::Param, 0 | 1) => Hdr::Absent,
                (OwnBinding::Param, 2 | 3) => Hdr::Other(hv),
                (OwnBinding::Param, _) => Hdr::Own,
                (_, 0) => Hdr::Absent, // the 200 states nothing about our binding: only "no panic"
                _ => Hdr::Own,
            };
            Shape { hdr, own, others, own_pos, layout, own_style, hdr_first }
        })
        .boxed()
}

pub fn strategy_reg() -> BoxedStrategy<RegCase> {
    let delay = prop_oneof![Just(0u64), Just(1u64), Just(700u64), 0u64..6000];
    let shape = prop_oneof![Just(Shape::default()).boxed(), any_shape()];
    let pause_s = prop_oneof![Just(0u32), Just(60u32), 0u32..4000, 0u32..=PAUSE_MAX_S];
    let resp = prop_oneof![Just(UnregResp::NotFed), Just(UnregResp::Bare), Just(UnregResp::OthersListed)];
    let ans = prop_oneof![
        6 => (any_secs(EXP_GRID, 0), delay.clone(), shape).prop_map(|(granted, delay, shape)| Ans::Ok { granted, delay, shape }),
        2 => (any_secs(EXP_GRID, 0), delay.clone()).prop_map(|(min, delay)| Ans::TooBrief { min, delay }),
        2 => (delay.clone(), resp, pause_s.clone()).prop_map(|(delay, resp, pause_s)| Ans::Unregister { delay, resp, pause_s }),
        1 => (any::<u16>(), delay, pause_s).prop_map(|(c, delay, pause_s)| Ans::Rejected {
            code: REJECT_CODES[pick_idx(c, REJECT_CODES.len())],
            delay,
            pause_s,
        }),
    ];
    (any_secs(EXP_GRID, 0), prop::collection::vec(ans, 1..=5), any::<u8>(), any::<u8>())
        .prop_map(|(init, mut answers, rng, same)| {
            // the usual registrar grants the same lifetime every time (equal successive lifetimes take a
            // different path in the code): every 200 of the history grants what the first one does, and
            // in half of these what was asked for is what is granted
            let mut init = init;
            if same % 3 == 0 {
                let first = answers.iter().find_map(|a| match a {
                    Ans::Ok { granted, .. } => Some(*granted),
                    _ => None,
                });
                if let Some(first) = first {
                    for a in answers.iter_mut() {
                        if let Ans::Ok { granted, .. } = a {
                            *granted = first;
                        }
                    }
                    if same % 2 == 0 {
                        init = first;
                    }
                }
            }
            // repeat a value now and then: equal successive lifetimes take a different path in the code
            if rng % 3 == 0 && answers.len() >= 2 {
                let first = match &answers[0] {
                    Ans::Ok { granted, .. } => Some(*granted),
                    _ => None,
                };
                if let (Some(granted), Ans::Ok { granted: g2, .. }) = (first, &mut answers[1]) {
                    *g2 = granted;
                }
            }
            RegCase { init, answers, rng }
        })
        .boxed()
}

pub fn property() -> Property {
    Property {
        fuzz: vec![],
        id: "C17",
        rule: "session cases = local role (caller via Initiator / callee via Acceptor) x Session-Expires x refresher parameter (uac, uas, absent) x Min-SE x history of <=4 steps {silence for SE+64 s, refresh received = peer re-INVITE at an offset inside the interval (1 ms, half, +-1 ms around SE-10 s, SE-1 ms, random), refresh sent = RefreshNeeded answered with process_default} x arrival of the peer's ACK for ezk's 2xx to each re-INVITE {at once, 1 ms .. 31 s later: after retransmissions of the 2xx, +-1 ms around the 10 s margin} (callee role: also for the initial 2xx); registration cases = initial expiry x 1..5 rounds on one Registration object {200 granting v, 423 Min-Expires: v, un-REGISTER (create_register(true)) answered 200 {not handed over, bare, listing other devices} followed by a pause, REGISTER rejected (400..600 without Min-Expires) followed by a pause} with answer delays, every third random history granting one and the same lifetime throughout; a 200 states the grant as `Expires: v` alone or in the RFC 3261 10.3 shape: own binding {not listed, listed, listed with ;expires=v} x Expires header {v, absent, other value} x 0..3 bindings of other devices (expires absent/shorter/longer) x position of the own binding x Contact layout {comma list, one header each, compact}. Values from {0/1,2,9,10,11,19,20,21,32,33,89,90,1800,2^31-1,2^31,u32::MAX-11..u32::MAX} and random u32. Non-trivial = negotiated/granted value < 90 or within 11 of 0 / 2^31 / u32::MAX, or >=1 refresh (sessions) / >=2 answers or a 200 with a Contact list or without Expires header (registrations), or ezk is the refresher; distinct by hash of the case.",
        assumptions: vec![
            "timers run on tokio's paused clock. Expiry is followed on the clock for intervals <= 67,000,000 s (tokio's documented maximum sleep is 2^36 ms ~ 2.2 years; from 63*2^30 ms on tokio 1.53's timer wheel fires timers out of order and can corrupt its lists when such a sleep is reset - reproduced with tokio alone); longer intervals are watched for a 120 s window only: no panic, no BYE inside the window",
            "Session-Expires 0 is not generated (no instant is strictly before the end of an empty interval); Min-SE / Expires 0 are",
            "the interval starts at the 2xx (sent by the callee / received by the caller); a refresh received counts from ezk's 2xx to the re-INVITE, a refresh sent from the peer's 2xx",
            "the acceptor's timer configuration is private (default: refresher=uac, 1800 s): in the callee role ezk is never the refresher and only Min-SE moves the interval",
            "a 2xx without refresher parameter: acting as refresher and acting as non-refresher are both accepted, doing neither is not",
            "RefreshNeeded later than the expiry is not asserted when the application was not inside Session::drive() at any time of the interval (RefreshNeeded::process_default blocks for 64*T1 = 32 s after the 2xx, so this concerns SE <= 32 s after a refresh sent)",
            "peer re-INVITEs never land on a whole or half second after the last refresh (ties with the session timer are don't-cares)",
            "the lifetime the registrar granted to ezk's binding is read off the 200 by RFC 3261 10.2.4: the expires parameter of ezk's own Contact (spelled as in the REGISTER), else the Expires header; bindings of other devices listed in the same 200 (URIs differing in host, port, user or scheme) never count. A 200 stating neither is not asserted (no panic only)",
            "every number in a 200 (also other devices' expires values) above 67,000,000 s restricts the rest of the case to the 120 s window / the first 2^30 ms of the clock, because a changed ezk could arm a timer for it",
            "the peer's ACK for a 2xx arrives at most 31 s after the first transmission of that 2xx (ezk retransmits for 64*T1 = 32 s) and never on a half second (2xx retransmission / session timer ties); a peer that never ACKs is not generated. The peer does not send its next re-INVITE before it has ACKed the previous one. The interval restarts with ezk's 2xx, not with the ACK; while the application is inside respond_success it is not listening (RefreshNeeded later than expiry is not asserted if it never listened during the interval)",
            "the 200 to an un-REGISTER states no lifetime for ezk's own binding (no Expires header, own Contact not listed): with `Expires: 0` / `;expires=0` handed to receive_success_response ezk's next REGISTER would ask for 0 again, and a registrar granting a lifetime to that is outside the domain. After an un-REGISTER the application does not call wait_for_expiry until it has registered again",
            "after an un-REGISTER or a rejected REGISTER an implementation may park its timer (a changed one possibly beyond the range of tokio's wheel): from that round on a lifetime is followed on the clock only while the whole case stays within the first 2^30 ms, otherwise for the 120 s window; pauses are cut short the same way. A case ends at the first wait_for_expiry that did not return within lifetime + 64 s (the object is leaked, not dropped)",
            "422, how early a refresh happens and the Expires value of the next REGISTER are not asserted",
        ],
        explanation: "grid sub-checks enumerate the value grid x refresher parameter x short histories for both roles and (init, answer pairs) for registrations; registration_bindings enumerates requested x granted x (own binding, Expires header) x 12 lists of other bindings x every position x 3 layouts (spelling, header order, answer delay and a repeated second cycle rotate); registration_history enumerates 9 (thorough: 20) lifetimes x {new() given the same, another one} x 3 un-REGISTER answers x 3 pauses x 8 histories around an un-REGISTER, and x rejection codes x 3 pauses x 4 histories around a rejected REGISTER; both session grids add a block of refreshes received with a late ACK (6 delays x 4..6 histories x every value / Min-SE); the _random sub-checks sample random u32 values, longer histories, ACK / answer delays, pauses and tokio select seeds",
        subs: vec![
            enum_sub("session_uas", grid_uas, check_session),
            enum_sub("session_uac", grid_uac, check_session),
            enum_sub("registration", grid_reg, check_registration),
            enum_sub("registration_bindings", grid_reg_bindings, check_registration),
            enum_sub("registration_history", grid_reg_history, check_registration),
            prop_sub("session_uas_random", strategy_uas, 600, 6000, check_session),
            prop_sub("session_uac_random", strategy_uac, 1000, 8000, check_session),
            prop_sub("registration_random", strategy_reg, 800, 6000, check_registration),
        ],
    }
}
