//! C11 — Requests built inside a dialog follow RFC 3261 sec. 12.2.1.1
//!
//! Both roles of a dialog-creating INVITE/2xx pair are driven through ezk's public dialog API
//! (`Dialog::new_server` / `Acceptor`, `ClientDialogBuilder` / `Initiator`), every request created
//! inside the dialog is sent and read back from the mock wire with the independent reader, and compared
//! with `refmodel::ref_dialog`, which builds the dialog from the *texts* of request and response.
//!
//! Generated (sub `uas`, `uac`): the dialog shape (0..4 Record-Route values on one or several lines, tags,
//! Contact / From / To forms; a Record-Route entry is a proxy of its own or RELATED to its predecessor / the entry
//! before that: the identical URI again (spiral), the same address with another `transport` or another parameter
//! (RFC 5658 double Record-Route), the same host with another port / user / scheme - see `g_rr`; the route set is
//! the whole list whatever neighbours have in common), the way through the API (bare dialog + transaction, or Acceptor / Initiator +
//! Session), 1..10 created requests (optionally from 4 OS threads), Session::terminate, the session-refresh
//! re-INVITE + ACK, and - UAC only - the HISTORY of the builder before and besides the dialog:
//!   * `prior`: 0..3 earlier attempts of the INVITE through the same `Initiator` / `ClientDialogBuilder`, each
//!     rejected by the peer (401/407/422/3xx/any 300..699; with or without To-tag, also the very tag of the
//!     later 2xx; optionally after 100/18x, the 18x optionally creating an early dialog that dies with the
//!     rejection).  The application then creates and sends the INVITE again like `examples/send_invite.rs`
//!     does, optionally adding a credentials header and - `ClientDialogBuilder` only, through its pub field
//!     `local_cseq` - raising the CSeq for the repetition.  The dialog is created by the LAST attempt: the
//!     reference dialog is built from the text of the INVITE the peer's 2xx answers, and the CSeq floor of
//!     the dialog is that INVITE's number as read from the wire, whatever the earlier attempts carried.
//!   * `fork`: a second 2xx for the same INVITE with another To-tag, Contact and Record-Route list: a second
//!     dialog out of the same builder and transaction, with 1..3 requests of its own, judged against a second
//!     reference dialog (same request text, the second response text) with a CSeq space of its own.
//!   * `early_contact` / `early_rr` (Initiator, half of the cases whose peer sends a provisional above 100): that
//!     provisional carries the To-tag of the later 2xx, a Contact and a Record-Route list - an EARLY dialog which
//!     the 2xx confirms.  The 1xx's Contact is RELATED to the 2xx's the way real peers' are: the same header
//!     value, the same address with URI parameters removed / added / changed in value (`gr`, `transport`, `ob`
//!     ...), another user part, another port, or an unrelated URI; the 1xx's Record-Route list is the 2xx's,
//!     its reverse, a prefix, a superset, absent, or unrelated.  The reference dialog is built from the 2xx
//!     alone (RFC 3261 13.2.2.4: remote target and route set are recomputed from the 2xx).
//!   * `early` (`ClientDialogBuilder`, half of the cases): before the 2xx another branch of the forked INVITE sends a
//!     101-199 with a To-tag of its own, a Contact and a Record-Route list: an EARLY dialog (never confirmed) whose
//!     `Dialog` the application gets from `create_dialog_from_response`.  0..3 further reliable provisional
//!     responses follow inside it; each carries the dialog's Contact, the same address with other URI parameters /
//!     user / port, an unrelated Contact or none, and the dialog's Record-Route list or another one.  The
//!     application acknowledges every reliable response through the public helper
//!     `invite::prack::create_prack(&dialog, &mut that_response, rseq)` and creates 0..2 (+1 per response) other
//!     requests (BYE/INFO/PRACK/UPDATE/MESSAGE) with `create_request`.  The reference dialog is built from the
//!     INVITE and the 1xx that CREATED the early dialog (RFC 3261 12.1.2); a later provisional response is no
//!     target refresh (12.2.1.2), so all of these requests follow that dialog state, CSeq above the INVITE's and
//!     increasing.
//! and - both roles - two dimensions of the dialog-creating exchange that the rule does not depend on:
//!   * SECURITY (`ruri` / `target`, `secure_tp`, the Contact generator): the URI the dialog-creating INVITE is
//!     addressed to is a sip: or a sips: URI (UAS: the Request-URI of the peer's INVITE; UAC: the target handed to
//!     `ClientDialogBuilder` / `Initiator`; with or without port / transport parameter) x the peer's Contact is a
//!     sip: URI (also with `;transport=tls`, the form deployed phones write on a TLS connection) or a sips: URI x
//!     the world's transport is plain UDP or a secure datagram transport (always secure for a sips: URI - the
//!     endpoint selects no other).  All four scheme combinations occur in both roles; the Request-URI of every
//!     created request is the remote target AS THE PEER WROTE IT, scheme included.
//!   * FIRST SEQUENCE NUMBER (`first_cseq`): the number the dialog's local CSeq counter starts from is left to
//!     ezk's random draw (half of the cases) or chosen through the pub fields the API offers (UAS:
//!     `Dialog.local_cseq` right after `Dialog::new_server`, only values the draw itself can yield, 0..=2^31-2;
//!     UAC: `ClientDialogBuilder.local_cseq` before the first INVITE, so that the dialog-creating INVITE stays
//!     below 2^31): 0..=8 below the last number under 2^31 / 2^8 / 2^16 / 2^24, 0, or anything.  A dialog of a
//!     few requests (hundreds when created on threads) then counts ACROSS that power of two; the numbers keep
//!     increasing there like anywhere else.
//! and - both roles, wherever a `Session` exists - TRANSPORT TROUBLE while ezk itself creates and sends a request
//! inside the dialog (`SendFault`): the `Transport::send` call for the BYE of `Session::terminate()` (0..2
//! calls in a row) or for the refresh re-INVITE of `RefreshNeeded::process_default()` stays pending for a while
//! and then fails with an io::Error (nothing reaches the wire; the application calls `terminate()` /
//! `process_default()` again) or returns late.  While the call is pending, and between a failure and the
//! repetition, other tasks of the application create and send 0..3 requests on the shared dialog
//! (`Session::dialog` is a pub `Arc<Dialog>`).  The transport is the world's mock datagram transport behind a
//! gate (`GateTp`) that the case opens; a late success hands its bytes to the wire log when the call starts,
//! so wire order = creation order throughout.
//! Sub `uas-codes` enumerates every status code through `create_response`.
//!
//! Oracle: `RefDialog::check_request` (Call-ID, From/To URI + tag, Request-URI, Route, Max-Forwards) per created
//! request, `CSeqTracker` over the requests of one dialog in creation order (per thread for the threaded block),
//! `ref_dialog::check_response` per response of the UAS.  A failure found in both dialogs of a fork is reported
//! once; one found only in the second dialog gets `uac-fork-` in its signature, one found only in the early dialog
//! of another branch `uac-early-`; there a PRACK whose Request-URI / Route is what the response it acknowledges
//! would yield (instead of the dialog state) is named `prack-request-uri-is-contact-of-acknowledged-1xx` /
//! `prack-route-is-record-route-of-acknowledged-1xx`.  A Route that is the route set with entries left out is
//! named `route-entries-missing` (see `ref_dialog`); a Request-URI that is the remote target under the other scheme
//! (sip <-> sips, all else equal) `request-uri-scheme-differs-from-remote-target`; a number that is not above its
//! predecessor but is that predecessor's successor cut off at 2^8 / 2^16 / 2^24 / 2^31 / 2^32 `wrapped-at-2^k`
//! (the judged sequence then goes on from the wrapped number).  A first request that is not
//! above the creating INVITE is named `first-not-above-renumbered-invite` when an earlier attempt of that INVITE
//! carried another number (the counter evidently did not follow the repetition), `first-not-above-invite` otherwise.
//! The CSeq sequence that is judged consists of the requests that reached the wire plus the ones the threads
//! created; a request whose only `send` call failed was never seen by the peer and is left out (so re-using ITS
//! number is accepted).  A number that fails to increase after such a failure is reported as
//! `not-increasing-after-failed-send` (the counter evidently was moved back), otherwise `not-increasing`.
//!
//! Not asserted: anything about the INVITE attempts themselves (whether a repetition gets a new CSeq, keeps
//! Call-ID / From-tag, what happens to the early dialogs of a rejected attempt), the ACKs the transaction layer
//! sends for the rejections (they share the INVITE's branch and are not "created inside a dialog"), any relation
//! between the CSeq numbers of the two dialogs of a fork, display names, the Contact of created requests, the
//! strict-routing rewrite (both forms accepted), requests inside an early dialog that a 2xx later confirms (the
//! `Initiator` keeps that `Dialog` to itself; with `ClientDialogBuilder` the application would own two `Dialog`
//! objects for one dialog - not generated, the early dialog of `early` belongs to a branch that never answers 2xx),
//! the RAck header of a PRACK, any relation between the CSeq numbers of the early and the confirmed dialog, what
//! `terminate()` / `process_default()` return after a failed send beyond "an error", the number of the request
//! whose send failed, URI headers (`?h=v`) in a Contact (not generated), that a CSeq number stays below 2^31
//! (RFC 3261 8.1.1.5 - the statement demands strictly increasing numbers, so a dialog that started just below 2^31
//! is expected to count on: 2147483648 ...), on which transport the requests of a dialog set up with a sips: URI
//! travel (the transport is handed to the dialog explicitly / kept from the INVITE), whether a peer may answer a
//! sips: INVITE with a sip: Contact at all (peers do; the dialog state is what the peer sent), the first sequence
//! number of a dialog behind the `Initiator` (its builder is private: left to the random draw).

use super::c06::ChannelLayer;
use crate::engine::*;
use crate::refmodel::ref_dialog::{self as rd, CSeqTracker, RefDialog, Role};
use crate::world::*;
use proptest::prelude::*;
use serde::{Deserialize, Serialize};
use sip_core::transaction::TsxResponse;
use sip_core::transport::{Direction, TargetTransportInfo, TpHandle, Transport};
use sip_core::{Endpoint, Request};
use sip_types::header::typed::Contact;
use sip_types::uri::NameAddr;
use sip_types::{Code, Method, Name};
use sip_ua::dialog::{ClientDialogBuilder, Dialog, DialogLayer};
use sip_ua::invite::acceptor::Acceptor;
use sip_ua::invite::initiator::{Initiator, Response as IniResponse};
use sip_ua::invite::session::Event;
use sip_ua::invite::InviteLayer;
use std::any::Any;
use std::collections::HashSet;
use std::net::SocketAddr;
use std::sync::Arc;
use std::time::Duration;
use tokio::sync::mpsc;

const METHODS: &[&str] = &["BYE", "INFO", "INVITE", "PRACK", "UPDATE", "MESSAGE"];
const THREADS: usize = 4;
const PEER: &str = "192.0.2.9:5060";

fn method_of(i: u8) -> Method {
    match METHODS[i as usize % METHODS.len()] {
        "BYE" => Method::BYE,
        "INFO" => Method::INFO,
        "INVITE" => Method::INVITE,
        "PRACK" => Method::PRACK,
        "UPDATE" => Method::UPDATE,
        _ => Method::MESSAGE,
    }
}

// ------------------------------------------------------------------------------------------
// cases

/// requests created inside the dialog
#[derive(Serialize, Deserialize, Clone, Debug, Hash)]
pub struct Ops {
    /// indices into METHODS, 1..10 entries
    pub methods: Vec<u8>,
    /// create them from 4 OS threads at once (round-robin split), then send them thread by thread
    pub threads: bool,
    /// finally `Session::terminate()` (only where a Session exists)
    pub terminate: bool,
    /// transport trouble during `Session::terminate()`: entry i describes what happens to the `send` of the BYE
    /// of the i-th `terminate()` call.  After an entry with `fail` the application calls `terminate()` again; an
    /// entry without `fail` (the BYE goes out, the call returns late) or the end of the list ends the flow.
    #[serde(default)]
    pub term_faults: Vec<SendFault>,
}

/// One `Transport::send` call that stays pending for a while (the datagram socket is not writable, a
/// connection is being re-established ...) and then fails with an io::Error or succeeds, while other tasks of
/// the application keep using the shared dialog (`Session::dialog` is a pub `Arc<Dialog>`).
#[derive(Serialize, Deserialize, Clone, Debug, Hash)]
pub struct SendFault {
    /// the send fails (nothing reaches the wire); otherwise the bytes go out and the call returns late
    pub fail: bool,
    /// virtual time the call stays pending
    pub pending_ms: u16,
    /// requests (indices into METHODS) another task creates on the dialog and sends while the call is pending
    pub during: Vec<u8>,
    /// requests created and sent after the failed call returned, before the application tries again
    pub after: Vec<u8>,
}

#[derive(Serialize, Deserialize, Clone, Debug, Hash)]
pub struct UasCase {
    /// the peer's INVITE, header values as written on the wire
    pub from: String,
    pub to: String,
    pub call_id: String,
    pub cseq: u32,
    pub contact: String,
    /// Record-Route values, top to bottom
    pub rr: Vec<String>,
    /// bit i set: value i+1 shares a header line with value i
    pub rr_layout: u8,
    /// 0: canonical header names, 1: compact forms (f, t, i, m), 2: odd case
    pub names: u8,
    /// local Contact handed to `Dialog::new_server`
    pub local_contact_display: Option<String>,
    pub local_contact_uri: String,
    /// codes answered through `create_response`, provisionals first
    pub provisionals: Vec<u16>,
    pub final_code: Option<u16>,
    /// go through `Acceptor` (and `Session`) instead of using `Dialog` + `ServerInvTsx` directly
    pub acceptor: bool,
    /// Acceptor without final answer: the peer cancels, the invite layer answers 487 through the dialog
    #[serde(default)]
    pub cancel: bool,
    /// Request-URI of the peer's INVITE (sip: or sips:, with or without port / transport parameter)
    #[serde(default = "default_ruri")]
    pub ruri: String,
    /// the transport the INVITE arrives on (and everything else of the case travels on) is a secure one
    #[serde(default)]
    pub secure_tp: bool,
    /// `Some(n)`: the dialog's first local sequence number is n (stored into the pub field `Dialog.local_cseq`
    /// right after `Dialog::new_server`, before any request exists).  n is a value `random_sequence_number()`
    /// itself draws with non-zero probability (0..=2^31-2): the store only makes the draw deterministic.
    #[serde(default)]
    pub first_cseq: Option<u32>,
    pub ops: Ops,
    pub rng: u8,
}

fn default_ruri() -> String {
    "sip:uas@10.0.0.1".to_string()
}

#[derive(Serialize, Deserialize, Clone, Debug, Hash)]
pub struct UacCase {
    pub local_display: Option<String>,
    pub local_uri: String,
    pub local_contact_display: Option<String>,
    pub local_contact_uri: String,
    pub target: String,
    /// provisional responses of the peer (`ClientDialogBuilder` flow: without To-tag; `Initiator` flow: see `early_flow`)
    pub peer_provisionals: Vec<u16>,
    pub code: u16,
    pub to_tag: String,
    pub peer_contact: String,
    pub rr: Vec<String>,
    pub rr_layout: u8,
    /// through `Initiator`/`Session` instead of `ClientDialogBuilder` + `ClientInvTsx`
    pub initiator: bool,
    /// `Some((session_expires, before_ops))`: peer asks for a UAC-refreshed session timer; the refresh
    /// re-INVITE of `RefreshNeeded::process_default` and its ACK are observed (initiator only)
    pub refresh: Option<(u32, bool)>,
    /// history of the builder BEFORE the dialog-creating INVITE: earlier INVITE attempts through the same
    /// `Initiator` / `ClientDialogBuilder`, each ended by a failure response of the peer, oldest first
    #[serde(default)]
    pub prior: Vec<Attempt>,
    /// a second 2xx for the same INVITE from another branch of a forking proxy (other To-tag, Contact and
    /// Record-Route): a second dialog out of the same builder, with requests of its own
    #[serde(default)]
    pub fork: Option<Fork>,
    /// Initiator with an early dialog (see `early_flow`): how the Contact of the 1xx relates to the Contact of
    /// the 2xx that confirms the dialog, see `early_contact_value` (0 = an unrelated URI)
    #[serde(default)]
    pub early_contact: u8,
    /// ... and how the Record-Route list of the 1xx relates to the one of the 2xx, see `early_rr_values`
    /// (0 = one unrelated entry)
    #[serde(default)]
    pub early_rr: u8,
    /// refresh flow only: the `send` of the refresh re-INVITE inside `RefreshNeeded::process_default` stays
    /// pending and fails (the application then runs `process_default` again) or succeeds late
    #[serde(default)]
    pub refresh_fault: Option<SendFault>,
    /// `ClientDialogBuilder` only: before the 2xx, another branch of the forked INVITE answers with provisional
    /// responses that carry a To-tag of their own: an EARLY dialog (never confirmed) in which the application
    /// acknowledges reliable provisional responses with PRACK and creates other requests, see `EarlyDialog`
    #[serde(default)]
    pub early: Option<EarlyDialog>,
    /// the world's transport is a secure one (always when `target` is a sips: URI: the endpoint selects no
    /// other for it)
    #[serde(default)]
    pub secure_tp: bool,
    /// `ClientDialogBuilder` only: `Some(n)`: the application sets the pub field `local_cseq` to n before it creates
    /// the first INVITE (an application that numbers its requests itself, or simply the value the builder's
    /// random draw yields).  n plus all later `bump`s stays below 2^31 (RFC 3261 8.1.1.5).
    #[serde(default)]
    pub first_cseq: Option<u32>,
    pub ops: Ops,
    pub rng: u8,
}

/// An early dialog of the UAC (RFC 3261 12.1.2: created by a 101-199 response with a To-tag; remote target = the
/// Contact of THAT response, route set = its Record-Route list reversed) and what happens inside it.
#[derive(Serialize, Deserialize, Clone, Debug, Hash)]
pub struct EarlyDialog {
    /// the response that creates it (101..=199)
    pub code: u16,
    /// differs from the To-tags of the 2xx (and of the second 2xx of a fork) by construction
    pub to_tag: String,
    pub contact: String,
    pub rr: Vec<String>,
    /// the creating response is sent reliably (Require: 100rel, RSeq) and acknowledged through `create_prack`
    pub reliable: bool,
    /// RSeq of the first reliable response of the dialog (the following ones count up)
    pub rseq: u16,
    /// further reliable provisional responses inside the early dialog, each acknowledged through
    /// `invite::prack::create_prack(&dialog, &mut that_response, rseq)`
    pub later: Vec<LaterProv>,
    /// requests created in the early dialog after the last PRACK (indices into METHODS; INVITE is replaced by UPDATE)
    pub methods: Vec<u8>,
}

/// A reliable provisional response inside an existing early dialog (same To-tag).  It is no target refresh: remote
/// target and route set of the dialog stay what the dialog-creating response made them (RFC 3261 12.2.1.2, 12.1.2).
#[derive(Serialize, Deserialize, Clone, Debug, Hash)]
pub struct LaterProv {
    pub code: u16,
    /// its Contact as a function of the Contact that created the dialog: kinds of `early_contact_value`
    /// (0 unrelated, 1 the same value, 2..7 same address with other parameters / user / port), `NO_CONTACT` = none
    pub contact: u8,
    /// its Record-Route list as a function of the dialog-creating one: kinds of `early_rr_values`
    pub rr: u8,
    /// a request the application creates in the early dialog just before this response arrives (index into METHODS)
    pub before: Option<u8>,
}

/// `LaterProv::contact`: the response carries no Contact
pub const NO_CONTACT: u8 = EARLY_CONTACT_KINDS;

/// one INVITE attempt that the peer rejected (the application then repeats the INVITE, as
/// `examples/send_invite.rs` does after a 401)
#[derive(Serialize, Deserialize, Clone, Debug, Hash)]
pub struct Attempt {
    /// provisional responses of the peer before the failure
    pub provisionals: Vec<u16>,
    /// the ones above 100 carry a To-tag, a Contact and a Record-Route: an early dialog that dies with the failure
    pub early: bool,
    /// the failure (300..=699)
    pub code: u16,
    /// To-tag of the failure response (and of the early dialog); `None`: the peer sets none
    pub to_tag: Option<String>,
    /// `to_tag` is the tag the peer later puts into the 2xx
    #[serde(default)]
    pub same_tag: bool,
    /// the application adds a credentials header to the INVITE it creates next
    pub edit: bool,
    /// `ClientDialogBuilder` only: the application raises the pub field `local_cseq` by this much before it
    /// creates the next INVITE (the only way the API offers to repeat a request with a new CSeq, RFC 3261 22.2)
    pub bump: u8,
}

#[derive(Serialize, Deserialize, Clone, Debug, Hash)]
pub struct Fork {
    pub code: u16,
    /// differs from the To-tag of the first 2xx by construction
    pub to_tag: String,
    pub peer_contact: String,
    pub rr: Vec<String>,
    /// requests created in the second dialog (indices into METHODS), 1..=3, after everything else
    pub methods: Vec<u8>,
}

// ------------------------------------------------------------------------------------------
// generators

const HOSTS: &[&str] = &[
    "atlanta.example.com",
    "biloxi.example.org",
    "192.0.2.4",
    "h-1.example.net",
    "client.chicago.example.com",
    "198.51.100.23",
];

fn g_user() -> BoxedStrategy<Option<String>> {
    prop_oneof![
        1 => Just(None),
        4 => "[a-z][a-z0-9._-]{0,8}".prop_map(Some),
        1 => Just(Some("+15551234".to_string())),
    ]
    .boxed()
}

/// URI for From/To and for the local address: free of the components RFC 3261 Table 1 forbids there
/// (port, maddr, ttl, transport, lr, method, headers), so the printer has nothing to omit.
/// `wire` = a peer wrote it: one in eight carries a port and/or transport parameter all the same (peers
/// do that); the comparison is modulo those components.
fn g_fromto_uri(wire: bool) -> BoxedStrategy<String> {
    (
        prop_oneof![5 => Just("sip"), 1 => Just("sips")],
        g_user(),
        any::<u16>(),
        prop_oneof![4 => Just(""), 1 => Just(";user=phone"), 1 => Just(";x-p=v1"), 1 => Just(";user=phone;x-q")],
        if wire {
            prop_oneof![14 => Just(("", "")), 1 => Just((":5060", "")), 1 => Just((":5070", ";transport=udp"))].boxed()
        } else {
            Just(("", "")).boxed()
        },
    )
        .prop_map(|(scheme, user, h, params, (port, tparam))| {
            let host = HOSTS[pick_idx(h, HOSTS.len())];
            match user {
                Some(u) => format!("{scheme}:{u}@{host}{port}{tparam}{params}"),
                None => format!("{scheme}:{host}{port}{tparam}{params}"),
            }
        })
        .boxed()
}

/// display name as written on the wire (quoted-string of qdtext, or tokens), or none
fn g_display_wire() -> BoxedStrategy<Option<String>> {
    prop_oneof![
        3 => Just(None),
        1 => Just(Some("Alice".to_string())),
        1 => Just(Some("\"Alice A.\"".to_string())),
        1 => Just(Some("\"J. R, jr (x)\"".to_string())),
        1 => Just(Some("\"semi;colon\"".to_string())),
        1 => Just(Some("\"a<b>c\"".to_string())),
        1 => Just(Some("Bob B".to_string())),
        2 => "[A-Za-z0-9 .,;()]{1,12}".prop_map(|s| Some(format!("\"{s}\""))),
    ]
    .boxed()
}

/// display name handed to ezk's API (it prints it inside quotes without escaping: qdtext only)
fn g_display_api() -> BoxedStrategy<Option<String>> {
    prop_oneof![
        3 => Just(None),
        1 => Just(Some("Alice".to_string())),
        1 => Just(Some("J. R, jr (x)".to_string())),
        1 => Just(Some("a<b>;c".to_string())),
        2 => "[A-Za-z0-9][A-Za-z0-9 .,;()]{0,11}".prop_map(Some),
    ]
    .boxed()
}

fn g_tag() -> BoxedStrategy<String> {
    prop_oneof![
        4 => "[A-Za-z0-9]{1,16}",
        2 => "[A-Za-z0-9._~!*+-]{1,16}",
        1 => Just("1".to_string()),
    ]
    .boxed()
}

/// (header value of From/To without tag, may it be written without angle brackets)
fn g_fromto_wire() -> BoxedStrategy<(Option<String>, String, bool)> {
    (g_display_wire(), g_fromto_uri(true), any::<bool>()).boxed()
}

fn fromto_value(display: &Option<String>, uri: &str, bare: bool, tag: Option<&str>, extra: &str) -> String {
    // addr-spec form only without display name and without URI parameters (they would become header parameters)
    let mut s = if bare && display.is_none() && !uri.contains(';') {
        uri.to_string()
    } else {
        match display {
            Some(d) => format!("{d} <{uri}>"),
            None => format!("<{uri}>"),
        }
    };
    if let Some(t) = tag {
        s.push_str(&format!(";tag={t}"));
    }
    s.push_str(extra);
    s
}

/// Contact header value of the peer (the remote target): URI with port / transport / other parameters,
/// header parameters, display name; sometimes the bare addr-spec form
fn g_contact_wire() -> BoxedStrategy<String> {
    (
        g_display_wire(),
        prop_oneof![5 => Just("sip"), 1 => Just("sips")],
        g_user(),
        prop_oneof![
            3 => any::<u16>().prop_map(|h| HOSTS[pick_idx(h, HOSTS.len())].to_string()),
            1 => Just("[2001:db8::9]".to_string()),
        ],
        prop_oneof![2 => Just(None), 1 => (1024u16..65535).prop_map(Some)],
        (
            // `transport` parameter: a sip: Contact with `;transport=tls` is what most deployed phones write on
            // a TLS connection; it stays a sip: URI
            prop_oneof![4 => Just(""), 3 => Just(";transport=udp"), 2 => Just(";transport=tls"), 1 => Just(";transport=tcp")],
            prop::sample::subsequence(vec![";user=phone", ";x-c=1", ";ob", ";maddr=192.0.2.200"], 0..=2),
        )
            .prop_map(|(t, rest)| {
                let mut v: Vec<&'static str> = vec![];
                if !t.is_empty() {
                    v.push(t);
                }
                v.extend(rest);
                v
            }),
        prop::sample::subsequence(vec![";expires=3600", ";q=0.5", ";+sip.instance=\"<urn:uuid:0001>\""], 0..=2),
        prop_oneof![4 => Just(false), 1 => Just(true)],
    )
        .prop_map(|(display, scheme, user, host, port, uparams, hparams, bare)| {
            let mut uri = format!("{scheme}:");
            if let Some(u) = user {
                uri.push_str(&u);
                uri.push('@');
            }
            uri.push_str(&host);
            if let Some(p) = port {
                uri.push_str(&format!(":{p}"));
            }
            if bare {
                // addr-spec form: no display name, no URI parameters; the parameters are header parameters
                format!("{uri}{}", hparams.concat())
            } else {
                uri.push_str(&uparams.concat());
                match display {
                    Some(d) => format!("{d} <{uri}>{}", hparams.concat()),
                    None => format!("<{uri}>{}", hparams.concat()),
                }
            }
        })
        .boxed()
}

/// number of ways an entry of a Record-Route list can be related to an earlier entry, see `g_rr`
pub const RR_RELATIONS: u8 = 7;

/// 0..4 Record-Route values; mostly loose routers.  An entry is either a proxy of its own (host carries the
/// index of the entry, so its URI differs from every other entry's) or - about every third entry behind the
/// first - RELATED to an earlier entry of the list (its predecessor, or the entry before that: a spiral through
/// another proxy), the way entries of real lists are:
///   1 the very same URI again (a request that spirals through one proxy twice)
///   2 the same address, `transport` parameter of the other value / present on one side only (a proxy that
///     switches transports records itself twice, RFC 5658 section 6)
///   3 the same address, another parameter added or removed
///   4 the same host, another port (two listeners of one proxy)        5 the same host:port, another user part
///   6 the same address under the other scheme (sip / sips double Record-Route, RFC 5658 section 6)
/// RFC 3261 12.1.1 / 12.1.2: the route set is the LIST of Record-Route values, every entry counts, whatever it
/// has in common with its neighbours.
fn g_rr() -> BoxedStrategy<Vec<String>> {
    let entry = (
        prop_oneof![6 => Just("sip"), 1 => Just("sips")],
        prop_oneof![3 => Just(None), 1 => "[a-z0-9]{1,6}".prop_map(Some)],
        0u8..4,
        prop_oneof![2 => Just(None), 1 => (1024u16..65535).prop_map(Some)],
        prop_oneof![12 => Just(";lr"), 2 => Just(";lr=on"), 1 => Just("")],
        prop::sample::subsequence(vec![";transport=tcp", ";x-id=a1b2", ";ftag=xyz"], 0..=2),
        prop_oneof![5 => Just(""), 1 => Just(";rr-p=1")],
        prop_oneof![6 => Just(None), 1 => Just(Some("\"P, x\"".to_string()))],
        any::<bool>(),
        // relation to an earlier entry (0 = none), and whether that entry is the one before the predecessor
        (prop_oneof![12 => Just(0u8), 7 => 1u8..RR_RELATIONS], prop_oneof![4 => Just(false), 1 => Just(true)]),
    );
    let count = prop_oneof![2 => Just(0usize), 2 => Just(1usize), 3 => Just(2usize), 2 => Just(3usize), 2 => Just(4usize)];
    (count, prop::collection::vec(entry, 4))
        .prop_map(|(n, entries)| {
            // (scheme, user, host, port, params in order incl. lr)
            struct Parts {
                scheme: String,
                user: Option<String>,
                host: String,
                port: Option<u16>,
                params: Vec<String>,
            }
            let mut done: Vec<Parts> = vec![];
            let mut out = vec![];
            for (i, (scheme, user, hk, port, lr, params, hparam, display, lr_first, (rel, back))) in entries.into_iter().take(n).enumerate() {
                // host carries the index: the URIs of unrelated entries are distinct by construction
                let host = match hk {
                    0 => format!("p{i}.example.com"),
                    1 => format!("198.51.100.{}", i + 1),
                    2 => format!("[2001:db8::{}]", i + 1),
                    _ => format!("edge-{i}.proxy.example.net"),
                };
                let mut plist: Vec<String> = params.iter().map(|p| p.to_string()).collect();
                if !lr.is_empty() {
                    if lr_first {
                        plist.insert(0, lr.to_string());
                    } else {
                        plist.push(lr.to_string());
                    }
                }
                let mut parts = Parts {
                    scheme: scheme.to_string(),
                    user,
                    host,
                    port,
                    params: plist,
                };
                if rel != 0 && i > 0 {
                    let r = &done[if back && i >= 2 { i - 2 } else { i - 1 }];
                    parts = Parts {
                        scheme: r.scheme.clone(),
                        user: r.user.clone(),
                        host: r.host.clone(),
                        port: r.port,
                        params: r.params.clone(),
                    };
                    match rel {
                        1 => {}
                        2 => match parts.params.iter().position(|p| p.starts_with(";transport=")) {
                            Some(at) => parts.params[at] = ";transport=udp".to_string(),
                            None => parts.params.insert(0, ";transport=tcp".to_string()),
                        },
                        3 => match parts.params.iter().position(|p| p.starts_with(";x-id=") || p.starts_with(";ftag=")) {
                            Some(at) => {
                                parts.params.remove(at);
                            }
                            None => parts.params.push(";x-leg=2".to_string()),
                        },
                        4 => parts.port = Some(if parts.port == Some(5072) { 5074 } else { 5072 }),
                        5 => parts.user = Some(if parts.user.as_deref() == Some("leg2") { "leg3".to_string() } else { "leg2".to_string() }),
                        _ => parts.scheme = if parts.scheme == "sip" { "sips".to_string() } else { "sip".to_string() },
                    }
                }
                let mut uri = format!("{}:", parts.scheme);
                if let Some(u) = &parts.user {
                    uri.push_str(u);
                    uri.push('@');
                }
                uri.push_str(&parts.host);
                if let Some(p) = parts.port {
                    uri.push_str(&format!(":{p}"));
                }
                uri.push_str(&parts.params.concat());
                out.push(match display {
                    Some(d) => format!("{d} <{uri}>{hparam}"),
                    None => format!("<{uri}>{hparam}"),
                });
                done.push(parts);
            }
            out
        })
        .boxed()
}

/// one pending `send` call; `fail` as given; mostly with requests created meanwhile
fn g_send_fault(fail: bool, with_after: bool) -> BoxedStrategy<SendFault> {
    (
        prop_oneof![1 => Just(1u16), 3 => 2u16..=400],
        prop_oneof![
            1 => Just(vec![]),
            3 => prop::collection::vec(0u8..METHODS.len() as u8, 1..=1),
            2 => prop::collection::vec(0u8..METHODS.len() as u8, 2..=3),
        ],
        if with_after {
            prop_oneof![2 => Just(vec![]), 1 => prop::collection::vec(0u8..METHODS.len() as u8, 1..=2)].boxed()
        } else {
            Just(vec![]).boxed()
        },
    )
        .prop_map(move |(pending_ms, during, after)| SendFault {
            fail,
            pending_ms,
            during,
            after,
        })
        .boxed()
}

/// what happens to the BYE of the successive `Session::terminate()` calls: 0..=2 failing sends (the
/// application tries again after each), optionally a last one that succeeds late
fn g_term_faults() -> BoxedStrategy<Vec<SendFault>> {
    prop_oneof![
        3 => Just(vec![]),
        3 => g_send_fault(true, true).prop_map(|a| vec![a]),
        1 => (g_send_fault(true, true), g_send_fault(true, true)).prop_map(|(a, b)| vec![a, b]),
        1 => g_send_fault(false, false).prop_map(|a| vec![a]),
        1 => (g_send_fault(true, true), g_send_fault(false, false)).prop_map(|(a, b)| vec![a, b]),
    ]
    .boxed()
}

fn g_ops() -> BoxedStrategy<Ops> {
    (
        prop::collection::vec(0u8..METHODS.len() as u8, 1..=10),
        prop_oneof![3 => Just(false), 1 => Just(true)],
        prop_oneof![3 => Just(false), 1 => Just(true)],
        g_term_faults(),
    )
        .prop_map(|(methods, threads, terminate, term_faults)| Ops {
            methods,
            threads,
            terminate,
            // transport trouble of the BYE needs a terminate()
            term_faults: if terminate { term_faults } else { vec![] },
        })
        .boxed()
}

fn g_local_contact() -> BoxedStrategy<(Option<String>, String)> {
    (
        g_display_api(),
        g_user(),
        prop_oneof![Just("10.0.0.1"), Just("10.0.0.1:5060"), Just("ua.example.com:5080;transport=udp")],
    )
        .prop_map(|(d, user, host)| {
            (
                d,
                match user {
                    Some(u) => format!("sip:{u}@{host}"),
                    None => format!("sip:{host}"),
                },
            )
        })
        .boxed()
}

fn g_cseq() -> BoxedStrategy<u32> {
    prop_oneof![
        1 => Just(0u32),
        1 => Just(1u32),
        6 => 1u32..(1 << 31),
        1 => Just((1u32 << 31) - 2),
    ]
    .boxed()
}

/// powers of two a sequence counter might be cut off at (a 31-bit mask for RFC 3261 8.1.1.5, a narrower integer type)
const CSEQ_EDGES: &[u32] = &[31, 8, 16, 24];

/// The dialog's first local sequence number: left to ezk's random draw (`None`, most cases), or chosen: just below
/// 2^31 / 2^8 / 2^16 / 2^24 (0..=8 below the last number under the edge, so that a dialog of a few requests counts
/// across it), 0, or anything up to `max`.  `max` = largest value the API can legitimately start from.
fn g_first_cseq(max: u32) -> BoxedStrategy<Option<u32>> {
    prop_oneof![
        6 => Just(None),
        4 => (prop_oneof![3 => Just(0usize), 1 => Just(1usize), 1 => Just(2usize), 1 => Just(3usize)], 0u32..=8)
            .prop_map(move |(k, d)| Some((((1u64 << CSEQ_EDGES[k]) - 1 - d as u64) as u32).min(max))),
        1 => Just(Some(0u32)),
        1 => (0u32..=max).prop_map(Some),
    ]
    .boxed()
}

/// Request-URI of the peer's INVITE: mostly a sip: URI; two in five cases a sips: URI (RFC 3261 8.1.1.8,
/// 12.1.1: the dialog is then to be continued over secure transports - which says nothing about the Request-URI of
/// later requests: that is the remote target, the peer's Contact, whatever its scheme)
fn g_invite_ruri() -> BoxedStrategy<String> {
    prop_oneof![
        4 => Just("sip:uas@10.0.0.1"),
        1 => Just("sip:uas@10.0.0.1:5060;transport=udp"),
        1 => Just("sip:uas@10.0.0.1:5062"),
        2 => Just("sips:uas@10.0.0.1"),
        1 => Just("sips:uas@10.0.0.1:5061"),
        1 => Just("sips:uas@10.0.0.1;transport=tcp"),
    ]
    .prop_map(|s| s.to_string())
    .boxed()
}

pub fn uas_strategy() -> BoxedStrategy<UasCase> {
    (
        (g_fromto_wire(), g_tag(), prop_oneof![5 => Just(""), 1 => Just(";x-f=1")]),
        g_fromto_wire(),
        "[A-Za-z0-9.@_-]{1,24}",
        g_cseq(),
        g_contact_wire(),
        (g_rr(), any::<u8>(), prop_oneof![3 => Just(0u8), 1 => Just(1u8), 1 => Just(2u8)]),
        g_local_contact(),
        (
            prop::collection::vec(prop_oneof![1 => Just(100u16), 2 => Just(180u16), 1 => Just(183u16), 2 => 101u16..200], 0..=2),
            prop_oneof![
                4 => Just(Some(200u16)),
                1 => (200u16..300).prop_map(Some),
                2 => (300u16..700).prop_map(Some),
                1 => prop_oneof![Just(404u16), Just(486u16), Just(603u16)].prop_map(Some),
                1 => Just(None),
            ],
            any::<bool>(),
        ),
        g_ops(),
        // (the random draw of `Dialog::new_server` ends at 2^31-2)
        (g_invite_ruri(), any::<bool>(), g_first_cseq((1u32 << 31) - 2)),
        any::<u8>(),
    )
        .prop_map(
            |(((fd, fu, fb), ftag, fextra), (td, tu, tb), call_id, cseq, contact, (rr, rr_layout, names), (lcd, lcu), (provisionals, final_code, acceptor), mut ops, (ruri, secure_tp, first_cseq), rng)| {
                if !(acceptor && matches!(final_code, Some(200..=299))) {
                    // no Session, no terminate()
                    ops.term_faults.clear();
                }
                UasCase {
                    from: fromto_value(&fd, &fu, fb, Some(&ftag), fextra),
                    to: fromto_value(&td, &tu, tb, None, ""),
                    call_id,
                    cseq,
                    contact,
                    rr,
                    rr_layout,
                    names,
                    local_contact_display: lcd,
                    local_contact_uri: lcu,
                    provisionals,
                    final_code,
                    acceptor,
                    cancel: acceptor && final_code.is_none(),
                    // a request to a sips: URI travels on secure transports only
                    secure_tp: secure_tp || ruri.starts_with("sips:"),
                    ruri,
                    first_cseq,
                    ops,
                    rng,
                }
            },
        )
        .boxed()
}

/// every status code 100..=699 through `create_response`, simple request, with 0 and 2 Record-Route
/// entries, directly and through the Acceptor
pub fn uas_code_cases(_tier: Tier) -> Vec<UasCase> {
    let mut out = vec![];
    for code in 100u16..700 {
        for rr_n in [0usize, 2] {
            for acceptor in [false, true] {
                let rr: Vec<String> = ["<sip:p1.example.com;lr>", "<sip:p2.example.net:5070;lr;transport=tcp>"]
                    .iter()
                    .take(rr_n)
                    .map(|s| s.to_string())
                    .collect();
                out.push(UasCase {
                    from: "\"Alice\" <sip:alice@atlanta.example.com>;tag=9fxced76sl".into(),
                    to: "<sip:bob@biloxi.example.org>".into(),
                    call_id: "c11-codes".into(),
                    cseq: 314159,
                    contact: "<sip:alice@client.atlanta.example.com:5070;transport=udp>".into(),
                    rr,
                    rr_layout: 0,
                    names: 0,
                    local_contact_display: None,
                    local_contact_uri: "sip:bob@10.0.0.1".into(),
                    provisionals: if code < 200 { vec![code] } else { vec![] },
                    final_code: if code >= 200 { Some(code) } else { None },
                    acceptor,
                    cancel: false,
                    ruri: default_ruri(),
                    secure_tp: false,
                    first_cseq: None,
                    ops: Ops {
                        methods: vec![0],
                        threads: false,
                        terminate: false,
                        term_faults: vec![],
                    },
                    rng: 0,
                });
            }
        }
    }
    out
}

const TARGETS_DIRECT: &[&str] = &[
    "sip:bob@192.0.2.9",
    "sip:bob@biloxi.example.com",
    "sip:bob@biloxi.example.com:5080;transport=udp",
    "sip:192.0.2.9:5060",
    "sip:+15559876@gw.example.net;user=phone",
];
/// through the Initiator the endpoint selects the transport itself: IP literals only (no DNS in the world)
const TARGETS_INITIATOR: &[&str] = &["sip:bob@192.0.2.9", "sip:192.0.2.9:5060", "sip:bob@192.0.2.9;transport=udp"];
/// the callee is addressed with a sips: URI (a third of the cases); the world's transport is then a secure one
const TARGETS_DIRECT_SIPS: &[&str] = &[
    "sips:bob@192.0.2.9",
    "sips:bob@biloxi.example.com",
    "sips:bob@biloxi.example.com:5081;transport=tcp",
    "sips:192.0.2.9:5061",
];
const TARGETS_INITIATOR_SIPS: &[&str] = &["sips:bob@192.0.2.9", "sips:192.0.2.9:5061", "sips:bob@192.0.2.9;transport=tcp"];

/// 0..=3 rejected INVITE attempts before the one that creates the dialog (half of the cases have none)
fn g_prior() -> BoxedStrategy<Vec<Attempt>> {
    let attempt = (
        prop::collection::vec(prop_oneof![Just(100u16), Just(180u16), Just(183u16)], 0..=2),
        prop_oneof![2 => Just(false), 1 => Just(true)],
        prop_oneof![
            3 => Just(401u16),
            2 => Just(407u16),
            2 => Just(422u16),
            1 => Just(302u16),
            1 => prop_oneof![Just(486u16), Just(480u16), Just(503u16), Just(491u16)],
            2 => 300u16..700,
        ],
        prop_oneof![
            5 => g_tag().prop_map(|t| (Some(t), false)),
            1 => Just((None, false)),
            1 => Just((None, true)),
        ],
        any::<bool>(),
        prop_oneof![3 => Just(0u8), 2 => Just(1u8), 1 => 2u8..=3],
    )
        .prop_map(|(provisionals, early, code, (to_tag, same_tag), edit, bump)| Attempt {
            provisionals,
            early,
            code,
            to_tag,
            same_tag,
            edit,
            bump,
        });
    let count = prop_oneof![10 => Just(0usize), 6 => Just(1usize), 2 => Just(2usize), 2 => Just(3usize)];
    (count, prop::collection::vec(attempt, 3))
        .prop_map(|(n, mut v)| {
            v.truncate(n);
            v
        })
        .boxed()
}

fn g_fork() -> BoxedStrategy<Option<Fork>> {
    prop_oneof![
        3 => Just(None),
        1 => (
            prop_oneof![4 => Just(200u16), 1 => 200u16..300],
            g_tag(),
            g_contact_wire(),
            g_rr(),
            prop::collection::vec(0u8..METHODS.len() as u8, 1..=3),
        )
            .prop_map(|(code, to_tag, peer_contact, rr, methods)| Some(Fork {
                code,
                to_tag,
                peer_contact,
                rr,
                methods,
            })),
    ]
    .boxed()
}

/// An early dialog of another branch, with 0..3 further reliable provisional responses (half of the cases)
fn g_early() -> BoxedStrategy<Option<EarlyDialog>> {
    let code = || prop_oneof![2 => Just(180u16), 2 => Just(183u16), 1 => 101u16..200];
    let later = (
        code(),
        prop_oneof![2 => Just(1u8), 1 => Just(NO_CONTACT), 8 => 0u8..EARLY_CONTACT_KINDS],
        prop_oneof![3 => Just(1u8), 3 => 0u8..EARLY_RR_KINDS],
        prop_oneof![3 => Just(None), 1 => (0u8..METHODS.len() as u8).prop_map(Some)],
    )
        .prop_map(|(code, contact, rr, before)| LaterProv { code, contact, rr, before });
    prop_oneof![
        1 => Just(None),
        1 => (
            code(),
            g_tag(),
            g_contact_wire(),
            g_rr(),
            prop_oneof![3 => Just(true), 1 => Just(false)],
            1u16..=60000,
            prop_oneof![
                1 => Just(vec![]).boxed(),
                3 => prop::collection::vec(later.clone(), 1..=1).boxed(),
                2 => prop::collection::vec(later.clone(), 2..=2).boxed(),
                1 => prop::collection::vec(later, 3..=3).boxed(),
            ],
            prop::collection::vec(0u8..METHODS.len() as u8, 0..=2),
        )
            .prop_map(|(code, to_tag, contact, rr, reliable, rseq, later, methods)| Some(EarlyDialog {
                code,
                to_tag,
                contact,
                rr,
                reliable,
                rseq,
                later,
                methods,
            })),
    ]
    .boxed()
}

/// method of a request created inside an early dialog: a UAC sends no re-INVITE before the first one is answered
fn early_method_of(i: u8) -> Method {
    match method_of(i) {
        Method::INVITE => Method::UPDATE,
        m => m,
    }
}

pub const EARLY_CONTACT_KINDS: u8 = 8;
pub const EARLY_RR_KINDS: u8 = 6;

/// Contact header value of the 1xx that creates the early dialog, as a function of the Contact of the 2xx that
/// later confirms it.  A peer's provisional and final Contact are seldom unrelated: usually the same URI, or
/// the same address with parameters added / removed / changed (GRUU `gr`, `transport`, `ob` ...).
///   0 unrelated URI                      1 the very header value of the 2xx
///   2 the 2xx's URI without URI parameters            3 the 2xx's URI plus a parameter the 2xx lacks
///   4 the 2xx's address with `;transport=tcp` as only parameter (other value / parameter missing in the 2xx)
///   5 the 2xx's URI, every parameter value changed    6 the 2xx's URI, other user part
///   7 the 2xx's URI, other port
fn early_contact_value(kind: u8, final_contact: &str) -> String {
    let fixed = "<sip:early-only@192.0.2.250:5999>".to_string();
    let Some(na) = rd::parse_name_addr(final_contact) else {
        return fixed;
    };
    // generated Contact URIs: scheme:[user@]host[:port]*(;param), no headers
    let (base, params) = match na.uri.find(';') {
        Some(p) => (na.uri[..p].to_string(), na.uri[p..].to_string()),
        None => (na.uri.clone(), String::new()),
    };
    let Some(parts) = rd::split_uri(&base) else {
        return fixed;
    };
    let rebuild = |user: Option<&str>, port: Option<&str>| -> String {
        let mut u = format!("{}:", parts.scheme);
        if let Some(user) = user {
            u.push_str(user);
            u.push('@');
        }
        u.push_str(&parts.host);
        if let Some(p) = port {
            u.push(':');
            u.push_str(p);
        }
        u
    };
    match kind {
        1 => final_contact.to_string(),
        2 => format!("<{base}>"),
        3 => format!("<{base}{params};x-early=1>"),
        4 => format!("<{base};transport=tcp>"),
        5 => {
            let changed: String = params
                .split(';')
                .filter(|p| !p.is_empty())
                .map(|p| match p.find('=') {
                    // (an maddr value has to stay a host)
                    Some(i) if p[..i].eq_ignore_ascii_case("maddr") => ";maddr=192.0.2.201".to_string(),
                    Some(i) => format!(";{}=e{}", &p[..i], &p[i + 1..]),
                    None => format!(";{p}=e"),
                })
                .collect();
            format!("<{base}{changed}>")
        }
        6 => {
            let user = match &parts.user {
                Some(u) => format!("early-{u}"),
                None => "early".to_string(),
            };
            format!("<{}{params}>", rebuild(Some(&user), parts.port.as_deref()))
        }
        7 => {
            let port = match parts.port.as_deref() {
                Some("5999") => "5998",
                _ => "5999",
            };
            format!("<{}{params}>", rebuild(parts.user.as_deref(), Some(port)))
        }
        _ => fixed,
    }
}

/// Record-Route values of the 1xx that creates the early dialog, as a function of the list of the 2xx:
///   0 one unrelated entry   1 the same list   2 the same list reversed   3 none
///   4 the same list below one more entry      5 only the first entry of the list
fn early_rr_values(kind: u8, final_rr: &[String]) -> Vec<String> {
    let extra = "<sip:early-only-proxy.example.com;lr>".to_string();
    match kind {
        1 => final_rr.to_vec(),
        2 => final_rr.iter().rev().cloned().collect(),
        3 => vec![],
        4 => std::iter::once(extra).chain(final_rr.iter().cloned()).collect(),
        5 => final_rr.iter().take(1).cloned().collect(),
        _ => vec![extra],
    }
}

/// the provisional responses above 100 of the dialog-creating attempt carry a To-tag: an EARLY dialog that the
/// 2xx confirms (Initiator only; half of the cases with such a response)
fn early_flow(case: &UacCase) -> bool {
    case.initiator && case.rng % 2 == 0 && case.peer_provisionals.iter().any(|c| *c > 100)
}

pub fn uac_strategy() -> BoxedStrategy<UacCase> {
    (
        (g_display_api(), g_fromto_uri(false)),
        g_local_contact(),
        (any::<u16>(), g_prior(), g_fork(), g_early()),
        (
            prop::collection::vec(prop_oneof![Just(100u16), Just(180u16), Just(183u16)], 0..=2),
            prop_oneof![4 => Just(200u16), 1 => 200u16..300],
            g_tag(),
            g_contact_wire(),
        ),
        (g_rr(), any::<u8>()),
        any::<bool>(),
        (
            prop_oneof![2 => Just(None), 1 => (prop_oneof![Just(90u32), Just(120u32), Just(1800u32)], any::<bool>()).prop_map(Some)],
            prop_oneof![
                2 => Just(None),
                1 => g_send_fault(true, false).prop_map(Some),
                1 => g_send_fault(false, false).prop_map(Some),
            ],
        ),
        (g_ops(), 0u8..EARLY_CONTACT_KINDS, 0u8..EARLY_RR_KINDS),
        (prop_oneof![2 => Just(false), 1 => Just(true)], any::<bool>(), g_first_cseq((1u32 << 31) - 1)),
        any::<u8>(),
    )
        .prop_map(
            |((ld, lu), (lcd, lcu), (tsel, mut prior, mut fork, mut early), (peer_provisionals, code, to_tag, peer_contact), (rr, rr_layout), initiator, (refresh, refresh_fault), (mut ops, early_contact, early_rr), (sips, secure_tp, first_cseq), rng)| {
                // the second branch of a fork is another UAS: its tag differs from the first one's
                if let Some(f) = fork.as_mut() {
                    if f.to_tag == to_tag {
                        f.to_tag.push_str("-b2");
                    }
                }
                // the early dialog belongs to a branch that never answers 2xx: a tag of its own; only the
                // application that holds a `ClientDialogBuilder` gets at the `Dialog` of an early dialog
                if initiator {
                    early = None;
                }
                if let Some(e) = early.as_mut() {
                    while e.to_tag == to_tag || fork.as_ref().map_or(false, |f| f.to_tag == e.to_tag) {
                        e.to_tag.push_str("-e");
                    }
                }
                // a peer that uses one To-tag for the rejection and for the later 2xx (a stateless UAS derives its
                // tag from Call-ID and From-tag, RFC 3261 8.2.6.2)
                for a in prior.iter_mut() {
                    if a.same_tag {
                        a.to_tag = Some(to_tag.clone());
                    }
                }
                if initiator {
                    // the Initiator owns its builder: nothing to bump
                    for a in prior.iter_mut() {
                        a.bump = 0;
                    }
                }
                let targets = match (initiator, sips) {
                    (true, false) => TARGETS_INITIATOR,
                    (true, true) => TARGETS_INITIATOR_SIPS,
                    (false, false) => TARGETS_DIRECT,
                    (false, true) => TARGETS_DIRECT_SIPS,
                };
                let target = targets[pick_idx(tsel, targets.len())];
                // the Initiator keeps its builder to itself; the INVITE that creates the dialog (after all the
                // raises of the earlier attempts) keeps its CSeq below 2^31
                let total_bump: u32 = prior.iter().map(|a| a.bump as u32).sum();
                let first_cseq = if initiator { None } else { first_cseq.map(|n| n.min((1u32 << 31) - 1 - total_bump)) };
                if !initiator {
                    // no Session, no terminate()
                    ops.term_faults.clear();
                }
                let refresh = if initiator { refresh } else { None };
                UacCase {
                    local_display: ld,
                    local_uri: lu,
                    local_contact_display: lcd,
                    local_contact_uri: lcu,
                    target: target.to_string(),
                    peer_provisionals,
                    code,
                    to_tag,
                    peer_contact,
                    rr,
                    rr_layout,
                    initiator,
                    refresh,
                    prior,
                    fork,
                    early_contact,
                    early_rr,
                    refresh_fault: if refresh.is_some() { refresh_fault } else { None },
                    early,
                    secure_tp: secure_tp || sips,
                    first_cseq,
                    ops,
                    rng,
                }
            },
        )
        .boxed()
}

// ------------------------------------------------------------------------------------------
// running a case against ezk

/// Record-Route header lines for values + layout
fn rr_lines(rr: &[String], layout: u8, name: &str) -> Vec<String> {
    let mut lines: Vec<String> = vec![];
    for (i, v) in rr.iter().enumerate() {
        if i > 0 && (layout >> (i - 1)) & 1 == 1 {
            let last = lines.last_mut().unwrap();
            last.push_str(", ");
            last.push_str(v);
        } else {
            lines.push(format!("{name}: {v}"));
        }
    }
    lines
}

fn invite_text(case: &UasCase) -> Vec<u8> {
    let (f, t, i, m, rr) = match case.names {
        1 => ("f", "t", "i", "m", "Record-Route"),
        2 => ("FROM", "to", "CALL-ID", "contact", "record-route"),
        _ => ("From", "To", "Call-ID", "Contact", "Record-Route"),
    };
    let mut s = format!("INVITE {} SIP/2.0\r\n", case.ruri);
    s.push_str(&format!("Via: SIP/2.0/{} {PEER};branch=z9hG4bKc11invite\r\n", tp_name(case.secure_tp)));
    for l in rr_lines(&case.rr, case.rr_layout, rr) {
        s.push_str(&l);
        s.push_str("\r\n");
    }
    s.push_str("Max-Forwards: 70\r\n");
    s.push_str(&format!("{f}: {}\r\n", case.from));
    s.push_str(&format!("{t}: {}\r\n", case.to));
    s.push_str(&format!("{i}: {}\r\n", case.call_id));
    s.push_str(&format!("CSeq: {} INVITE\r\n", case.cseq));
    s.push_str(&format!("{m}: {}\r\n", case.contact));
    s.push_str("Content-Length: 0\r\n\r\n");
    s.into_bytes()
}

fn ack_text(case: &UasCase, to_tag: Option<&str>) -> Vec<u8> {
    let to = match to_tag {
        Some(t) => format!("{};tag={t}", case.to),
        None => case.to.clone(),
    };
    request_text(
        "ACK",
        &case.ruri,
        &[format!("SIP/2.0/{} {PEER};branch=z9hG4bKc11ack", tp_name(case.secure_tp))],
        &case.from,
        &to,
        &case.call_id,
        case.cseq,
        "ACK",
        &[],
        b"",
    )
}

fn cancel_text(case: &UasCase) -> Vec<u8> {
    request_text(
        "CANCEL",
        &case.ruri,
        &[format!("SIP/2.0/{} {PEER};branch=z9hG4bKc11invite", tp_name(case.secure_tp))],
        &case.from,
        &case.to,
        &case.call_id,
        case.cseq,
        "CANCEL",
        &[],
        b"",
    )
}

fn build_contact(endpoint: &Endpoint, display: &Option<String>, uri: &str) -> Result<Contact, String> {
    Ok(Contact::new(build_name_addr(endpoint, display, uri)?))
}

fn build_name_addr(endpoint: &Endpoint, display: &Option<String>, uri: &str) -> Result<NameAddr, String> {
    let uri = endpoint.parse_uri(uri).map_err(|e| format!("uri {uri:?}: {e:?}"))?;
    Ok(NameAddr {
        name: display.as_ref().map(|d| d.as_str().into()),
        uri,
    })
}

pub struct Observed {
    pub wire: Vec<(Sent, Option<WireMsg>)>,
    /// the dialog's local tag as ezk reports it (UAS)
    pub local_tag: Option<String>,
    /// the peer's 2xx (UAC)
    pub peer_response: Option<WireMsg>,
    /// what `do_ops` created
    pub created: Created,
    /// a dialog object was reachable for creating requests
    pub had_dialog: bool,
    /// expected extra requests: Session::terminate BYE, refresh re-INVITE + ACK
    pub terminate_sent: bool,
    /// refresh flow position: number of ops requests sent before the refresh re-INVITE (None = no refresh flow ran)
    pub refresh_after: Option<usize>,
    /// CSeq of a request created while the refresh re-INVITE was pending, and of one created after its ACK
    pub refresh_cseq_probe: Option<(u32, u32)>,
    /// UAC: the INVITE the peer answered with the dialog-creating 2xx (the last of `1 + prior.len()` attempts)
    pub creating_invite: Option<WireMsg>,
    /// UAC fork: the second 2xx, position (among the distinct requests after the INVITE attempts) of the first
    /// request created in the second dialog, and how many were created there
    pub fork_response: Option<WireMsg>,
    pub fork_start: Option<usize>,
    pub fork_sent: usize,
    /// position (among the requests after the INVITE attempts) of the first request `do_ops` created
    pub ops_start: usize,
    /// requests created and sent by other tasks while a `send` call of ezk was pending / after it failed
    pub window_sent: usize,
    /// `send` calls of ezk that were made to fail
    pub failed_sends: usize,
    /// position (as above) of the first request created after a `send` call of ezk was made to fail
    pub after_failed_send: Option<usize>,
    /// refresh flow: positions (as above) of the refresh re-INVITE and of its ACK
    pub refresh_pos: Option<(usize, usize)>,
    /// UAC, early dialog of another branch: the 1xx that created it
    pub early_response: Option<WireMsg>,
    /// ... and, per request created in it (they are the first requests after the INVITE attempts): the provisional
    /// response a PRACK was created for through `create_prack` (`None`: a request from `create_request`)
    pub early_created: Vec<Option<WireMsg>>,
    pub harness: Vec<String>,
}

impl Observed {
    fn new() -> Self {
        Observed {
            wire: vec![],
            local_tag: None,
            peer_response: None,
            created: Created::default(),
            had_dialog: false,
            terminate_sent: false,
            refresh_after: None,
            refresh_cseq_probe: None,
            creating_invite: None,
            fork_response: None,
            fork_start: None,
            fork_sent: 0,
            ops_start: 0,
            window_sent: 0,
            failed_sends: 0,
            after_failed_send: None,
            refresh_pos: None,
            early_response: None,
            early_created: vec![],
            harness: vec![],
        }
    }
}

/// What `do_ops` did
#[derive(Default, Clone, Debug)]
pub struct Created {
    /// number of requests put on the wire, in creation order (threaded: thread 0's first, then thread 1's ...)
    pub sent: usize,
    /// threaded creation only: the CSeq numbers of ALL requests each thread created (fillers included), in
    /// that thread's creation order, read from the printed CSeq header
    pub per_thread: Vec<Vec<u32>>,
}

/// CSeq number of a created request, read from its printed header block with the independent reader
fn printed_cseq(req: &Request) -> Option<u32> {
    let text = format!("X sip:x SIP/2.0\r\n{}\r\n", req.headers);
    WireMsg::parse(text.as_bytes())?.cseq().map(|c| c.0)
}

/// number of filler requests every thread creates after each of its own (more counter traffic = more overlap)
const FILLERS: usize = 40;

/// create the requests of `ops` (optionally on 4 threads), then send each through a client transaction
async fn do_ops(
    endpoint: &Endpoint,
    dialog: &Dialog,
    ops: &Ops,
    mut prack_for: Option<&mut TsxResponse>,
    keep: &mut Vec<Box<dyn Any>>,
    harness: &mut Vec<String>,
) -> Created {
    let mut created = Created::default();
    if ops.threads {
        let mut per_thread: Vec<Vec<Method>> = vec![vec![]; THREADS];
        for (i, m) in ops.methods.iter().enumerate() {
            per_thread[i % THREADS].push(method_of(*m));
        }
        let results: Vec<(Vec<Request>, Vec<Option<u32>>)> = std::thread::scope(|s| {
            let handles: Vec<_> = per_thread
                .into_iter()
                .map(|methods| {
                    s.spawn(move || {
                        let mut mine = vec![];
                        let mut numbers = vec![];
                        // even a thread without a method of its own takes part in the race
                        for _ in 0..FILLERS {
                            numbers.push(printed_cseq(&dialog.create_request(Method::INFO)));
                        }
                        for m in methods {
                            let r = dialog.create_request(m);
                            numbers.push(printed_cseq(&r));
                            mine.push(r);
                            for _ in 0..FILLERS {
                                numbers.push(printed_cseq(&dialog.create_request(Method::INFO)));
                            }
                        }
                        (mine, numbers)
                    })
                })
                .collect();
            handles.into_iter().map(|h| h.join().expect("creator thread")).collect()
        });
        for (mine, numbers) in results {
            if numbers.iter().any(|n| n.is_none()) {
                harness.push("a request created on a thread has no readable CSeq".into());
            }
            created.per_thread.push(numbers.into_iter().flatten().collect());
            for req in mine {
                send_created(endpoint, dialog, req, keep, harness).await;
                created.sent += 1;
            }
        }
    } else {
        for m in &ops.methods {
            let method = method_of(*m);
            let req = match (&method, prack_for.as_deref_mut()) {
                // the public PRACK helper where a response of the INVITE transaction is at hand
                (&Method::PRACK, Some(resp)) => sip_ua::invite::prack::create_prack(dialog, resp, 1),
                _ => dialog.create_request(method),
            };
            send_created(endpoint, dialog, req, keep, harness).await;
            created.sent += 1;
        }
    }
    created
}

async fn send_created(endpoint: &Endpoint, dialog: &Dialog, req: Request, keep: &mut Vec<Box<dyn Any>>, harness: &mut Vec<String>) {
    let mut target = dialog.target_tp_info.lock().await;
    if req.line.method == Method::INVITE {
        match endpoint.send_invite(req, &mut target).await {
            Ok(tsx) => keep.push(Box::new(tsx)),
            Err(e) => harness.push(format!("send_invite: {e}")),
        }
    } else {
        match endpoint.send_request(req, &mut target).await {
            Ok(tsx) => keep.push(Box::new(tsx)),
            Err(e) => harness.push(format!("send_request: {e}")),
        }
    }
}

pub fn run_uas(case: &UasCase) -> Observed {
    let case = case.clone();
    run_world(case.rng as u64, |clock| async move {
        let log = WireLog::new(clock);
        let (tp, gate) = gated_datagram(&log, case.secure_tp);
        let rec = Recorder::new(clock);
        let (tx, mut rx) = mpsc::unbounded_channel();
        let mut b = offline_builder();
        let dialog_layer = b.add_layer(DialogLayer::default());
        let invite_layer = b.add_layer(InviteLayer::default());
        b.add_layer(ChannelLayer { rec, tx });
        b.add_unmanaged_transport(tp.clone());
        let endpoint = b.build();
        let peer: SocketAddr = PEER.parse().unwrap();
        let mut obs = Observed::new();
        let mut keep: Vec<Box<dyn Any>> = vec![];

        inject(&endpoint, &tp, peer, &invite_text(&case));
        settle().await;
        let Ok(mut invite) = rx.try_recv() else {
            obs.harness.push("INVITE did not reach the application layer".into());
            obs.wire = log.parsed();
            return obs;
        };
        let contact = match build_contact(&endpoint, &case.local_contact_display, &case.local_contact_uri) {
            Ok(c) => c,
            Err(e) => {
                obs.harness.push(e);
                return obs;
            }
        };
        let dialog = match Dialog::new_server(endpoint.clone(), dialog_layer, &invite, contact) {
            Ok(d) => d,
            Err(e) => {
                obs.harness.push(format!("Dialog::new_server: {e}"));
                return obs;
            }
        };
        obs.local_tag = dialog.local_fromto.tag.as_ref().map(|t| t.to_string());
        if let Some(n) = case.first_cseq {
            // the dialog's first local sequence number (one of the values the random draw can yield)
            dialog.local_cseq.store(n, std::sync::atomic::Ordering::Relaxed);
        }
        let target = TargetTransportInfo {
            via_host_port: None,
            transport: Some((tp.clone(), peer)),
        };

        if !case.acceptor {
            let mut tsx = endpoint.create_server_inv_tsx(&mut invite);
            for code in &case.provisionals {
                match dialog.create_response(&invite, Code::from(*code), None) {
                    Ok(mut r) => {
                        if let Err(e) = tsx.respond_provisional(&mut r).await {
                            obs.harness.push(format!("respond_provisional {code}: {e}"));
                        }
                    }
                    Err(e) => obs.harness.push(format!("create_response {code}: {e}")),
                }
            }
            match case.final_code {
                Some(code) => match dialog.create_response(&invite, Code::from(code), None) {
                    Ok(r) => {
                        if (200..300).contains(&code) {
                            match tsx.respond_success(r).await {
                                Ok(accepted) => keep.push(Box::new(accepted)),
                                Err(e) => obs.harness.push(format!("respond_success {code}: {e}")),
                            }
                        } else {
                            tokio::spawn(async move {
                                let _ = tsx.respond_failure(r).await;
                            });
                            settle().await;
                        }
                    }
                    Err(e) => obs.harness.push(format!("create_response {code}: {e}")),
                },
                None => keep.push(Box::new(tsx)),
            }
            *dialog.target_tp_info.lock().await = target;
            obs.had_dialog = true;
            obs.created = do_ops(&endpoint, &dialog, &case.ops, None, &mut keep, &mut obs.harness).await;
            settle().await;
            obs.wire = log.parsed();
            drop(keep);
            drop(dialog);
            drop(invite);
            return obs;
        }

        // ---- through the Acceptor ----
        let acceptor = match Acceptor::new(dialog, invite_layer, invite) {
            Ok(a) => a,
            Err(e) => {
                obs.harness.push(format!("Acceptor::new: {e}"));
                return obs;
            }
        };
        let mut acceptor = acceptor;
        for code in &case.provisionals {
            match acceptor.create_response(Code::from(*code), None).await {
                Ok(r) => {
                    if let Err(e) = acceptor.respond_provisional(r).await {
                        obs.harness.push(format!("acceptor.respond_provisional {code}: {e}"));
                    }
                }
                Err(e) => obs.harness.push(format!("acceptor.create_response {code}: {e}")),
            }
        }
        match case.final_code {
            Some(code) => match acceptor.create_response(Code::from(code), None).await {
                Ok(r) if (200..300).contains(&code) => {
                    let h = tokio::spawn(acceptor.respond_success(r));
                    settle().await;
                    // the peer reads the To-tag from the 2xx and acknowledges
                    let to_tag = log
                        .parsed()
                        .into_iter()
                        .filter_map(|(_, m)| m)
                        .find(|m| m.status() == Some(code))
                        .and_then(|m| m.to_tag());
                    inject(&endpoint, &tp, peer, &ack_text(&case, to_tag.as_deref()));
                    settle().await;
                    match tokio::time::timeout(Duration::from_secs(120), h).await {
                        Ok(Ok(Ok((session, _ack)))) => {
                            let dialog = session.dialog.clone();
                            *dialog.target_tp_info.lock().await = target;
                            obs.had_dialog = true;
                            obs.created = do_ops(&endpoint, &dialog, &case.ops, None, &mut keep, &mut obs.harness).await;
                            if case.ops.terminate {
                                let mut own_target = TargetTransportInfo {
                                    via_host_port: None,
                                    transport: Some((tp.clone(), peer)),
                                };
                                terminate_flow(clock, &log, &gate, &endpoint, session, &case.ops.term_faults, &mut own_target, 0, &mut keep, &mut obs).await;
                            } else {
                                keep.push(Box::new(session));
                            }
                        }
                        Ok(Ok(Err(e))) => obs.harness.push(format!("acceptor.respond_success {code}: {e}")),
                        Ok(Err(e)) => obs.harness.push(format!("acceptor.respond_success task: {e}")),
                        Err(_) => obs.harness.push("acceptor.respond_success did not return within 120 s".into()),
                    }
                }
                Ok(r) => {
                    tokio::spawn(acceptor.respond_failure(r));
                    settle().await;
                }
                Err(e) => obs.harness.push(format!("acceptor.create_response {code}: {e}")),
            },
            None => {
                if case.cancel {
                    inject(&endpoint, &tp, peer, &cancel_text(&case));
                    settle().await;
                }
                keep.push(Box::new(SendBox(acceptor)))
            }
        }
        settle().await;
        obs.wire = log.parsed();
        drop(keep);
        obs
    })
}

/// header the application adds to a repeated INVITE
const CREDENTIALS: &str = "Digest username=\"alice\", realm=\"c11\", nonce=\"n0\", uri=\"sip:bob@192.0.2.9\", response=\"00000000000000000000000000000000\"";

/// what a rejecting peer adds to its failure response
fn failure_extra(code: u16) -> Vec<String> {
    match code {
        401 => vec!["WWW-Authenticate: Digest realm=\"c11\", nonce=\"n0\"".to_string()],
        407 => vec!["Proxy-Authenticate: Digest realm=\"c11\", nonce=\"n0\"".to_string()],
        422 => vec!["Min-SE: 1800".to_string()],
        300..=399 => vec!["Contact: <sip:bob@192.0.2.77:5062>".to_string()],
        _ => vec![],
    }
}

/// Contact and Record-Route of a provisional response that creates an early dialog which never gets confirmed
fn early_extra() -> Vec<String> {
    vec![
        "Contact: <sip:early-only@192.0.2.250:5999>".to_string(),
        "Record-Route: <sip:early-only-proxy.example.com;lr>".to_string(),
    ]
}

/// keeps a value alive in the `keep` list
struct SendBox<T>(#[allow(dead_code)] T);

// ------------------------------------------------------------------------------------------
// a transport whose `send` can be held pending

/// Shared state of `GateTp`
#[derive(Default)]
pub struct Gate {
    /// `Some(fail)`: the next `send` call is held until `release`; then it fails / returns
    armed: parking_lot::Mutex<Option<bool>>,
    /// the messages whose `send` was held, and whether that call failed
    held: parking_lot::Mutex<Vec<(Option<WireMsg>, bool)>>,
    release: tokio::sync::Notify,
}

impl Gate {
    fn arm(&self, fail: bool) {
        *self.armed.lock() = Some(fail);
    }
    fn disarm(&self) {
        *self.armed.lock() = None;
    }
    fn held(&self) -> usize {
        self.held.lock().len()
    }
    fn last_held(&self) -> Option<WireMsg> {
        self.held.lock().last().and_then(|(m, _)| m.clone())
    }
}

/// The world's mock datagram transport behind a gate: an armed `send` call stays pending (like a socket that
/// is not writable) until the test releases it, and then either fails with an io::Error without anything
/// having reached the wire, or returns Ok (the bytes went out when the call started, so the wire log keeps
/// the order in which the requests were handed to the transport).  All other calls pass through.
struct GateTp {
    inner: TpHandle,
    gate: Arc<Gate>,
}

impl std::fmt::Debug for GateTp {
    fn fmt(&self, f: &mut std::fmt::Formatter<'_>) -> std::fmt::Result {
        write!(f, "GateTp({:?})", self.inner)
    }
}
impl std::fmt::Display for GateTp {
    fn fmt(&self, f: &mut std::fmt::Formatter<'_>) -> std::fmt::Result {
        write!(f, "gate:{}", self.inner)
    }
}

#[async_trait::async_trait]
impl Transport for GateTp {
    fn name(&self) -> &'static str {
        self.inner.name()
    }
    fn secure(&self) -> bool {
        self.inner.secure()
    }
    fn reliable(&self) -> bool {
        self.inner.reliable()
    }
    fn bound(&self) -> SocketAddr {
        self.inner.bound()
    }
    fn sent_by(&self) -> SocketAddr {
        self.inner.sent_by()
    }
    fn direction(&self) -> Direction {
        self.inner.direction()
    }
    async fn send(&self, message: &[u8], target: SocketAddr) -> std::io::Result<()> {
        let armed = self.gate.armed.lock().take();
        match armed {
            None => self.inner.send(message, target).await,
            Some(fail) => {
                if !fail {
                    self.inner.send(message, target).await?;
                }
                self.gate.held.lock().push((WireMsg::parse(message), fail));
                self.gate.release.notified().await;
                if fail {
                    Err(std::io::Error::new(std::io::ErrorKind::ConnectionReset, "c11: injected send failure"))
                } else {
                    Ok(())
                }
            }
        }
    }
}

/// name of the world's transport: plain UDP, or a secure datagram transport (DTLS over UDP: same unreliable
/// delivery, so the transaction timers are the same in both worlds)
fn tp_name(secure: bool) -> &'static str {
    if secure {
        "DTLS-UDP"
    } else {
        "UDP"
    }
}

/// mock datagram transport of the world (`secure`: one that a sips: URI allows) behind a gate
fn gated_datagram(log: &WireLog, secure: bool) -> (TpHandle, Arc<Gate>) {
    let (inner, _) = mock_datagram(log, tp_name(secure), secure, false, "10.0.0.1:5060");
    let gate = Arc::new(Gate::default());
    (TpHandle::new(GateTp { inner, gate: gate.clone() }), gate)
}

/// number of distinct requests on the wire (retransmissions share the Via branch)
fn count_requests(log: &WireLog) -> usize {
    let mut seen = HashSet::new();
    log.parsed()
        .into_iter()
        .filter_map(|(_, m)| m)
        .filter(|m| m.is_request())
        .filter(|m| seen.insert(m.via_branch()))
        .count()
}

/// What the application's other tasks do while a `send` call of ezk is pending: create requests on the shared
/// dialog and send them (through a transport info of their own - the pending call may hold the dialog's).
async fn window_requests(
    endpoint: &Endpoint,
    dialog: &Dialog,
    methods: &[u8],
    own_target: &mut TargetTransportInfo,
    keep: &mut Vec<Box<dyn Any>>,
    obs: &mut Observed,
) {
    for m in methods {
        let req = dialog.create_request(method_of(*m));
        if req.line.method == Method::INVITE {
            match endpoint.send_invite(req, own_target).await {
                Ok(tsx) => keep.push(Box::new(tsx)),
                Err(e) => obs.harness.push(format!("send_invite (while a send was pending): {e}")),
            }
        } else {
            match endpoint.send_request(req, own_target).await {
                Ok(tsx) => keep.push(Box::new(tsx)),
                Err(e) => obs.harness.push(format!("send_request (while a send was pending): {e}")),
            }
        }
        obs.window_sent += 1;
    }
}

/// `Session::terminate()` under the transport trouble of `faults`: every call runs in a task of its own; while
/// the `send` of its BYE is pending, other tasks create and send requests on the shared dialog; after a failed
/// call the application calls `terminate()` again.  `n_before` = requests on the wire before the dialog existed.
#[allow(clippy::too_many_arguments)]
async fn terminate_flow(
    clock: Clock,
    log: &WireLog,
    gate: &Gate,
    endpoint: &Endpoint,
    mut session: sip_ua::invite::session::Session,
    faults: &[SendFault],
    own_target: &mut TargetTransportInfo,
    n_before: usize,
    keep: &mut Vec<Box<dyn Any>>,
    obs: &mut Observed,
) {
    let dialog = session.dialog.clone();
    let mut faults = faults.iter();
    loop {
        let fault = faults.next();
        let held_before = gate.held();
        if let Some(f) = fault {
            gate.arm(f.fail);
        }
        let h = tokio::spawn(async move {
            let r = session.terminate().await.map(|_| ()).map_err(|e| e.to_string());
            (session, r)
        });
        settle().await;
        let Some(f) = fault else {
            keep.push(Box::new(h));
            obs.terminate_sent = true;
            return;
        };
        if gate.held() != held_before + 1 {
            gate.disarm();
            obs.harness.push("terminate(): the send of the BYE did not reach the transport".into());
            keep.push(Box::new(h));
            return;
        }
        if f.fail && obs.after_failed_send.is_none() {
            obs.after_failed_send = Some(count_requests(log) - n_before);
        }
        // the BYE is being written: the rest of the application goes on using the dialog
        window_requests(endpoint, &dialog, &f.during, own_target, keep, obs).await;
        clock.advance(f.pending_ms as u64).await;
        settle().await;
        gate.release.notify_one();
        settle().await;
        if !f.fail {
            // the BYE went out, terminate() now waits for the answer
            keep.push(Box::new(h));
            obs.terminate_sent = true;
            return;
        }
        if !h.is_finished() {
            obs.harness.push("terminate() did not return after the send of its BYE failed".into());
            keep.push(Box::new(h));
            return;
        }
        match h.await {
            Ok((s, Err(_))) => session = s,
            Ok((_, Ok(()))) => {
                obs.harness.push("terminate() reported success although the send of its BYE failed".into());
                return;
            }
            Err(e) => {
                obs.harness.push(format!("terminate() task: {e}"));
                return;
            }
        }
        obs.failed_sends += 1;
        window_requests(endpoint, &dialog, &f.after, own_target, keep, obs).await;
        settle().await;
    }
}

/// Contact / Record-Route / 100rel header lines of a provisional response inside (or creating) an early dialog
fn early_lines(contact: Option<&str>, rr: &[String], rseq: Option<u32>) -> Vec<String> {
    let mut extra = vec![];
    if let Some(c) = contact {
        extra.push(format!("Contact: {c}"));
    }
    extra.extend(rr_lines(rr, 0, "Record-Route"));
    if let Some(n) = rseq {
        extra.push("Require: 100rel".to_string());
        extra.push(format!("RSeq: {n}"));
    }
    extra
}

/// The early dialog of another branch (`ClientDialogBuilder` flow): the peer's 1xx with a To-tag creates it, the
/// application acknowledges every reliable provisional response of it through the public helper
/// `invite::prack::create_prack(&dialog, &mut response, rseq)` and creates further requests with
/// `Dialog::create_request`; everything is sent at once, so the wire holds the requests in creation order.
#[allow(clippy::too_many_arguments)]
async fn early_dialog_flow(
    endpoint: &Endpoint,
    tp: &TpHandle,
    peer: SocketAddr,
    invite_wire: &WireMsg,
    cb: &mut ClientDialogBuilder,
    tsx: &mut sip_core::transaction::ClientInvTsx,
    e: &EarlyDialog,
    keep: &mut Vec<Box<dyn Any>>,
    obs: &mut Observed,
) -> Option<Dialog> {
    let mut rseq = e.rseq as u32;
    // ---- the response that creates the dialog ----
    let bytes = response_text(invite_wire, e.code, Some(&e.to_tag), &early_lines(Some(&e.contact), &e.rr, e.reliable.then_some(rseq)));
    obs.early_response = WireMsg::parse(&bytes);
    inject(endpoint, tp, peer, &bytes);
    settle().await;
    let mut first = match tokio::time::timeout(Duration::from_secs(1), tsx.receive()).await {
        Ok(Ok(Some(r))) if r.line.code.into_u16() == e.code => r,
        other => {
            obs.harness.push(format!(
                "peer sent {} with a To-tag, transaction delivered {:?}",
                e.code,
                other.map(|r| r.map(|o| o.map(|r| r.line.code.into_u16())).map_err(|e| e.to_string()))
            ));
            return None;
        }
    };
    let dialog = match cb.create_dialog_from_response(&first) {
        Ok(d) => d,
        Err(err) => {
            obs.harness.push(format!("create_dialog_from_response (early dialog): {err}"));
            return None;
        }
    };
    if e.reliable {
        let req = sip_ua::invite::prack::create_prack(&dialog, &mut first, rseq);
        send_created(endpoint, &dialog, req, keep, &mut obs.harness).await;
        obs.early_created.push(WireMsg::parse(&bytes));
        rseq += 1;
    }
    // ---- further reliable provisional responses inside the dialog ----
    for l in &e.later {
        if let Some(m) = l.before {
            let req = dialog.create_request(early_method_of(m));
            send_created(endpoint, &dialog, req, keep, &mut obs.harness).await;
            obs.early_created.push(None);
        }
        let contact = (l.contact != NO_CONTACT).then(|| early_contact_value(l.contact, &e.contact));
        let bytes = response_text(invite_wire, l.code, Some(&e.to_tag), &early_lines(contact.as_deref(), &early_rr_values(l.rr, &e.rr), Some(rseq)));
        inject(endpoint, tp, peer, &bytes);
        settle().await;
        match tokio::time::timeout(Duration::from_secs(1), tsx.receive()).await {
            Ok(Ok(Some(mut r))) if r.line.code.into_u16() == l.code => {
                let req = sip_ua::invite::prack::create_prack(&dialog, &mut r, rseq);
                send_created(endpoint, &dialog, req, keep, &mut obs.harness).await;
                obs.early_created.push(WireMsg::parse(&bytes));
            }
            other => obs.harness.push(format!(
                "peer sent {} inside the early dialog, transaction delivered {:?}",
                l.code,
                other.map(|r| r.map(|o| o.map(|r| r.line.code.into_u16())).map_err(|e| e.to_string()))
            )),
        }
        rseq += 1;
    }
    for m in &e.methods {
        let req = dialog.create_request(early_method_of(*m));
        send_created(endpoint, &dialog, req, keep, &mut obs.harness).await;
        obs.early_created.push(None);
    }
    settle().await;
    Some(dialog)
}

pub fn run_uac(case: &UacCase) -> Observed {
    let case = case.clone();
    run_world(case.rng as u64, |clock| async move {
        let log = WireLog::new(clock);
        let (tp, gate) = gated_datagram(&log, case.secure_tp);
        let mut b = offline_builder();
        let dialog_layer = b.add_layer(DialogLayer::default());
        let invite_layer = b.add_layer(InviteLayer::default());
        b.add_unmanaged_transport(tp.clone());
        let endpoint = b.build();
        let peer: SocketAddr = PEER.parse().unwrap();
        let mut obs = Observed::new();
        let mut keep: Vec<Box<dyn Any>> = vec![];

        let built = (|| -> Result<_, String> {
            Ok((
                build_name_addr(&endpoint, &case.local_display, &case.local_uri)?,
                build_contact(&endpoint, &case.local_contact_display, &case.local_contact_uri)?,
                endpoint.parse_uri(&case.target).map_err(|e| format!("target: {e:?}"))?,
            ))
        })();
        let (local_addr, local_contact, target) = match built {
            Ok(x) => x,
            Err(e) => {
                obs.harness.push(e);
                return obs;
            }
        };

        // what the peer answers with
        let mut extra = vec![format!("Contact: {}", case.peer_contact)];
        extra.extend(rr_lines(&case.rr, case.rr_layout, "Record-Route"));
        if let Some((se, _)) = case.refresh {
            extra.push("Require: timer".to_string());
            extra.push(format!("Session-Expires: {se};refresher=uac"));
        }

        // the newest INVITE on the wire (retransmissions are copies) and the number of distinct requests
        let last_invite = |log: &WireLog| -> Option<WireMsg> {
            log.parsed().into_iter().filter_map(|(_, m)| m).filter(|m| m.method() == Some("INVITE")).last()
        };
        let n_invites = case.prior.len() + 1;
        // what the second branch of a forking proxy answers with
        let fork_bytes = |invite_wire: &WireMsg| -> Option<Vec<u8>> {
            case.fork.as_ref().map(|f| {
                let mut extra = vec![format!("Contact: {}", f.peer_contact)];
                extra.extend(rr_lines(&f.rr, 0, "Record-Route"));
                response_text(invite_wire, f.code, Some(&f.to_tag), &extra)
            })
        };

        if !case.initiator {
            let mut cb = ClientDialogBuilder::new(endpoint.clone(), dialog_layer, local_addr, local_contact, target);
            cb.target_tp_info.transport = Some((tp.clone(), peer));
            if let Some(n) = case.first_cseq {
                // the application numbers its requests itself
                cb.local_cseq = n;
            }
            let mut prev: Option<&Attempt> = None;
            let mut attempts: Vec<Option<&Attempt>> = case.prior.iter().map(Some).collect();
            attempts.push(None);
            for att in attempts {
                // the application repeats the INVITE: optionally with a new CSeq (through the pub field, the
                // only handle the builder offers) and with credentials
                if let Some(p) = prev {
                    cb.local_cseq += p.bump as u32;
                }
                let mut invite = cb.create_request(Method::INVITE);
                if prev.map_or(false, |p| p.edit) {
                    invite.headers.insert(Name::AUTHORIZATION, CREDENTIALS);
                }
                let before = count_requests(&log);
                let mut tsx = match endpoint.send_invite(invite, &mut cb.target_tp_info).await {
                    Ok(t) => t,
                    Err(e) => {
                        obs.harness.push(format!("send_invite: {e}"));
                        return obs;
                    }
                };
                settle().await;
                let Some(invite_wire) = last_invite(&log).filter(|_| count_requests(&log) == before + 1) else {
                    obs.harness.push("INVITE not on the wire".into());
                    return obs;
                };
                if let Some(a) = att {
                    // ---- an attempt the peer rejects ----
                    let mut early_dialog = None;
                    let mut codes: Vec<u16> = a.provisionals.clone();
                    codes.push(a.code);
                    for code in codes {
                        let tagged = code < 200 && code > 100 && a.early && a.to_tag.is_some();
                        let bytes = if code >= 200 {
                            response_text(&invite_wire, code, a.to_tag.as_deref(), &failure_extra(code))
                        } else if tagged {
                            response_text(&invite_wire, code, a.to_tag.as_deref(), &early_extra())
                        } else {
                            response_text(&invite_wire, code, None, &[])
                        };
                        inject(&endpoint, &tp, peer, &bytes);
                        settle().await;
                        match tokio::time::timeout(Duration::from_secs(1), tsx.receive()).await {
                            Ok(Ok(Some(r))) if r.line.code.into_u16() == code => {
                                // the application keeps an early dialog until the failure arrives
                                if tagged && early_dialog.is_none() {
                                    match cb.create_dialog_from_response(&r) {
                                        Ok(d) => early_dialog = Some(d),
                                        Err(e) => obs.harness.push(format!("create_dialog_from_response (early, rejected attempt): {e}")),
                                    }
                                }
                            }
                            other => obs.harness.push(format!(
                                "peer sent {code} in a rejected attempt, transaction delivered {:?}",
                                other.map(|r| r.map(|o| o.map(|r| r.line.code.into_u16())).map_err(|e| e.to_string()))
                            )),
                        }
                    }
                    drop(early_dialog);
                    keep.push(Box::new(tsx));
                    prev = Some(a);
                    continue;
                }

                // ---- the attempt that creates the dialog ----
                obs.creating_invite = Some(invite_wire.clone());
                let mut final_resp = None;
                let mut codes: Vec<u16> = case.peer_provisionals.clone();
                codes.push(case.code);
                let mut early_dialog: Option<Dialog> = None;
                for code in codes {
                    if code >= 200 {
                        // ---- before the 2xx: the early dialog of another branch of the forked INVITE ----
                        if let Some(e) = &case.early {
                            early_dialog = early_dialog_flow(&endpoint, &tp, peer, &invite_wire, &mut cb, &mut tsx, e, &mut keep, &mut obs).await;
                        }
                    }
                    let bytes = if code >= 200 {
                        response_text(&invite_wire, code, Some(&case.to_tag), &extra)
                    } else {
                        response_text(&invite_wire, code, None, &[])
                    };
                    if code >= 200 {
                        obs.peer_response = WireMsg::parse(&bytes);
                    }
                    inject(&endpoint, &tp, peer, &bytes);
                    settle().await;
                    match tokio::time::timeout(Duration::from_secs(1), tsx.receive()).await {
                        Ok(Ok(Some(r))) if r.line.code.into_u16() == code => {
                            if code >= 200 {
                                final_resp = Some(r);
                            }
                        }
                        other => obs.harness.push(format!(
                            "peer sent {code}, transaction delivered {:?}",
                            other.map(|r| r.map(|o| o.map(|r| r.line.code.into_u16())).map_err(|e| e.to_string()))
                        )),
                    }
                }
                let Some(resp) = final_resp else {
                    obs.wire = log.parsed();
                    return obs;
                };
                let dialog = match cb.create_dialog_from_response(&resp) {
                    Ok(d) => d,
                    Err(e) => {
                        obs.harness.push(format!("create_dialog_from_response: {e}"));
                        obs.wire = log.parsed();
                        return obs;
                    }
                };
                obs.had_dialog = true;
                // a second 2xx from another branch: a second dialog out of the same builder and transaction
                let mut fork_dialog = None;
                if let Some(bytes) = fork_bytes(&invite_wire) {
                    obs.fork_response = WireMsg::parse(&bytes);
                    inject(&endpoint, &tp, peer, &bytes);
                    settle().await;
                    match tokio::time::timeout(Duration::from_secs(1), tsx.receive()).await {
                        Ok(Ok(Some(r2))) if r2.line.code.kind() == sip_types::CodeKind::Success => match cb.create_dialog_from_response(&r2) {
                            Ok(d) => fork_dialog = Some(d),
                            Err(e) => obs.harness.push(format!("create_dialog_from_response (second 2xx): {e}")),
                        },
                        other => obs.harness.push(format!(
                            "peer sent a second 2xx, transaction delivered {:?}",
                            other.map(|r| r.map(|o| o.map(|r| r.line.code.into_u16())).map_err(|e| e.to_string()))
                        )),
                    }
                }
                let mut resp = resp;
                obs.created = do_ops(&endpoint, &dialog, &case.ops, Some(&mut resp), &mut keep, &mut obs.harness).await;
                settle().await;
                if let (Some(f), Some(d2)) = (&case.fork, &fork_dialog) {
                    obs.fork_start = Some(count_requests(&log) - n_invites - obs.early_created.len());
                    for m in &f.methods {
                        let req = d2.create_request(method_of(*m));
                        send_created(&endpoint, d2, req, &mut keep, &mut obs.harness).await;
                        obs.fork_sent += 1;
                    }
                    settle().await;
                }
                obs.wire = log.parsed();
                drop(keep);
                drop(dialog);
                drop(fork_dialog);
                drop(early_dialog);
                drop(tsx);
                return obs;
            }
            unreachable!("the last attempt returns");
        }

        // ---- through the Initiator ----
        let mut ini = Initiator::new(endpoint.clone(), dialog_layer, invite_layer, local_addr, local_contact, target);
        let mut prev: Option<&Attempt> = None;
        for a in &case.prior {
            // ---- an attempt the peer rejects; the application then calls create_invite / send_invite again ----
            let mut invite = ini.create_invite();
            if prev.map_or(false, |p| p.edit) {
                invite.headers.insert(Name::AUTHORIZATION, CREDENTIALS);
            }
            let before = count_requests(&log);
            if let Err(e) = ini.send_invite(invite).await {
                obs.harness.push(format!("initiator.send_invite: {e}"));
                return obs;
            }
            settle().await;
            let Some(invite_wire) = last_invite(&log).filter(|_| count_requests(&log) == before + 1) else {
                obs.harness.push("INVITE not on the wire".into());
                return obs;
            };
            for code in &a.provisionals {
                if *code > 100 && a.early && a.to_tag.is_some() {
                    inject(&endpoint, &tp, peer, &response_text(&invite_wire, *code, a.to_tag.as_deref(), &early_extra()));
                } else {
                    inject(&endpoint, &tp, peer, &response_text(&invite_wire, *code, None, &[]));
                }
                settle().await;
            }
            inject(&endpoint, &tp, peer, &response_text(&invite_wire, a.code, a.to_tag.as_deref(), &failure_extra(a.code)));
            settle().await;
            // the application holds the early dialogs of this attempt until the failure is delivered
            let mut earlies = vec![];
            let mut failed = false;
            for _ in 0..8 {
                match tokio::time::timeout(Duration::from_secs(1), ini.receive()).await {
                    Ok(Ok(IniResponse::Provisional(_))) => continue,
                    Ok(Ok(IniResponse::Early(e, _, _))) => {
                        earlies.push(e);
                        continue;
                    }
                    Ok(Ok(IniResponse::Failure(r))) => {
                        if r.line.code.into_u16() != a.code {
                            obs.harness.push(format!("peer rejected with {}, initiator delivered {}", a.code, r.line.code.into_u16()));
                        }
                        failed = true;
                        break;
                    }
                    Ok(Ok(IniResponse::Session(..))) => {
                        obs.harness.push("initiator.receive: Session for a rejected attempt".into());
                        break;
                    }
                    Ok(Ok(IniResponse::Finished)) => {
                        obs.harness.push("initiator.receive: Finished for a rejected attempt".into());
                        break;
                    }
                    Ok(Err(e)) => {
                        obs.harness.push(format!("initiator.receive (rejected attempt): {e}"));
                        break;
                    }
                    Err(_) => {
                        obs.harness.push("initiator.receive did not deliver the failure response".into());
                        break;
                    }
                }
            }
            drop(earlies);
            if !failed {
                obs.wire = log.parsed();
                return obs;
            }
            prev = Some(a);
        }
        let mut invite = ini.create_invite();
        if prev.map_or(false, |p| p.edit) {
            invite.headers.insert(Name::AUTHORIZATION, CREDENTIALS);
        }
        let before = count_requests(&log);
        if let Err(e) = ini.send_invite(invite).await {
            obs.harness.push(format!("initiator.send_invite: {e}"));
            return obs;
        }
        settle().await;
        let Some(invite_wire) = last_invite(&log).filter(|_| count_requests(&log) == before + 1) else {
            obs.harness.push("INVITE not on the wire".into());
            return obs;
        };
        obs.creating_invite = Some(invite_wire.clone());
        // half of the cases: the provisional responses above 100 create an EARLY dialog (To-tag, a Contact and a
        // Record-Route list that are related to the 2xx's in one of several ways): the session's dialog state
        // must come from the 2xx
        let early_flow = early_flow(&case);
        let mut early_extra = vec![format!("Contact: {}", early_contact_value(case.early_contact, &case.peer_contact))];
        early_extra.extend(rr_lines(&early_rr_values(case.early_rr, &case.rr), 0, "Record-Route"));
        for code in &case.peer_provisionals {
            if early_flow && *code > 100 {
                inject(&endpoint, &tp, peer, &response_text(&invite_wire, *code, Some(&case.to_tag), &early_extra));
            } else {
                inject(&endpoint, &tp, peer, &response_text(&invite_wire, *code, None, &[]));
            }
            settle().await;
        }
        let bytes = response_text(&invite_wire, case.code, Some(&case.to_tag), &extra);
        obs.peer_response = WireMsg::parse(&bytes);
        inject(&endpoint, &tp, peer, &bytes);
        settle().await;
        let mut session = None;
        let mut early: Option<sip_ua::invite::initiator::Early> = None;
        for _ in 0..8 {
            // the 2xx for an early dialog is delivered through that early dialog while the initiator is polled
            let step = match early.as_mut() {
                Some(e) => {
                    tokio::select! {
                        r = ini.receive() => Ok(r),
                        er = e.receive() => Err(er),
                    }
                }
                None => Ok(match tokio::time::timeout(Duration::from_secs(1), ini.receive()).await {
                    Ok(r) => r,
                    Err(_) => {
                        obs.harness.push("initiator.receive did not deliver the 2xx".into());
                        break;
                    }
                }),
            };
            let r = match step {
                Err(Ok(sip_ua::invite::initiator::EarlyResponse::Success(s, _))) => {
                    session = Some(s);
                    break;
                }
                Err(Ok(_)) => continue,
                Err(Err(e)) => {
                    obs.harness.push(format!("early.receive: {e}"));
                    break;
                }
                Ok(r) => r,
            };
            match Ok::<_, ()>(r) {
                Ok(Ok(IniResponse::Early(e, _, _))) => {
                    if early.is_none() {
                        early = Some(e);
                    }
                    continue;
                }
                Ok(Ok(IniResponse::Session(s, _))) => {
                    session = Some(s);
                    break;
                }
                Ok(Ok(IniResponse::Provisional(_))) => continue,
                Ok(Ok(other)) => {
                    obs.harness.push(format!("initiator.receive: unexpected {}", match other {
                        IniResponse::Failure(_) => "Failure",
                        IniResponse::Early(..) => "Early",
                        IniResponse::Finished => "Finished",
                        _ => "?",
                    }));
                    break;
                }
                Ok(Err(e)) => {
                    obs.harness.push(format!("initiator.receive: {e}"));
                    break;
                }
                Err(_) => {
                    obs.harness.push("initiator.receive did not deliver the 2xx".into());
                    break;
                }
            }
        }
        let Some(session) = session else {
            obs.wire = log.parsed();
            return obs;
        };
        let dialog: Arc<Dialog> = session.dialog.clone();
        obs.had_dialog = true;

        // a second 2xx from another branch: the initiator hands out a second session
        let mut fork_session = None;
        if let Some(bytes) = fork_bytes(&invite_wire) {
            obs.fork_response = WireMsg::parse(&bytes);
            inject(&endpoint, &tp, peer, &bytes);
            settle().await;
            match tokio::time::timeout(Duration::from_secs(1), ini.receive()).await {
                Ok(Ok(IniResponse::Session(s2, _))) => fork_session = Some(s2),
                Ok(Ok(_)) => obs.harness.push("initiator.receive: the second 2xx was not delivered as a Session".into()),
                Ok(Err(e)) => obs.harness.push(format!("initiator.receive (second 2xx): {e}")),
                Err(_) => obs.harness.push("initiator.receive did not deliver the second 2xx".into()),
            }
        }

        let mut session = Some(session);
        // what the application's other tasks send through while a send of ezk holds the dialog's transport info
        let mut own_target = TargetTransportInfo {
            via_host_port: None,
            transport: Some((tp.clone(), peer)),
        };
        let refresh_first = matches!(case.refresh, Some((_, true)));
        if !refresh_first {
            obs.ops_start = count_requests(&log) - n_invites;
            obs.created = do_ops(&endpoint, &dialog, &case.ops, None, &mut keep, &mut obs.harness).await;
            settle().await;
        }
        if let Some((se, _)) = case.refresh {
            let before = count_requests(&log);
            obs.refresh_after = Some(before - n_invites);
            let mut s = session.take().unwrap();
            // transport trouble for the re-INVITE: its `send` stays pending, then fails (the application runs the
            // refresh again at once) or returns late
            let fault = case.refresh_fault.clone();
            let held_before = gate.held();
            if let Some(f) = &fault {
                gate.arm(f.fail);
            }
            let retry = fault.as_ref().map_or(false, |f| f.fail);
            let h = tokio::spawn(async move {
                let first = match tokio::time::timeout(Duration::from_secs(se as u64 + 60), s.drive()).await {
                    Ok(Ok(Event::RefreshNeeded(ev))) => ev.process_default().await.map_err(|e| (true, format!("process_default: {e}"))),
                    Ok(Ok(_)) => Err((false, "drive returned another event than RefreshNeeded".to_string())),
                    Ok(Err(e)) => Err((false, format!("drive: {e}"))),
                    Err(_) => Err((false, "no RefreshNeeded within session-expires + 60 s".to_string())),
                };
                let r = match first {
                    Err((true, _)) if retry => sip_ua::invite::session::RefreshNeeded { session: &mut s }
                        .process_default()
                        .await
                        .map_err(|e| format!("process_default (second run): {e}")),
                    other => other.map_err(|(_, e)| e),
                };
                (s, r)
            });
            // wait (virtual time) for the refresh re-INVITE
            let mut reinvite = None;
            let mut appeared = false;
            let before_len = log.len();
            for _ in 0..(se as u64 + 62) {
                clock.advance(1000).await;
                settle().await;
                // (nothing else is being polled: the only new message can be the re-INVITE)
                if (log.len() > before_len && count_requests(&log) > before) || gate.held() > held_before {
                    appeared = true;
                    break;
                }
                if h.is_finished() {
                    break;
                }
            }
            let mut window = 0;
            if appeared {
                if let Some(f) = &fault {
                    if gate.held() == held_before + 1 {
                        if f.fail {
                            obs.after_failed_send = Some(count_requests(&log) - n_invites);
                        }
                        // the re-INVITE is being written: the rest of the application goes on using the dialog
                        window_requests(&endpoint, &dialog, &f.during, &mut own_target, &mut keep, &mut obs).await;
                        window = f.during.len();
                        clock.advance(f.pending_ms as u64).await;
                        settle().await;
                        gate.release.notify_one();
                        settle().await;
                        if f.fail {
                            obs.failed_sends += 1;
                        }
                    } else {
                        gate.disarm();
                        obs.harness.push("refresh flow: the send of the re-INVITE was not held".into());
                    }
                }
                // position of the re-INVITE among the distinct requests on the wire: after the requests of the
                // window when its first send failed, before them when it was merely slow
                let at = before + if retry { window } else { 0 };
                reinvite = created_requests(&log.parsed()).get(at).cloned().filter(|m| m.method() == Some("INVITE"));
                if retry && gate.last_held().map_or(true, |m| m.method() != Some("INVITE")) {
                    obs.harness.push("refresh flow: the held send was not the re-INVITE".into());
                }
            }
            match reinvite {
                Some(re) => {
                    // another task of the application creates a request while the re-INVITE is pending ...
                    let during = printed_cseq(&dialog.create_request(Method::INFO));
                    inject(&endpoint, &tp, peer, &response_text(&re, 200, None, &[format!("Contact: {}", case.peer_contact)]));
                    settle().await;
                    // ... and one after the 2xx has been ACKed
                    let after = printed_cseq(&dialog.create_request(Method::INFO));
                    if let (Some(during), Some(after)) = (during, after) {
                        obs.refresh_cseq_probe = Some((during, after));
                    }
                    // the ACK is the newest request on the wire
                    let re_pos = before - n_invites + if retry { window } else { 0 };
                    obs.refresh_pos = Some((re_pos, count_requests(&log) - n_invites - 1));
                    keep.push(Box::new(h));
                }
                None => match h.await {
                    Ok((_, Err(e))) => obs.harness.push(format!("refresh flow: {e}")),
                    _ => obs.harness.push("refresh flow: no re-INVITE appeared".into()),
                },
            }
        }
        if refresh_first {
            obs.ops_start = count_requests(&log) - n_invites;
            obs.created = do_ops(&endpoint, &dialog, &case.ops, None, &mut keep, &mut obs.harness).await;
            settle().await;
        }
        if let Some(s) = session.take() {
            if case.ops.terminate {
                terminate_flow(clock, &log, &gate, &endpoint, s, &case.ops.term_faults, &mut own_target, n_invites, &mut keep, &mut obs).await;
            } else {
                keep.push(Box::new(s));
            }
        }
        settle().await;
        if let (Some(f), Some(s2)) = (&case.fork, fork_session) {
            let d2 = s2.dialog.clone();
            obs.fork_start = Some(count_requests(&log) - n_invites);
            for m in &f.methods {
                let req = d2.create_request(method_of(*m));
                send_created(&endpoint, &d2, req, &mut keep, &mut obs.harness).await;
                obs.fork_sent += 1;
            }
            settle().await;
            keep.push(Box::new(s2));
        }
        obs.wire = log.parsed();
        drop(keep);
        drop(dialog);
        drop(ini);
        obs
    })
}

// ------------------------------------------------------------------------------------------
// oracle

/// requests on the wire in order of first appearance (retransmissions share the Via branch)
fn created_requests(wire: &[(Sent, Option<WireMsg>)]) -> Vec<WireMsg> {
    let mut seen = HashSet::new();
    wire.iter()
        .filter_map(|(_, m)| m.as_ref())
        .filter(|m| m.is_request())
        .filter(|m| seen.insert(m.via_branch()))
        .cloned()
        .collect()
}

/// positions in the list of created requests that the flow recorded
#[derive(Default, Clone, Copy, Debug)]
pub struct Marks {
    /// first request created after a `send` call of ezk failed (a request ezk could not send never reached the
    /// wire and is not in the list): a CSeq that does not increase from here on is reported under a name of its own
    pub after_failed_send: Option<usize>,
    /// (refresh re-INVITE, its ACK): the ACK is judged against that INVITE even when other INVITEs were created
    /// in between
    pub refresh_pos: Option<(usize, usize)>,
}

/// Judge the requests created inside the dialog: `reqs` = created requests on the wire in creation order;
/// `reqs[ops_start .. ops_start + created.sent]` are the ones of `do_ops` (when they were created on
/// threads, their CSeq numbers are judged from `created.per_thread`, which also holds the filler requests).
/// `earlier` = CSeq numbers of earlier, rejected attempts of the dialog-creating INVITE (UAC; only used to name
/// a failure, see `CSeqTracker::earlier_attempts`).
/// `marks` = positions in `reqs` the flow recorded (see `Marks`).
#[allow(clippy::too_many_arguments)]
fn judge_requests(role: Role, dialog: &RefDialog, reqs: &[WireMsg], ops_start: usize, created: &Created, earlier: &[u32], marks: &Marks, out: &mut CaseOut) {
    let r = role.name();
    for m in reqs {
        for (locus, detail) in dialog.check_request(m) {
            out.fail(format!("c11.req/{r}-{locus}"), format!("{} {detail}", m.start));
        }
    }
    // CSeq in creation order
    let threaded = !created.per_thread.is_empty();
    let ops_end = ops_start + created.sent;
    let mut tr = CSeqTracker::new(dialog);
    tr.earlier_attempts = earlier.to_vec();
    let mut last_invite: Option<u32> = None;
    let mut i = 0;
    while i < reqs.len() {
        if threaded && i == ops_start {
            // the block created concurrently: each thread's numbers strictly increase and lie above
            // everything created before; all numbers are distinct
            let before = tr.last;
            let mut wrapped = false;
            // the block as a whole counted across a cut-off power of two: its largest number (or the one before
            // the block) is followed by its smallest the way `wrap_locus` describes.  A thread's number that fails
            // to increase is then named after that wrap even when other threads took the numbers right behind it
            let block_len = created.per_thread.iter().map(|n| n.len()).sum::<usize>() as u32;
            let block_wrap = {
                let lo = created.per_thread.iter().flatten().copied().min();
                let hi = created.per_thread.iter().flatten().copied().chain(before).max();
                match (hi, lo) {
                    (Some(hi), Some(lo)) if lo < hi => rd::wrap_locus(hi, lo),
                    _ => None,
                }
            };
            let mut all: Vec<u32> = vec![];
            for (t, numbers) in created.per_thread.iter().enumerate() {
                let mut prev = before;
                for n in numbers {
                    if let Some(p) = prev {
                        if *n <= p {
                            if let Some(locus) = rd::wrap_locus(p, *n).or(block_wrap.filter(|_| *n < 64 + block_len)) {
                                wrapped = true;
                                out.fail(
                                    format!("c11.cseq/{r}-{locus}"),
                                    format!("thread {t}: CSeq {n} follows {p}: the dialog's sequence numbers are not increasing"),
                                );
                            } else if before == Some(p) && tr.floor == before {
                                out.fail(
                                    format!("c11.cseq/{r}-{}", tr.floor_locus()),
                                    format!("thread {t}: request with CSeq {n}, the INVITE that created the dialog had {p} (earlier attempts: {earlier:?})"),
                                );
                            } else {
                                out.fail(format!("c11.cseq/{r}-not-increasing"), format!("thread {t}: CSeq {n} follows {p}"));
                            }
                        }
                    }
                    prev = Some(*n);
                    all.push(*n);
                }
            }
            let distinct: HashSet<u32> = all.iter().copied().collect();
            if distinct.len() != all.len() {
                let mut sorted = all.clone();
                sorted.sort();
                let dup: Vec<u32> = sorted.windows(2).filter(|w| w[0] == w[1]).map(|w| w[0]).take(5).collect();
                out.fail(
                    format!("c11.cseq/{r}-threads-duplicate"),
                    format!("{} requests created on {THREADS} threads carry only {} distinct CSeq numbers (e.g. {dup:?})", all.len(), distinct.len()),
                );
            }
            // the ones that went on the wire are a subset of what the threads created
            for m in &reqs[ops_start..ops_end.min(reqs.len())] {
                match m.cseq() {
                    Some((n, _)) if all.contains(&n) => {
                        if m.method() == Some("INVITE") {
                            last_invite = Some(n);
                        }
                    }
                    other => out.fail("c11.harness/threads-wire", format!("{} carries CSeq {other:?}, not one the threads saw", m.start)),
                }
            }
            tr.last = all.iter().copied().max().or(tr.last);
            if wrapped {
                // the judged sequence goes on from the numbers behind the wrap (one root cause, one signature):
                // a wrapped number is below 64 (`wrap_locus`), the block adds at most its own length to that
                let low = 64 + all.len() as u32;
                tr.last = all.iter().copied().filter(|n| *n < low).max().or(tr.last);
            }
            if !all.is_empty() {
                tr.floor = None;
            }
            i = ops_end.max(i + 1);
            continue;
        }
        let m = &reqs[i];
        let ack_for = if m.method() == Some("ACK") {
            match marks.refresh_pos {
                Some((re, ack)) if ack == i => reqs.get(re).and_then(|m| m.cseq()).map(|c| c.0).or(last_invite),
                _ => last_invite,
            }
        } else {
            None
        };
        for (locus, detail) in tr.next(m, ack_for) {
            if locus == "not-increasing" && marks.after_failed_send.map_or(false, |at| i >= at) {
                out.fail(
                    format!("c11.cseq/{r}-not-increasing-after-failed-send"),
                    format!("{} {detail} (a send of an earlier request of the dialog had failed; requests since then: {:?})", m.start, reqs[marks.after_failed_send.unwrap_or(i)..=i].iter().map(|m| format!("{} CSeq {}", m.method().unwrap_or("?"), m.header("cseq").unwrap_or("?"))).collect::<Vec<_>>()),
                );
                continue;
            }
            out.fail(format!("c11.cseq/{r}-{locus}"), format!("{} {detail}", m.start));
        }
        if m.method() == Some("INVITE") {
            last_invite = m.cseq().map(|c| c.0);
        }
        i += 1;
    }
}

/// classes of the transport trouble a flow went through (`bye`: Session::terminate, else the refresh re-INVITE)
fn fault_classes(bye: bool, faults: &[SendFault], out: &mut CaseOut) {
    for f in faults {
        out.class(match (bye, f.fail) {
            (true, true) => "terminate-bye-send-failed-then-repeated",
            (true, false) => "terminate-bye-send-returned-late",
            (false, true) => "refresh-reinvite-send-failed-then-repeated",
            (false, false) => "refresh-reinvite-send-returned-late",
        });
        if !f.during.is_empty() {
            out.class(match (bye, f.fail) {
                (true, true) => "terminate-bye-send-failed+requests-created-meanwhile",
                (true, false) => "terminate-bye-send-late+requests-created-meanwhile",
                (false, true) => "refresh-reinvite-send-failed+requests-created-meanwhile",
                (false, false) => "refresh-reinvite-send-late+requests-created-meanwhile",
            });
        }
        if f.fail && !f.after.is_empty() {
            out.class("terminate-bye-send-failed+requests-created-before-repeating");
        }
    }
    if faults.iter().filter(|f| f.fail).count() >= 2 {
        out.class("terminate-bye-send-failed-twice");
    }
}

/// classes of an early dialog of another branch and of the provisional responses inside it (judged on the texts)
fn early_classes(e: &EarlyDialog, out: &mut CaseOut) {
    out.class("early-dialog-of-another-branch");
    if e.reliable {
        out.class("early-prack-for-the-dialog-creating-1xx");
    }
    if e.later.len() >= 2 {
        out.class("early-2+-later-reliable-1xx");
    }
    if !e.methods.is_empty() || e.later.iter().any(|l| l.before.is_some()) {
        out.class("early-other-requests-than-prack");
    }
    let uri_of = |v: &str| rd::parse_name_addr(v).and_then(|n| rd::split_uri(&n.uri));
    for l in &e.later {
        if l.contact == NO_CONTACT {
            out.class("early-prack-for-later-1xx-without-contact");
        } else {
            match (uri_of(&early_contact_value(l.contact, &e.contact)), uri_of(&e.contact)) {
                (Some(a), Some(b)) => {
                    let same_addr = a.scheme == b.scheme && a.user == b.user && a.host == b.host && a.port == b.port;
                    out.class(if a == b {
                        "early-prack-for-later-1xx-with-the-dialog's-contact"
                    } else if same_addr {
                        "early-prack-for-later-1xx-contact-differs-in-uri-parameters-only"
                    } else if a.host == b.host {
                        "early-prack-for-later-1xx-contact-differs-in-user-or-port"
                    } else {
                        "early-prack-for-later-1xx-contact-unrelated"
                    });
                }
                _ => out.class("early-contact-unreadable"),
            }
        }
        let rr = early_rr_values(l.rr, &e.rr);
        out.class(if rd::route_list_equal(&rr, &e.rr) {
            "early-prack-for-later-1xx-with-the-dialog's-record-route"
        } else {
            "early-prack-for-later-1xx-with-another-record-route"
        });
    }
}

/// how the entries of a Record-Route list relate to their neighbours (judged on the texts)
fn rr_relation_classes(rr: &[String], layout: u8, out: &mut CaseOut) {
    let parts: Vec<Option<rd::UriParts>> = rr.iter().map(|v| rd::parse_name_addr(v).and_then(|n| rd::split_uri(&n.uri))).collect();
    for i in 1..parts.len() {
        for back in [1usize, 2] {
            if back > i {
                continue;
            }
            let (Some(a), Some(b)) = (&parts[i], &parts[i - back]) else { continue };
            if a.host != b.host {
                continue;
            }
            let same_addr = a.scheme == b.scheme && a.user == b.user && a.port == b.port;
            if back == 2 {
                if same_addr {
                    out.class("rr-entries-one-apart-same-address");
                }
                continue;
            }
            out.class(if a == b {
                "rr-adjacent-entries-identical-uri"
            } else if same_addr {
                "rr-adjacent-entries-differ-in-uri-parameters-only"
            } else {
                "rr-adjacent-entries-same-host-other-port/user/scheme"
            });
            if same_addr && (layout >> (i - 1)) & 1 == 0 {
                out.class("rr-adjacent-same-address-entries-on-two-header-lines");
            }
        }
    }
}

/// classes of the security dimension: scheme of the URI the dialog-creating INVITE was addressed to x scheme of the
/// peer's Contact (the remote target) x security of the transport
fn scheme_classes(invite_sips: bool, contact: &str, secure_tp: bool, out: &mut CaseOut) {
    let contact_uri = rd::parse_name_addr(contact).map(|n| n.uri.to_ascii_lowercase()).unwrap_or_default();
    let contact_sips = contact_uri.starts_with("sips:");
    out.class(match (invite_sips, contact_sips) {
        (false, false) => "invite-to-sip-uri,peer-contact-sip",
        (false, true) => "invite-to-sip-uri,peer-contact-sips",
        (true, false) => "invite-to-sips-uri,peer-contact-sip",
        (true, true) => "invite-to-sips-uri,peer-contact-sips",
    });
    if invite_sips && !contact_sips && contact_uri.contains(";transport=tls") {
        out.class("invite-to-sips-uri,peer-contact-sip-with-transport=tls");
    }
    out.class(if secure_tp { "transport-secure" } else { "transport-plain" });
}

/// classes of the sequence-number dimension: where the dialog's first local number was put, and (from the numbers
/// observed) whether the dialog's requests counted across a power of two
fn cseq_edge_classes(first: Option<u32>, numbers: &[u32], out: &mut CaseOut) {
    match first {
        None => out.class("first-cseq-left-to-ezk's-random-draw"),
        Some(n) => {
            out.class("first-cseq-chosen");
            for k in CSEQ_EDGES {
                let edge = 1u64 << k;
                if (n as u64) < edge && n as u64 + 10 >= edge {
                    out.class(match k {
                        31 => "first-cseq-just-below-2^31",
                        8 => "first-cseq-just-below-2^8",
                        16 => "first-cseq-just-below-2^16",
                        _ => "first-cseq-just-below-2^24",
                    });
                }
            }
        }
    }
    let (Some(lo), Some(hi)) = (numbers.iter().min(), numbers.iter().max()) else { return };
    for k in CSEQ_EDGES {
        let edge = 1u64 << k;
        if (*lo as u64) < edge && *hi as u64 >= edge && (*hi as u64 - *lo as u64) < 4096 {
            out.class(match k {
                31 => "dialog-cseq-counts-across-2^31",
                8 => "dialog-cseq-counts-across-2^8",
                16 => "dialog-cseq-counts-across-2^16",
                _ => "dialog-cseq-counts-across-2^24",
            });
        }
    }
}

/// the CSeq numbers of the requests created in a dialog (ACKs aside), the ones of the threaded block included
fn observed_numbers(reqs: &[WireMsg], created: &Created) -> Vec<u32> {
    reqs.iter()
        .filter(|m| m.method() != Some("ACK"))
        .filter_map(|m| m.cseq().map(|c| c.0))
        .chain(created.per_thread.iter().flatten().copied())
        .collect()
}

fn class_rr(n: usize) -> &'static str {
    match n {
        0 => "rr-0",
        1 => "rr-1",
        2 => "rr-2",
        3 => "rr-3",
        _ => "rr-4",
    }
}

fn common_classes(rr: &[String], layout: u8, contact: &str, ops: &Ops, out: &mut CaseOut) {
    out.class(class_rr(rr.len()));
    rr_relation_classes(rr, layout, out);
    if rr.len() >= 2 && layout & ((1 << (rr.len() - 1)) - 1) != 0 {
        out.class("rr-comma-list");
    }
    if rr.iter().any(|r| !rd::parse_name_addr(r).map_or(true, |n| rd::is_loose(&n.uri))) {
        out.class("rr-strict-router");
    }
    if rr.first().map_or(false, |r| !rd::parse_name_addr(r).map_or(true, |n| rd::is_loose(&n.uri)))
        || rr.last().map_or(false, |r| !rd::parse_name_addr(r).map_or(true, |n| rd::is_loose(&n.uri)))
    {
        out.class("rr-strict-router-at-an-end");
    }
    if !contact.contains('<') {
        out.class("contact-addr-spec-form");
    }
    if contact.contains(";transport=") || contact.contains(";x-c") || contact.contains(";ob") {
        out.class("contact-uri-params");
    }
    if contact.starts_with('"') || contact.chars().next().map_or(false, |c| c.is_ascii_uppercase()) {
        out.class("contact-display-name");
    }
    if ops.threads {
        out.class("threads-4");
    }
    for m in &ops.methods {
        out.class(match METHODS[*m as usize % METHODS.len()] {
            "BYE" => "op-BYE",
            "INFO" => "op-INFO",
            "INVITE" => "op-INVITE",
            "PRACK" => "op-PRACK",
            "UPDATE" => "op-UPDATE",
            _ => "op-MESSAGE",
        });
    }
}

pub fn check_uas(case: &UasCase, out: &mut CaseOut) {
    let obs = run_uas(case);
    out.class("uas");
    out.class(if case.acceptor { "uas-via-acceptor" } else { "uas-direct" });
    common_classes(&case.rr, case.rr_layout, &case.contact, &case.ops, out);
    if !case.from.contains('<') || !case.to.contains('<') {
        out.class("from/to-addr-spec-form");
    }
    if case.from.starts_with('"') || case.to.starts_with('"') {
        out.class("from/to-display-name");
    }
    if case.names != 0 {
        out.class("compact-or-odd-case-header-names");
    }
    if case.from.contains(":50") || case.to.contains(":50") {
        out.class("from/to-with-port-or-transport");
    }
    scheme_classes(case.ruri.starts_with("sips:"), &case.contact, case.secure_tp, out);

    for h in &obs.harness {
        out.fail("c11.harness/uas", h.clone());
    }
    let Some(invite) = WireMsg::parse(&invite_text(case)) else {
        out.fail("c11.harness/invite-text", "own INVITE unreadable");
        return;
    };

    // ---- responses the dialog generated for the dialog-creating request ----
    // (the 200 for a CANCEL answers another request)
    let responses: Vec<&WireMsg> = obs
        .wire
        .iter()
        .filter_map(|(_, m)| m.as_ref())
        .filter(|m| !m.is_request() && m.cseq().map_or(true, |c| c.1 == "INVITE"))
        .collect();
    let mut want_codes: Vec<u16> = case.provisionals.clone();
    want_codes.extend(case.final_code);
    if case.cancel && case.acceptor && case.final_code.is_none() {
        want_codes.push(487);
        out.class("cancelled-487-through-invite-layer");
    }
    let got_codes: Vec<u16> = responses.iter().filter_map(|m| m.status()).collect();
    if got_codes != want_codes && obs.harness.is_empty() {
        out.fail("c11.harness/uas-responses", format!("responses on the wire {got_codes:?}, answered {want_codes:?}"));
    }
    for resp in &responses {
        let code = resp.status().unwrap_or(0);
        out.class(match code {
            100 => "resp-100",
            101..=199 => "resp-provisional",
            200..=299 => "resp-2xx",
            _ => "resp-failure",
        });
        for (locus, detail) in rd::check_response(&invite, resp, obs.local_tag.as_deref()) {
            out.fail(format!("c11.resp/{locus}"), detail);
        }
    }

    // ---- the dialog per RFC 3261 12.1.1 from the texts ----
    // response text: the 2xx on the wire; without one, the INVITE's To plus the local tag ezk chose
    let resp2xx: Option<WireMsg> = responses.iter().find(|m| matches!(m.status(), Some(200..=299))).map(|m| (*m).clone());
    let response = match resp2xx {
        Some(r) if r.to_tag().is_some() => r,
        _ => {
            let tag = obs.local_tag.clone().unwrap_or_default();
            WireMsg::parse(format!("SIP/2.0 200 OK\r\nTo: {};tag={tag}\r\n\r\n", case.to).as_bytes()).expect("synthetic response")
        }
    };
    let dialog = match RefDialog::from_wire(Role::Uas, &invite, &response) {
        Ok(d) => d,
        Err(e) => {
            out.fail("c11.harness/ref-dialog", e);
            return;
        }
    };

    let reqs = created_requests(&obs.wire);
    let want_n: usize = obs.created.sent + obs.terminate_sent as usize + obs.window_sent;
    if reqs.len() != want_n && obs.harness.is_empty() {
        out.fail(
            "c11.harness/uas-request-count",
            format!("{} requests on the wire, {} created", reqs.len(), want_n),
        );
    }
    if obs.terminate_sent {
        out.class("session-terminate-bye");
        fault_classes(true, &case.ops.term_faults, out);
    }
    let marks = Marks {
        after_failed_send: obs.after_failed_send,
        refresh_pos: None,
    };
    judge_requests(Role::Uas, &dialog, &reqs, 0, &obs.created, &[], &marks, out);
    cseq_edge_classes(case.first_cseq, &observed_numbers(&reqs, &obs.created), out);

    out.note = Some(format!(
        "local_tag={:?} route_set={:?} target={} | {}",
        obs.local_tag,
        dialog.route_set,
        dialog.remote_target,
        obs.wire
            .iter()
            .filter_map(|(_, m)| m.as_ref())
            .map(|m| format!("{} [CSeq {}]", m.start, m.header("cseq").unwrap_or("?")))
            .collect::<Vec<_>>()
            .join(" | ")
    ));

    let prov_or_failure = case.provisionals.iter().any(|c| *c > 100) || case.final_code.map_or(false, |c| c >= 300) || case.cancel;
    if case.rr.len() >= 2 || prov_or_failure {
        out.nontrivial(case);
    }
}

pub fn check_uac(case: &UacCase, out: &mut CaseOut) {
    let obs = run_uac(case);
    out.class("uac");
    out.class(if case.initiator { "uac-via-initiator" } else { "uac-direct" });
    common_classes(&case.rr, case.rr_layout, &case.peer_contact, &case.ops, out);
    if case.local_display.is_some() {
        out.class("from/to-display-name");
    }
    if !case.peer_provisionals.is_empty() {
        out.class("peer-provisional-first");
    }
    if case.code != 200 {
        out.class("peer-2xx-other-than-200");
    }
    scheme_classes(case.target.starts_with("sips:"), &case.peer_contact, case.secure_tp, out);
    if early_flow(case) {
        out.class("early-dialog-confirmed-by-2xx");
        // how the 1xx's Contact URI relates to the 2xx's (judged on the texts, not on the selector)
        let uri_of = |v: &str| rd::parse_name_addr(v).and_then(|n| rd::split_uri(&n.uri));
        match (uri_of(&early_contact_value(case.early_contact, &case.peer_contact)), uri_of(&case.peer_contact)) {
            (Some(e), Some(f)) => {
                let same_addr = e.scheme == f.scheme && e.user == f.user && e.host == f.host && e.port == f.port;
                out.class(if e == f {
                    "early-contact-same-uri-as-2xx"
                } else if same_addr {
                    "early-contact-differs-from-2xx-in-uri-parameters-only"
                } else if e.host == f.host {
                    "early-contact-differs-from-2xx-in-user-or-port"
                } else {
                    "early-contact-unrelated-to-2xx"
                });
            }
            _ => out.class("early-contact-unreadable"),
        }
        let early_rr = early_rr_values(case.early_rr, &case.rr);
        out.class(if early_rr.is_empty() && case.rr.is_empty() {
            "early-rr-none,2xx-none"
        } else if early_rr.is_empty() {
            "early-rr-none,2xx-some"
        } else if case.rr.is_empty() {
            "early-rr-some,2xx-none"
        } else if rd::route_list_equal(&early_rr, &case.rr) {
            "early-rr-same-as-2xx"
        } else if early_rr.len() == case.rr.len() {
            "early-rr-2xx-list-reordered"
        } else if early_rr.len() > case.rr.len() {
            "early-rr-longer-than-2xx"
        } else {
            "early-rr-shorter-than-2xx"
        });
    }

    match case.prior.len() {
        0 => out.class("uac-first-attempt-creates-dialog"),
        1 => out.class("uac-1-rejected-attempt-before"),
        2 => out.class("uac-2-rejected-attempts-before"),
        _ => out.class("uac-3-rejected-attempts-before"),
    }
    for a in &case.prior {
        out.class(match a.code {
            401 | 407 => "rejected-with-401/407",
            422 => "rejected-with-422",
            300..=399 => "rejected-with-3xx",
            _ => "rejected-with-other-failure",
        });
        if a.early && a.to_tag.is_some() && a.provisionals.iter().any(|c| *c > 100) {
            out.class("rejected-attempt-had-early-dialog");
        }
        if a.to_tag.is_none() {
            out.class("rejection-without-to-tag");
        }
        if a.same_tag {
            out.class("rejection-and-2xx-share-to-tag");
        }
        if a.edit {
            out.class("repeated-invite-edited-by-app");
        }
        if a.bump > 0 {
            out.class("builder-cseq-raised-by-app");
        }
    }
    if case.fork.is_some() {
        out.class("fork-second-2xx");
    }

    for h in &obs.harness {
        out.fail("c11.harness/uac", h.clone());
    }
    let all_reqs = created_requests(&obs.wire);
    // the INVITE attempts come first (the ACK for a rejection shares its INVITE's branch: not a created request);
    // the dialog is created by the LAST of them, the one the peer answered with the 2xx
    let Some(invite) = obs.creating_invite.clone() else {
        if obs.harness.is_empty() {
            out.fail("c11.harness/uac-no-invite", "the dialog-creating INVITE did not go out");
        }
        return;
    };
    let n_invites = case.prior.len() + 1;
    let attempts_ok = all_reqs.len() >= n_invites
        && all_reqs[..n_invites].iter().all(|m| m.method() == Some("INVITE"))
        && all_reqs[n_invites - 1].via_branch() == invite.via_branch();
    if !attempts_ok {
        out.fail(
            "c11.harness/uac-attempts",
            format!("expected {n_invites} INVITE attempts first, wire has {:?}", all_reqs.iter().map(|m| m.start.clone()).collect::<Vec<_>>()),
        );
        return;
    }
    // CSeq numbers of the rejected attempts (nothing is asserted about them, they only name a failure)
    let earlier: Vec<u32> = all_reqs[..n_invites - 1].iter().filter_map(|m| m.cseq().map(|c| c.0)).collect();
    if let Some(c) = invite.cseq().map(|c| c.0) {
        if earlier.iter().any(|e| *e != c) {
            out.class("repeated-invite-has-new-cseq");
        } else if !earlier.is_empty() {
            out.class("repeated-invite-keeps-cseq");
        }
    }
    let Some(response) = obs.peer_response.clone() else {
        out.fail("c11.harness/uac-no-response", "peer response not built");
        return;
    };
    if !obs.had_dialog {
        return;
    }
    let dialog = match RefDialog::from_wire(Role::Uac, &invite, &response) {
        Ok(d) => d,
        Err(e) => {
            out.fail("c11.harness/ref-dialog", e);
            return;
        }
    };
    // the requests created in the early dialog of another branch come first (before the 2xx arrived)
    let n_early = obs.early_created.len().min(all_reqs.len() - n_invites);
    let early_reqs: Vec<WireMsg> = all_reqs[n_invites..n_invites + n_early].to_vec();
    let after_invites: Vec<WireMsg> = all_reqs[n_invites + n_early..].to_vec();
    // the requests of the second dialog of a forked INVITE come last
    let (reqs, fork_reqs): (Vec<WireMsg>, Vec<WireMsg>) = match obs.fork_start {
        Some(at) if at <= after_invites.len() => (after_invites[..at].to_vec(), after_invites[at..].to_vec()),
        _ => (after_invites, vec![]),
    };
    let refresh_n = if obs.refresh_after.is_some() { 2 } else { 0 };
    let want_n: usize = obs.created.sent + obs.terminate_sent as usize + refresh_n + obs.window_sent;
    if (reqs.len() != want_n || fork_reqs.len() != obs.fork_sent || early_reqs.len() != obs.early_created.len()) && obs.harness.is_empty() {
        out.fail(
            "c11.harness/uac-request-count",
            format!(
                "{} + {} + {} requests after the INVITE on the wire, expected {} + {} + {} (early dialog + dialog + second dialog; {:?})",
                early_reqs.len(),
                reqs.len(),
                fork_reqs.len(),
                obs.early_created.len(),
                want_n,
                obs.fork_sent,
                early_reqs.iter().chain(reqs.iter()).chain(fork_reqs.iter()).map(|m| m.start.clone()).collect::<Vec<_>>()
            ),
        );
    }
    if let Some((during, after)) = obs.refresh_cseq_probe {
        if after <= during {
            out.fail(
                "c11.cseq/uac-not-increasing-around-refresh-ack",
                format!("request created while the refresh re-INVITE was pending got CSeq {during}, one created after its ACK got {after}"),
            );
        }
    }
    if obs.refresh_after.is_some() {
        out.class("refresh-reinvite+ack");
        // shape of the refresh flow: the re-INVITE and its ACK at the recorded positions
        match obs.refresh_pos {
            Some((re, ack)) => match (reqs.get(re).and_then(|m| m.method()), reqs.get(ack).and_then(|m| m.method())) {
                (Some("INVITE"), Some("ACK")) => {}
                (a, b) => {
                    if obs.harness.is_empty() {
                        out.fail("c11.harness/uac-refresh-shape", format!("expected re-INVITE at {re}, ACK at {ack}; found {a:?}, {b:?}"));
                    }
                }
            },
            None => {
                if obs.harness.is_empty() {
                    out.fail("c11.harness/uac-refresh-shape", "the refresh flow did not record its re-INVITE".to_string());
                }
            }
        }
    }
    if obs.terminate_sent {
        out.class("session-terminate-bye");
        fault_classes(true, &case.ops.term_faults, out);
    }
    if obs.refresh_pos.is_some() {
        fault_classes(false, case.refresh_fault.as_slice(), out);
    }
    let marks = Marks {
        after_failed_send: obs.after_failed_send,
        refresh_pos: obs.refresh_pos,
    };
    judge_requests(Role::Uac, &dialog, &reqs, obs.ops_start, &obs.created, &earlier, &marks, out);
    if !case.initiator {
        // (with the INVITE's own number: the first request of the dialog follows it)
        let mut numbers = observed_numbers(&reqs, &obs.created);
        numbers.extend(dialog.local_seq);
        cseq_edge_classes(case.first_cseq, &numbers, out);
    }
    // a Request-URI that is not the remote target but the Contact of the 1xx that created the early dialog: the
    // confirmed dialog kept the early dialog's remote target - a root cause of its own, named so
    if early_flow(case) {
        let early_uri = rd::parse_name_addr(&early_contact_value(case.early_contact, &case.peer_contact)).map(|n| n.uri);
        let kept = early_uri.map_or(false, |e| {
            reqs.iter().any(|m| {
                let ruri = m.request_uri().unwrap_or("");
                rd::uri_equal(ruri, &e, rd::UriCtx::Full) && !rd::uri_equal(ruri, &dialog.remote_target, rd::UriCtx::Full)
            })
        });
        if kept {
            for f in out.failures.iter_mut().filter(|f| f.sig == "c11.req/uac-request-uri") {
                f.sig = "c11.req/uac-request-uri-is-contact-of-early-1xx".into();
            }
        }
    }

    // ---- the early dialog of another branch: same request, the 1xx that created it ----
    if let (Some(e), Some(early_response)) = (&case.early, &obs.early_response) {
        early_classes(e, out);
        match RefDialog::from_wire(Role::Uac, &invite, early_response) {
            Ok(de) => {
                let mut found: Vec<(String, String)> = vec![];
                let mut tr = CSeqTracker::new(&de);
                tr.earlier_attempts = earlier.clone();
                for (m, acked) in early_reqs.iter().zip(obs.early_created.iter()) {
                    let ruri = m.request_uri().unwrap_or("");
                    let route = m.list_values("route");
                    // what the acknowledged response would make of the dialog if it (wrongly) were consulted
                    let acked_target = acked.as_ref().and_then(|a| a.list_values("contact").first().and_then(|c| rd::parse_name_addr(c)).map(|n| n.uri));
                    let acked_route: Option<Vec<String>> = acked.as_ref().map(|a| a.list_values("record-route").into_iter().rev().collect());
                    for (locus, detail) in de.check_request(m) {
                        // a PRACK that follows the response it acknowledges instead of the dialog state: a root
                        // cause of its own, named so
                        let locus = if locus == "request-uri" && acked_target.as_deref().map_or(false, |t| rd::uri_equal(ruri, t, rd::UriCtx::Full)) {
                            "prack-request-uri-is-contact-of-acknowledged-1xx"
                        } else if locus.starts_with("route-") && acked_route.as_ref().map_or(false, |r| rd::route_list_equal(&route, r)) {
                            "prack-route-is-record-route-of-acknowledged-1xx"
                        } else {
                            locus
                        };
                        found.push((format!("c11.req/uac-{locus}"), format!("{} {detail}", m.start)));
                    }
                    for (locus, detail) in tr.next(m, None) {
                        found.push((format!("c11.cseq/uac-{locus}"), format!("{} {detail}", m.start)));
                    }
                }
                // one root cause, one signature: what already failed in the confirmed dialog is not repeated
                for (sig, msg) in found {
                    if !out.failures.iter().any(|o| o.sig == sig) {
                        out.fail(sig.replacen("/uac-", "/uac-early-", 1), format!("early dialog (remote target {:?}, route set {:?}): {msg}", de.remote_target, de.route_set));
                    }
                }
            }
            Err(e) => out.fail("c11.harness/ref-dialog", format!("early dialog: {e}")),
        }
    }

    // ---- the second dialog of a forked INVITE: same request, its own 2xx ----
    if let (Some(f), Some(fork_response)) = (&case.fork, &obs.fork_response) {
        if obs.fork_start.is_some() {
            common_classes(&f.rr, 0, &f.peer_contact, &Ops { methods: f.methods.clone(), threads: false, terminate: false, term_faults: vec![] }, out);
            match RefDialog::from_wire(Role::Uac, &invite, fork_response) {
                Ok(d2) => {
                    let mut sub = CaseOut {
                        failures: vec![],
                        classes: vec![],
                        nontrivial: None,
                        note: None,
                    };
                    let created2 = Created {
                        sent: fork_reqs.len(),
                        per_thread: vec![],
                    };
                    judge_requests(Role::Uac, &d2, &fork_reqs, 0, &created2, &earlier, &Marks::default(), &mut sub);
                    // one root cause, one signature: what already failed in the first dialog is not repeated
                    for f in sub.failures {
                        if !out.failures.iter().any(|o| o.sig == f.sig) {
                            out.fail(f.sig.replacen("/uac-", "/uac-fork-", 1), format!("second dialog of the forked INVITE: {}", f.msg));
                        }
                    }
                }
                Err(e) => out.fail("c11.harness/ref-dialog", format!("second 2xx: {e}")),
            }
        }
    }

    out.note = Some(format!(
        "attempts_cseq={:?} invite_cseq={:?} route_set={:?} target={} | {}",
        earlier,
        dialog.local_seq,
        dialog.route_set,
        dialog.remote_target,
        early_reqs
            .iter()
            .chain(reqs.iter())
            .chain(fork_reqs.iter())
            .map(|m| format!("{} [CSeq {}]", m.start, m.header("cseq").unwrap_or("?")))
            .collect::<Vec<_>>()
            .join(" | ")
    ));
    // UAC role with a request after the INVITE: every case that reached the dialog
    if !reqs.is_empty() || case.rr.len() >= 2 {
        out.nontrivial(case);
    }
}

pub fn property() -> Property {
    Property {
        fuzz: vec![],
        id: "C11",
        rule: "cases = dialog-creating INVITE/2xx pairs (0..4 Record-Route values, each a proxy of its own or related to its predecessor / the entry before it: identical URI, same address with other transport / other parameter, same host with other port / user / scheme; lr/other/header parameters, one or several header lines; random tags; Contact with URI and header parameters, display names, addr-spec form; From/To with display names) in both roles - UAS: peer INVITE injected, Dialog::new_server (directly with ServerInvTsx, or through Acceptor/Session), responses for provisional/2xx/failure codes through create_response; UAC: ClientDialogBuilder + send_invite, or Initiator/Session, 0..3 earlier attempts of the INVITE through the same builder that the peer rejects (401/407/422/3xx/other failures, with/without To-tag, optionally after an early dialog; the repeated INVITE optionally edited, its CSeq optionally raised through ClientDialogBuilder.local_cseq), then the peer answers 2xx, optionally a second 2xx from another fork branch (second dialog, 1..3 requests of its own) - through the Initiator optionally after an early dialog (1xx with the 2xx's To-tag, a Contact that is the 2xx's / differs from it only in URI parameters / in user or port / is unrelated, and a Record-Route list that is the 2xx's / its reverse / a prefix / a superset / absent / unrelated), through ClientDialogBuilder optionally (half) preceded by the early dialog of another fork branch (101-199 with its own To-tag, Contact, Record-Route; Dialog from create_dialog_from_response) with 0..3 further reliable provisional responses inside it (Contact = the dialog's / same address with other parameters, user or port / unrelated / none; Record-Route = the dialog's or another list), every reliable response acknowledged through invite::prack::create_prack(&dialog, &mut response, rseq), plus 0..5 other requests created in the early dialog, all judged against the dialog built from the INVITE and the 1xx that created it - followed by 1..10 create_request calls over BYE/INFO/INVITE/PRACK/UPDATE/MESSAGE (optionally from 4 OS threads), Session::terminate, and the session-refresh re-INVITE + ACK; in both roles the dialog-creating INVITE is addressed to a sip: or (UAS 2 in 5, UAC 1 in 3) a sips: URI while the peer's Contact is sip: (also ;transport=tls/tcp/udp) or sips: and the transport is plain UDP or a secure datagram transport (always secure for sips:), and the dialog's first local sequence number is left to ezk's random draw or (half) chosen through Dialog.local_cseq (UAS, values the draw can yield) / ClientDialogBuilder.local_cseq (UAC direct flow, INVITE below 2^31): 0..8 below the last number under 2^31 / 2^8 / 2^16 / 2^24, 0, or arbitrary, so that the dialog's requests count across that power of two; the Transport::send call of the terminate BYE (0..2 times in a row) or of the refresh re-INVITE optionally stays pending 1..400 ms and then fails (the application repeats terminate / process_default) or returns late, while other tasks create and send 0..3 requests on the shared dialog meanwhile and 0..2 before the repetition. Non-trivial = at least 2 Record-Route entries, or UAC role with a request after the INVITE, or a provisional (>100)/failure response; distinct by hash of the case.",
        assumptions: vec![
            "requests and responses are read from the mock wire with the independent reader; the dialog is rebuilt by refmodel::ref_dialog from the texts only",
            "ezk's random tags / Call-ID / CSeq base are read back (wire, Dialog.local_fromto.tag), never predicted",
            "From/To URIs are generated without port/maddr/ttl/transport/lr/headers and compared modulo them (RFC 3261 Table 1)",
            "route entries without lr: the loose form (Request-URI = remote target, Route = route set) and the strict-routing rewrite are both accepted",
            "display names and the Contact of created requests are not compared; requests are created in CONFIRMED dialogs and - ClientDialogBuilder flow - in the early dialog of a fork branch that never answers 2xx (its own To-tag, so it shares nothing but Call-ID and local tag with the confirmed dialog and has a CSeq sequence of its own); an early dialog that a 2xx confirms appears only as the history of a session (Initiator); which methods an early dialog may send belongs to C13",
            "a provisional response inside an existing early dialog does not change that dialog's remote target or route set (RFC 3261 12.2.1.2: only a 2xx to a target refresh request does; 12.1.2: state is computed from the response that creates the dialog); responses are delivered by the INVITE client transaction in arrival order and acknowledged at once",
            "Record-Route entries that repeat or resemble their neighbours are ordinary entries of the route set (RFC 3261 12.1.1/12.1.2 copy the list; RFC 5658 section 6 describes proxies recording themselves twice): Route must carry all of them",
            "a request whose Transport::send call failed never reached the peer: it is not part of the judged CSeq sequence (its number may be used again); requests the application's other tasks created meanwhile are sent at once through a TargetTransportInfo of their own, so the wire log holds every judged request in creation order",
            "after a failed send the application repeats the operation on the same Session (terminate() again; RefreshNeeded{session}.process_default() again - the struct and its field are pub); a failing send is a transient io::Error of a datagram transport",
            "the ACK for the 2xx of the dialog-creating INVITE is never produced by ezk's public API (create_ack is private and only used by RefreshNeeded::process_default): the ACK rule is checked on the session-refresh re-INVITE of a UAC-side Session",
            "OS threads are used only for Dialog::create_request (atomic CSeq counter); everything else runs on the single-threaded simulation",
            "generated tags are tokens without '%': ezk percent-decodes header parameters, so a remote tag a%41b comes back as aAb (open finding, signature c11.req/<role>-to-tag-percent-decoded, replays in the builder's findings directory); excluded by construction",
            "UAC: the dialog-creating INVITE is the one whose Via branch / CSeq the peer's 2xx echoes (the last attempt), its number is read from the wire; the numbers of rejected attempts are not judged; the ACKs for rejections share their INVITE's branch and are not counted as created requests",
            "a forked INVITE's two dialogs are judged independently (each: CSeq above the INVITE's and increasing); the second 2xx arrives right after the first, inside the 64*T1 window of the client transaction",
            "the peer's CSeq is below 2^31 (RFC 3261 8.1.1.5); Record-Route URIs carry no ttl parameter (ezk's Route printer omits it per Table 1)",
            "the dialog's first local sequence number, where chosen, is a value the API can start from by itself: UAS 0..=2^31-2 (the range of random_sequence_number(); the store into the pub AtomicU32 Dialog.local_cseq happens before any request exists and only makes the draw deterministic), UAC direct flow any CSeq below 2^31 for the dialog-creating INVITE (ClientDialogBuilder.local_cseq is a pub field; the raises of earlier attempts are counted in). Strictly increasing is demanded across 2^31 too - the statement has no upper bound, and numbers past 2^31 are what the pinned tree emits",
            "a dialog-creating INVITE to a sips: URI travels on a secure transport (mock datagram transport with secure() = true, named DTLS-UDP, unreliable like UDP so the transaction timers are unchanged); the peer's Contact scheme is independent of it (sip:...;transport=tls is what deployed phones write); the remote target is the peer's Contact URI verbatim, so the Request-URI keeps its scheme",
        ],
        explanation: "sub uas-codes enumerates every status code 100..=699 through Dialog::create_response / Acceptor::create_response with 0 and 2 Record-Route entries (exhaustive for that sub-space); subs uas and uac sample dialog shapes, request sequences and flows",
        subs: vec![
            enum_sub("uas-codes", uas_code_cases, check_uas),
            prop_sub("uas", uas_strategy, 800, 15000, check_uas),
            prop_sub("uac", uac_strategy, 800, 15000, check_uac),
        ],
    }
}
