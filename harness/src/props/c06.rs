//! C06 — Server transactions deliver the final response reliably

use crate::engine::*;
use crate::refmodel::ref_tsx::{self, T2, TIMEOUT};
use crate::world::*;
use parking_lot::Mutex;
use proptest::prelude::*;
use serde::{Deserialize, Serialize};
use sip_core::{Endpoint, IncomingRequest, Layer, MayTake};
use sip_types::Code;
use std::net::SocketAddr;
use std::sync::Arc;
use tokio::sync::mpsc;

#[derive(Serialize, Deserialize, Clone, Debug, Hash)]
pub struct Case {
    pub invite: bool,
    pub reliable: bool,
    pub code: u16,
    pub provisionals: u8,
    /// when the application answers, ms after the request arrived
    pub respond_at: u64,
    /// arrival times of request retransmissions (ms after the first arrival)
    pub retrans: Vec<u64>,
    /// arrival time of the ACK (INVITE only)
    pub ack_at: Option<u64>,
    /// ACK for 2xx re-uses the INVITE's branch (some stacks do)
    pub ack_same_branch: bool,
    pub rng: u8,
    /// transient transport faults: the i-th *re-send* of the final response (0-based, in the order the
    /// transaction attempts them) fails with an io::Error. Applied to non-INVITE transactions on unreliable
    /// transports only (an INVITE transaction reports a failed re-send to the caller of `respond_failure`,
    /// which the statement does not speak about), and only when no request copy is queued before the answer.
    #[serde(default)]
    pub faults: Vec<u8>,
}

fn faults_apply(case: &Case) -> bool {
    !case.invite && !case.reliable && !case.faults.is_empty() && case.retrans.iter().all(|t| *t > case.respond_at)
}

/// Layer that records and hands every request to the test task
pub struct ChannelLayer {
    pub rec: Recorder,
    pub tx: mpsc::UnboundedSender<IncomingRequest>,
}

#[async_trait::async_trait]
impl Layer for ChannelLayer {
    fn name(&self) -> &'static str {
        "channel"
    }
    async fn receive(&self, _endpoint: &Endpoint, request: MayTake<'_, IncomingRequest>) {
        self.rec.note(0, &request);
        let _ = self.tx.send(request.take());
    }
}

const FINALS: &[u16] = &[200, 302, 404, 486, 500, 603];

fn g_instants(respond_at: u64) -> Vec<u64> {
    let mut v: Vec<u64> = ref_tsx::server_inv_timer_g_schedule()
        .into_iter()
        .map(|g| respond_at + g)
        .collect();
    v.push(respond_at);
    v.push(respond_at + TIMEOUT);
    v
}

fn nudge(respond_at: u64, mut t: u64) -> u64 {
    let edges = g_instants(respond_at);
    t = t.max(1);
    while edges.contains(&t) {
        t += 1;
    }
    t
}

fn time_grid(respond_at: u64) -> Vec<u64> {
    let mut g = vec![1, respond_at.saturating_sub(1).max(1), respond_at + 1, respond_at + 250];
    for e in g_instants(respond_at) {
        g.push(e.saturating_sub(1).max(1));
        g.push(e + 1);
    }
    g.push(respond_at + TIMEOUT + T2 + 1);
    g.sort();
    g.dedup();
    g
}

pub fn strategy() -> BoxedStrategy<Case> {
    (
        any::<bool>(),
        prop_oneof![3 => Just(false), 1 => Just(true)],
        any::<u16>(),
        0u8..3,
        prop_oneof![Just(0u64), Just(1u64), Just(100u64), 0u64..3000],
        prop::collection::vec((any::<u16>(), 0u64..40_000, any::<bool>()), 0..6),
        prop::option::of((any::<u16>(), 0u64..40_000, any::<bool>())),
        any::<bool>(),
        any::<u8>(),
        prop_oneof![3 => Just(vec![]), 2 => prop::collection::vec(0u8..5, 1..3)],
    )
        .prop_map(
            |(invite, reliable, csel, provisionals, respond_at, retr, ack, ack_same_branch, rng, mut faults)| {
                faults.sort();
                faults.dedup();
                let grid = time_grid(respond_at);
                let pick = |sel: u16, rnd: u64, use_rnd: bool| {
                    nudge(
                        respond_at,
                        if use_rnd { rnd } else { grid[pick_idx(sel, grid.len())] },
                    )
                };
                let mut retrans: Vec<u64> =
                    retr.into_iter().map(|(s, r, u)| pick(s, r, u)).collect();
                retrans.sort();
                retrans.dedup();
                let code = FINALS[pick_idx(csel, FINALS.len())];
                let mut ack_at = if invite {
                    ack.map(|(s, r, u)| pick(s, r, u).max(respond_at + 1))
                        .map(|t| nudge(respond_at, t))
                } else {
                    None
                };
                if let Some(a) = ack_at {
                    // keep ACK and retransmissions at distinct instants
                    let mut a2 = a;
                    while retrans.contains(&a2) || g_instants(respond_at).contains(&a2) {
                        a2 += 1;
                    }
                    ack_at = Some(a2);
                }
                if reliable {
                    // a reliable transport does not retransmit after the final response
                    retrans.retain(|t| *t < respond_at);
                }
                Case {
                    invite,
                    reliable,
                    code,
                    provisionals,
                    respond_at,
                    retrans,
                    ack_at,
                    ack_same_branch,
                    rng,
                    faults,
                }
            },
        )
        .boxed()
}

pub fn grid_cases(tier: Tier) -> Vec<Case> {
    let mut out = vec![];
    for invite in [false, true] {
        for reliable in [false, true] {
            for &code in &[200u16, 404, 603] {
                for respond_at in [0u64, 100] {
                    let grid = time_grid(respond_at);
                    // single retransmission at each grid instant
                    let mut patterns: Vec<Vec<u64>> = vec![vec![]];
                    for &t in &grid {
                        patterns.push(vec![nudge(respond_at, t)]);
                    }
                    if tier == Tier::Thorough {
                        for (i, &a) in grid.iter().enumerate() {
                            for &b in &grid[i + 1..] {
                                patterns.push(vec![nudge(respond_at, a), nudge(respond_at, b)]);
                            }
                        }
                    }
                    let acks: Vec<Option<u64>> = if invite {
                        let mut a = vec![None];
                        for &t in &grid {
                            if t > respond_at {
                                a.push(Some(nudge(respond_at, t)));
                            }
                        }
                        a
                    } else {
                        vec![None]
                    };
                    for p in &patterns {
                        for a in &acks {
                            if tier == Tier::Quick && !p.is_empty() && a.is_some() && p[0] % 3 != 0 {
                                // quick: thin out the retransmission x ACK product
                                continue;
                            }
                            let mut p = p.clone();
                            if reliable {
                                p.retain(|t| *t < respond_at);
                            }
                            let mut a = *a;
                            if let Some(at) = a {
                                let mut at = at;
                                while p.contains(&at) {
                                    at = nudge(respond_at, at + 1);
                                }
                                a = Some(at);
                            }
                            out.push(Case {
                                invite,
                                reliable,
                                code,
                                provisionals: (respond_at % 3) as u8,
                                respond_at,
                                retrans: p,
                                ack_at: a,
                                ack_same_branch: false,
                                rng: 0,
                                faults: vec![],
                            });
                        }
                    }
                }
            }
        }
    }
    // transient transport faults on re-sends of a non-INVITE final response
    for &code in &[200u16, 404] {
        for respond_at in [0u64, 100] {
            for provisionals in 0u8..2 {
                for faults in [vec![0u8], vec![1], vec![0, 1], vec![2], vec![0, 2]] {
                    for gap in [100u64, 7000] {
                        out.push(Case {
                            invite: false,
                            reliable: false,
                            code,
                            provisionals,
                            respond_at,
                            retrans: (1..=4).map(|i| nudge(respond_at, respond_at + i * gap)).collect(),
                            ack_at: None,
                            ack_same_branch: false,
                            rng: 0,
                            faults: faults.clone(),
                        });
                    }
                }
            }
        }
    }
    out.sort_by_key(|c| hash_of(c));
    out.dedup_by_key(|c| hash_of(c));
    out
}

#[derive(Debug, Clone)]
pub struct AppResult {
    pub t_ms: u64,
    pub what: String,
    pub ok: bool,
    pub msg: String,
}

pub struct Observed {
    pub wire: Vec<(Sent, Option<WireMsg>)>,
    pub seen: Vec<Seen>,
    pub app: Vec<AppResult>,
    pub end_count: usize,
    pub failed_sends: usize,
}

const BRANCH: &str = "z9hG4bKc06branch";

fn request_bytes(invite: bool) -> Vec<u8> {
    let m = if invite { "INVITE" } else { "OPTIONS" };
    request_text(
        m,
        "sip:uas@10.0.0.1",
        &[format!("SIP/2.0/UDP 192.0.2.9:5060;branch={BRANCH}")],
        "<sip:peer@192.0.2.9>;tag=peerftag",
        "<sip:uas@10.0.0.1>",
        "c06-call",
        11,
        m,
        &["Contact: <sip:peer@192.0.2.9>".to_string()],
        b"",
    )
}

fn ack_bytes(same_branch: bool, to_tag: Option<&str>) -> Vec<u8> {
    let branch = if same_branch { BRANCH.to_string() } else { format!("{BRANCH}ack") };
    let to = match to_tag {
        Some(t) => format!("<sip:uas@10.0.0.1>;tag={t}"),
        None => "<sip:uas@10.0.0.1>".to_string(),
    };
    request_text(
        "ACK",
        "sip:uas@10.0.0.1",
        &[format!("SIP/2.0/UDP 192.0.2.9:5060;branch={branch}")],
        "<sip:peer@192.0.2.9>;tag=peerftag",
        &to,
        "c06-call",
        11,
        "ACK",
        &[],
        b"",
    )
}

pub fn run(case: &Case) -> Observed {
    let case = case.clone();
    run_world(case.rng as u64, |clock| async move {
        let log = WireLog::new(clock);
        let (tp, _) = mock_datagram(&log, "UDP", false, case.reliable, "10.0.0.1:5060");
        let rec = Recorder::new(clock);
        let (tx, mut rx) = mpsc::unbounded_channel();
        let mut b = offline_builder();
        b.add_layer(ChannelLayer { rec: rec.clone(), tx });
        let endpoint = b.build();
        let peer: SocketAddr = "192.0.2.9:5060".parse().unwrap();
        let app: Arc<Mutex<Vec<AppResult>>> = Default::default();

        if faults_apply(&case) {
            // send calls so far: the provisionals and the final response itself
            log.fail_calls(case.faults.iter().map(|i| case.provisionals as usize + 1 + *i as usize));
        }
        let req_bytes = request_bytes(case.invite);
        inject(&endpoint, &tp, peer, &req_bytes);
        settle().await;

        let mut held: Vec<IncomingRequest> = vec![];
        if let Ok(mut req) = rx.try_recv() {
            let endpoint2 = endpoint.clone();
            let app2 = app.clone();
            let case2 = case.clone();
            tokio::spawn(async move {
                let log_res = |what: &str, r: Result<(), String>| {
                    app2.lock().push(AppResult {
                        t_ms: clock.now_ms(),
                        what: what.to_string(),
                        ok: r.is_ok(),
                        msg: r.err().unwrap_or_default(),
                    })
                };
                if case2.invite {
                    let mut tsx = endpoint2.create_server_inv_tsx(&mut req);
                    for i in 0..case2.provisionals {
                        let mut r = endpoint2.create_response(
                            &req,
                            Code::from(if i == 0 { 100 } else { 180 }),
                            None,
                        );
                        let res = tsx.respond_provisional(&mut r).await;
                        log_res("provisional", res.map_err(|e| e.to_string()));
                    }
                    clock.until(case2.respond_at).await;
                    let response = endpoint2.create_response(&req, Code::from(case2.code), None);
                    if (200..300).contains(&case2.code) {
                        let res = tsx.respond_success(response).await;
                        match res {
                            Ok(accepted) => {
                                log_res("final", Ok(()));
                                // the TU keeps the Accepted state alive
                                std::future::pending::<()>().await;
                                drop(accepted);
                            }
                            Err(e) => log_res("final", Err(e.to_string())),
                        }
                    } else {
                        let res = tsx.respond_failure(response).await;
                        log_res("final", res.map_err(|e| e.to_string()));
                    }
                } else {
                    let mut tsx = endpoint2.create_server_tsx(&mut req);
                    for i in 0..case2.provisionals {
                        let mut r = endpoint2.create_response(
                            &req,
                            Code::from(if i == 0 { 100 } else { 180 }),
                            None,
                        );
                        let res = tsx.respond_provisional(&mut r).await;
                        log_res("provisional", res.map_err(|e| e.to_string()));
                    }
                    clock.until(case2.respond_at).await;
                    let response = endpoint2.create_response(&req, Code::from(case2.code), None);
                    let res = tsx.respond(response).await;
                    log_res("final", res.map_err(|e| e.to_string()));
                }
                drop(req);
            });
        }
        settle().await;

        let mut events: Vec<(u64, u8)> = case.retrans.iter().map(|t| (*t, 0u8)).collect();
        if let Some(a) = case.ack_at {
            events.push((a, 1));
        }
        events.sort();
        for (t, kind) in events {
            clock.until(t).await;
            if kind == 0 {
                inject(&endpoint, &tp, peer, &req_bytes);
            } else {
                // To-tag as the peer saw it in the final response (none is added by create_response)
                let ack = ack_bytes(
                    !(200..300).contains(&case.code) || case.ack_same_branch,
                    None,
                );
                inject(&endpoint, &tp, peer, &ack);
            }
            settle().await;
            // later arrivals that open a new transaction are taken and held by the test (never answered)
            while let Ok(r) = rx.try_recv() {
                if r.line.method == sip_types::Method::ACK {
                    drop(r); // an application consumes an ACK, it does not keep it
                } else {
                    held.push(r);
                }
            }
        }
        let horizon = case
            .retrans
            .iter()
            .copied()
            .chain(case.ack_at)
            .max()
            .unwrap_or(0)
            .max(case.respond_at + TIMEOUT + T2)
            + 2000;
        clock.until(horizon).await;
        settle().await;
        drop(held);
        settle().await;
        let end_count = endpoint.verif_counts().0;
        let app_out = app.lock().clone();
        Observed {
            wire: log.parsed(),
            seen: rec.snapshot(),
            app: app_out,
            end_count,
            failed_sends: log.failed_sends().len(),
        }
    })
}

pub fn check(case: &Case, out: &mut CaseOut) {
    let obs = run(case);
    let kind = if case.invite { "invite" } else { "non-invite" };
    let success = (200..300).contains(&case.code);
    let ra = case.respond_at;

    out.class(kind);
    out.class(if case.reliable { "reliable" } else { "unreliable" });
    out.class(if success { "2xx" } else { "3xx-6xx" });

    // wire: responses by status
    let mut prov_sends = vec![];
    let mut final_sends: Vec<&Sent> = vec![];
    let mut other = 0;
    for (s, m) in &obs.wire {
        match m.as_ref().and_then(|m| m.status()) {
            Some(c) if c < 200 => prov_sends.push(s.t_ms),
            Some(c) if c == case.code => final_sends.push(s),
            _ => other += 1,
        }
    }
    let final_times: Vec<u64> = final_sends.iter().map(|s| s.t_ms).collect();
    out.note = Some(format!(
        "final_sends@{final_times:?} provisional_sends@{prov_sends:?} app={:?} layer_seen={:?}",
        obs.app
            .iter()
            .map(|a| format!("{}@{}:{}", a.what, a.t_ms, if a.ok { "ok".into() } else { a.msg.clone() }))
            .collect::<Vec<_>>(),
        obs.seen.iter().map(|s| format!("{}@{}", s.method, s.t_ms)).collect::<Vec<_>>()
    ));
    if other > 0 {
        out.fail(format!("c06.wire/{kind}-unexpected-message"), format!("{other} unexpected messages on the wire"));
    }

    // provisionals: once per call (at t=0)
    if prov_sends.len() != case.provisionals as usize || prov_sends.iter().any(|t| *t != 0) {
        out.fail(
            format!("c06.provisional/{kind}"),
            format!("{} provisional calls at 0 ms produced sends at {prov_sends:?}", case.provisionals),
        );
    }

    // expected transmissions of the final response
    let queued_before: usize = case.retrans.iter().filter(|t| **t < ra).count();
    let end_of_life = if case.invite && !success {
        match case.ack_at {
            Some(a) if a < ra + TIMEOUT => a,
            _ => ra + TIMEOUT,
        }
    } else {
        ra + TIMEOUT
    };
    let mut want: Vec<u64> = vec![ra];
    if !case.reliable {
        if case.invite && !success {
            for g in ref_tsx::server_inv_timer_g_schedule() {
                if ra + g < end_of_life {
                    want.push(ra + g);
                }
            }
            want.extend(case.retrans.iter().copied().filter(|t| *t > ra && *t < end_of_life));
        } else if !case.invite {
            want.extend(case.retrans.iter().copied().filter(|t| *t > ra && *t < end_of_life));
        }
        // INVITE 2xx: retransmission is the TU's job (Accepted), none by the transaction
    }
    want.sort();
    if faults_apply(case) {
        // the re-sends hit by a transient transport fault never reach the wire; every other one still must
        let mut i = 0usize;
        let mut kept = vec![];
        for (k, t) in want.iter().enumerate() {
            if k == 0 {
                kept.push(*t);
                continue;
            }
            if !case.faults.contains(&(i as u8)) {
                kept.push(*t);
            }
            i += 1;
        }
        let hit = want.len() - kept.len();
        want = kept;
        if obs.failed_sends != hit {
            out.fail("c06.harness/fault-plan-mismatch", format!("{} sends failed, plan expected {hit}", obs.failed_sends));
        }
        if hit > 0 {
            out.class("re-send hit by a transient transport fault");
        }
    }
    // retransmissions that arrived before the final response may (queued in the transaction) trigger
    // extra copies at the instant of the final: tolerated, 0..=queued_before extra at `ra`
    let mut got = final_times.clone();
    let mut extra_at_ra = 0;
    while got.iter().filter(|t| **t == ra).count() > 1 && extra_at_ra < queued_before {
        let i = got.iter().position(|t| *t == ra).unwrap();
        got.remove(i);
        extra_at_ra += 1;
    }
    got.sort();
    // INVITE 3xx-6xx without ACK: between 64*T1 and the moment the timeout is reported (<= 64*T1+T2 later)
    // the transaction object may still exist; what happens to a request copy arriving there is not asserted
    let fuzzy = |t: u64| {
        case.invite && !success && !case.reliable && t > ra + TIMEOUT && t <= ra + TIMEOUT + T2
            && case.ack_at.map_or(true, |a| a > ra + TIMEOUT)
    };
    got.retain(|t| !(fuzzy(*t) && case.retrans.contains(t)));
    if got != want {
        let locus = if !got.contains(&ra) {
            "first-transmission-not-immediate"
        } else if case.reliable {
            "reliable-retransmits"
        } else if got.iter().any(|t| *t >= end_of_life && *t > ra) {
            "sent-after-end"
        } else {
            "retransmission-schedule"
        };
        out.fail(
            format!("c06.final/{kind}-{locus}"),
            format!("final response transmissions expected at {want:?}, observed {final_times:?} (respond_at={ra}, end={end_of_life})"),
        );
    }
    if let Some(first) = final_sends.first() {
        if final_sends.iter().any(|s| s.bytes != first.bytes || s.dest != first.dest) {
            out.fail(format!("c06.identical/{kind}"), "a retransmitted response differs from the first transmission");
        }
    }

    // result of the respond call
    let fin: Vec<&AppResult> = obs.app.iter().filter(|a| a.what == "final").collect();
    if case.invite && !success {
        let acked = case.ack_at.filter(|a| *a < ra + TIMEOUT);
        match (acked, fin.first()) {
            (Some(a), Some(r)) => {
                if !(r.ok && r.t_ms == a) {
                    out.fail(
                        "c06.result/invite-failure-acked",
                        format!("ACK at {a} ms: respond_failure returned ok={} at {} ms ({})", r.ok, r.t_ms, r.msg),
                    );
                }
            }
            (Some(a), None) => out.fail(
                "c06.result/invite-failure-acked",
                format!("ACK at {a} ms but respond_failure never returned"),
            ),
            (None, Some(_)) if case.ack_at.map_or(false, |a| fuzzy(a)) => {}
            (None, Some(r)) => {
                let lo = ra + TIMEOUT;
                let hi = ra + TIMEOUT + T2;
                if case.reliable {
                    // reliable without ACK: only "no success without ACK" is asserted
                    if r.ok && case.ack_at.map_or(true, |a| r.t_ms != a) {
                        out.fail("c06.result/invite-failure-reliable", format!("respond_failure returned Ok at {} ms without ACK", r.t_ms));
                    }
                } else if r.ok || !r.msg.contains("timed out") || r.t_ms < lo || r.t_ms > hi {
                    out.fail(
                        "c06.result/invite-failure-timeout",
                        format!("no ACK: expected RequestTimedOut within [{lo},{hi}] ms, got ok={} at {} ms ({})", r.ok, r.t_ms, r.msg),
                    );
                }
            }
            (None, None) => {
                if !case.reliable {
                    out.fail("c06.result/invite-failure-timeout", "no ACK: respond_failure never returned");
                }
            }
        }
    } else {
        match fin.first() {
            Some(r) if r.ok && r.t_ms == ra => {}
            Some(r) => out.fail(
                format!("c06.result/{kind}-final"),
                format!("respond returned ok={} at {} ms ({}), expected Ok at {ra}", r.ok, r.t_ms, r.msg),
            ),
            None => out.fail(format!("c06.result/{kind}-final"), "respond never returned"),
        }
    }

    // what the layers saw
    let method = if case.invite { "INVITE" } else { "OPTIONS" };
    let seen_req: Vec<u64> = obs.seen.iter().filter(|s| s.method == method).map(|s| s.t_ms).collect();
    let seen_ack: Vec<u64> = obs.seen.iter().filter(|s| s.method == "ACK").map(|s| s.t_ms).collect();
    let mut want_seen = vec![0u64];
    if !case.invite && !case.reliable {
        // transaction is gone 64*T1 after the final response: the same request starts a new one
        if let Some(t) = case.retrans.iter().copied().find(|t| *t > ra + TIMEOUT) {
            want_seen.push(t);
            // (the test holds that second request without answering, so later copies are absorbed again)
        }
    }
    let mut seen_req = seen_req;
    if case.invite && !success {
        // after the transaction ended (ACK, or timeout) the same request starts a new transaction;
        // RFC timer I (T4 after the ACK) and the fuzzy timeout window are not asserted
        let end = match case.ack_at {
            Some(a) if a < ra + TIMEOUT => a,
            _ => ra + TIMEOUT,
        };
        let unasserted = |t: u64| {
            (case.ack_at == Some(end) && t > end && t <= end + crate::refmodel::ref_tsx::T4) || fuzzy(t)
        };
        let first_new = case.retrans.iter().copied().find(|t| *t > end && !case.reliable);
        match first_new {
            Some(t) if unasserted(t) => {
                // either absorbed or shown: accept what was observed for this and later copies
                want_seen = seen_req.clone();
                if seen_req.first() != Some(&0) {
                    want_seen = vec![0];
                }
            }
            Some(t) => want_seen.push(t),
            None => {}
        }
        seen_req.dedup();
    }
    if seen_req != want_seen {
        out.fail(
            if seen_req.len() > want_seen.len() {
                format!("c06.layers/{kind}-retransmission-shown-again")
            } else {
                format!("c06.layers/{kind}-not-shown-after-end")
            },
            format!("request shown to layers at {seen_req:?}, expected {want_seen:?}"),
        );
    }
    let want_ack: Vec<u64> = match case.ack_at {
        Some(a) if success => vec![a],
        Some(a) if !case.reliable && a > ra + TIMEOUT => vec![a], // transaction timed out before: stray ACK reaches the layers
        _ => vec![],
    };
    let ack_after_end = !success && case.ack_at.map_or(false, |a| a > ra + TIMEOUT);
    if case.invite && !ack_after_end && seen_ack != want_ack && !(case.reliable && !success && case.ack_at.map_or(false, |a| a > ra + TIMEOUT)) {
        out.fail(
            if success { "c06.layers/ack-for-2xx-not-surfaced" } else { "c06.layers/ack-for-failure-surfaced" },
            format!("ACK shown to layers at {seen_ack:?}, expected {want_ack:?}"),
        );
    }

    // non-triviality
    let timer_retrans = want.len() > 1 || obs.failed_sends > 0;
    let ack_near_edge = case.ack_at.map_or(false, |a| g_instants(ra).iter().any(|e| a.abs_diff(*e) <= 1));
    if !case.retrans.is_empty() {
        out.class("request-retransmission");
    }
    if timer_retrans {
        out.class("response-retransmission-expected");
    }
    if ack_near_edge {
        out.class("ack-within-1ms-of-G/H-edge");
    }
    if case.ack_at.is_none() && case.invite && !success {
        out.class("ack-lost");
    }
    if !case.retrans.is_empty() || timer_retrans || ack_near_edge {
        out.nontrivial(case);
    }
    let _ = obs.end_count;
}

pub fn property() -> Property {
    Property {
        fuzz: vec![],
        id: "C06",
        rule: "cases = (INVITE|non-INVITE) x (reliable|unreliable) x final status x 0..2 provisionals x answer delay x arrival instants of request retransmissions and of the ACK (grid = +-1 ms around every timer-G instant, the answer instant and 64*T1; random otherwise) x transient send faults on chosen re-sends of a non-INVITE final response, under a paused clock. Non-trivial = at least one request retransmission, or at least one timer retransmission expected, or an ACK within 1 ms of a G/H edge; distinct by hash of the case.",
        assumptions: vec![
            "timers run on tokio's paused clock (hook H2); mock transport sends complete instantly; transient send faults are injected only into re-sends of a non-INVITE final response",
            "arrivals exactly on a timer instant are excluded (tie is a don't-care)",
            "request retransmissions that arrive before the final response may produce extra copies at the answer instant (tolerated: statement silent)",
            "no request retransmissions are generated after the final response on reliable transports",
        ],
        explanation: "grid sub-check enumerates single (thorough: pairs of) retransmission instants x ACK instants over the edge grid; random sub-check samples longer patterns",
        subs: vec![
            enum_sub("grid", grid_cases, check),
            prop_sub("random", strategy, 6000, 60000, check),
        ],
    }
}
